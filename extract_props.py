#!/usr/bin/env python3
"""extract_props.py <branch> <ID>: write propsd/<ID>.py from the old-style props.py / gen_manifest.py of a branch."""
import subprocess, re, sys, pprint
br, pid = sys.argv[1], sys.argv[2]
show = lambda f: subprocess.run(["git", "show", f"{br}:{f}"], capture_output=True, text=True).stdout
ns = {}; exec(show("props.py"), ns)
m = re.search(r"^TEXT = \{.*?^\}", show("gen_manifest.py"), re.S | re.M)
ns2 = {}; exec(m.group(0), ns2)
with open(f"/verif/propsd/{pid}.py", "w") as f:
    f.write(f'"""Configuration of ./check {pid}: harness streams (name, n_quick, n_thorough), rule text, theorem names; MANIFEST texts."""\n')
    f.write("PROP = " + pprint.pformat(ns["PROPS"][pid], width=150, sort_dicts=False) + "\n\n")
    f.write("TEXT = " + pprint.pformat(ns2["TEXT"].get(pid, ("", "")), width=150) + "\n")
print("wrote propsd/%s.py" % pid)
