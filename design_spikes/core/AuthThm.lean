import Eval
/- FEASIBILITY SPIKE: C01 theorems over the authorizer mirror. -/
namespace Cedar

variable (req : Request) (es : Entities)

def Sat (p : Policy) : Prop := p.outcome req es = .sat
def Errs (p : Policy) : Prop := p.outcome req es = .err

theorem step_satPermits (b : Buckets) (p : Policy) (id : String) :
    id ∈ (Buckets.step req es b p).satPermits ↔
      id ∈ b.satPermits ∨ (id = p.id ∧ p.effect = .permit ∧ Sat req es p) := by
  unfold Sat
  cases ho : p.outcome req es <;> cases he : p.effect <;> simp [Buckets.step, ho, he]

theorem step_satForbids (b : Buckets) (p : Policy) (id : String) :
    id ∈ (Buckets.step req es b p).satForbids ↔
      id ∈ b.satForbids ∨ (id = p.id ∧ p.effect = .forbid ∧ Sat req es p) := by
  unfold Sat
  cases ho : p.outcome req es <;> cases he : p.effect <;> simp [Buckets.step, ho, he]

theorem step_errors (b : Buckets) (p : Policy) (id : String) :
    id ∈ (Buckets.step req es b p).errors ↔
      id ∈ b.errors ∨ (id = p.id ∧ Errs req es p) := by
  unfold Errs
  cases ho : p.outcome req es <;> cases he : p.effect <;> simp [Buckets.step, ho, he]

theorem mem_satPermits (ps : List Policy) (b : Buckets) (id : String) :
    id ∈ (ps.foldl (Buckets.step req es) b).satPermits ↔
      id ∈ b.satPermits ∨ ∃ p, p ∈ ps ∧ id = p.id ∧ p.effect = .permit ∧ Sat req es p := by
  induction ps generalizing b with
  | nil => simp
  | cons p ps ih =>
    rw [List.foldl_cons, ih, step_satPermits]
    simp only [List.mem_cons, exists_eq_or_imp, or_assoc]

theorem mem_satForbids (ps : List Policy) (b : Buckets) (id : String) :
    id ∈ (ps.foldl (Buckets.step req es) b).satForbids ↔
      id ∈ b.satForbids ∨ ∃ p, p ∈ ps ∧ id = p.id ∧ p.effect = .forbid ∧ Sat req es p := by
  induction ps generalizing b with
  | nil => simp
  | cons p ps ih =>
    rw [List.foldl_cons, ih, step_satForbids]
    simp only [List.mem_cons, exists_eq_or_imp, or_assoc]

theorem mem_errors (ps : List Policy) (b : Buckets) (id : String) :
    id ∈ (ps.foldl (Buckets.step req es) b).errors ↔
      id ∈ b.errors ∨ ∃ p, p ∈ ps ∧ id = p.id ∧ Errs req es p := by
  induction ps generalizing b with
  | nil => simp
  | cons p ps ih =>
    rw [List.foldl_cons, ih, step_errors]
    simp only [List.mem_cons, exists_eq_or_imp, or_assoc]

theorem isEmpty_iff_no_mem {l : List String} : l.isEmpty = true ↔ ∀ x, x ∉ l := by
  cases l with
  | nil => simp
  | cons a t =>
    simp only [List.isEmpty_cons, Bool.false_eq_true, false_iff]
    intro h; exact h a List.mem_cons_self

/-- C01: allow iff some permit is satisfied and no forbid is. -/
theorem allow_iff (ps : List Policy) :
    (isAuthorized req es ps).decision = .allow ↔
      (∃ p, p ∈ ps ∧ p.effect = .permit ∧ Sat req es p) ∧
      ¬ (∃ p, p ∈ ps ∧ p.effect = .forbid ∧ Sat req es p) := by
  unfold isAuthorized Buckets.concretize
  simp only
  have hP := mem_satPermits req es ps {}
  have hF := mem_satForbids req es ps {}
  constructor
  · intro h
    split at h
    · rename_i hc
      simp only [Bool.and_eq_true, Bool.not_eq_true', isEmpty_iff_no_mem] at hc
      obtain ⟨hne, hemp⟩ := hc
      constructor
      · cases hl : (ps.foldl (Buckets.step req es) {}).satPermits with
        | nil => simp [hl] at hne
        | cons x xs =>
          have := (hP x).mp (by simp [hl])
          simp at this
          obtain ⟨p, hp, _, h2, h3⟩ := this
          exact ⟨p, hp, h2, h3⟩
      · rintro ⟨p, hp, h2, h3⟩
        exact hemp p.id ((hF p.id).mpr (Or.inr ⟨p, hp, rfl, h2, h3⟩))
    · cases h
  · rintro ⟨⟨p, hp, h2, h3⟩, hno⟩
    have h1 : p.id ∈ (ps.foldl (Buckets.step req es) {}).satPermits :=
      (hP p.id).mpr (Or.inr ⟨p, hp, rfl, h2, h3⟩)
    have h2' : (ps.foldl (Buckets.step req es) {}).satForbids.isEmpty = true := by
      rw [isEmpty_iff_no_mem]
      intro x hx
      have := (hF x).mp hx
      simp at this
      obtain ⟨q, hq, _, e1, e2⟩ := this
      exact hno ⟨q, hq, e1, e2⟩
    have h1' : (ps.foldl (Buckets.step req es) {}).satPermits.isEmpty = false := by
      cases hl : (ps.foldl (Buckets.step req es) {}).satPermits with
      | nil => simp [hl] at h1
      | cons _ _ => rfl
    simp [h1', h2']

/-- C01: the errors are exactly the erroring policies. -/
theorem errors_exact (ps : List Policy) (id : String) :
    id ∈ (isAuthorized req es ps).errors ↔ ∃ p, p ∈ ps ∧ id = p.id ∧ Errs req es p := by
  unfold isAuthorized Buckets.concretize
  simp only
  rw [mem_errors]; simp

/-- C01: reasons = satisfied forbids if any, else satisfied permits. -/
theorem reasons_exact (ps : List Policy) (id : String) :
    ((∃ p, p ∈ ps ∧ p.effect = .forbid ∧ Sat req es p) →
      (id ∈ (isAuthorized req es ps).reasons ↔ ∃ p, p ∈ ps ∧ id = p.id ∧ p.effect = .forbid ∧ Sat req es p)) ∧
    ((¬ ∃ p, p ∈ ps ∧ p.effect = .forbid ∧ Sat req es p) →
      (id ∈ (isAuthorized req es ps).reasons ↔ ∃ p, p ∈ ps ∧ id = p.id ∧ p.effect = .permit ∧ Sat req es p)) := by
  unfold isAuthorized Buckets.concretize
  simp only
  have hP := mem_satPermits req es ps {}
  have hF := mem_satForbids req es ps {}
  constructor
  · rintro ⟨q, hq, e1, e2⟩
    have hne : (ps.foldl (Buckets.step req es) {}).satForbids.isEmpty = false := by
      have : q.id ∈ (ps.foldl (Buckets.step req es) {}).satForbids := (hF q.id).mpr (Or.inr ⟨q, hq, rfl, e1, e2⟩)
      cases hl : (ps.foldl (Buckets.step req es) {}).satForbids with
      | nil => simp [hl] at this
      | cons _ _ => rfl
    simp only [hne, Bool.false_eq_true, if_false]
    rw [hF]; simp
  · intro hex
    have hemp : (ps.foldl (Buckets.step req es) {}).satForbids.isEmpty = true := by
      rw [isEmpty_iff_no_mem]
      intro x hx
      have := (hF x).mp hx
      simp at this
      obtain ⟨q, hq, _, e1, e2⟩ := this
      exact hex ⟨q, hq, e1, e2⟩
    simp only [hemp, if_true]
    rw [hP]; simp

/-- C01: independent of policy order. -/
theorem perm_invariant (ps₁ ps₂ : List Policy) (h : ps₁.Perm ps₂) :
    (isAuthorized req es ps₁).decision = (isAuthorized req es ps₂).decision ∧
    (∀ id, id ∈ (isAuthorized req es ps₁).reasons ↔ id ∈ (isAuthorized req es ps₂).reasons) ∧
    (∀ id, id ∈ (isAuthorized req es ps₁).errors ↔ id ∈ (isAuthorized req es ps₂).errors) := by
  have hm : ∀ p, p ∈ ps₁ ↔ p ∈ ps₂ := fun p => h.mem_iff
  refine ⟨?_, ?_, ?_⟩
  · have key : (isAuthorized req es ps₁).decision = .allow ↔ (isAuthorized req es ps₂).decision = .allow := by
      rw [allow_iff, allow_iff]; simp only [hm]
    cases h1 : (isAuthorized req es ps₁).decision <;> cases h2 : (isAuthorized req es ps₂).decision <;>
      simp [h1, h2] at key ⊢
  · intro id
    have r1 := reasons_exact req es ps₁ id
    have r2 := reasons_exact req es ps₂ id
    simp only [hm] at r1
    by_cases hex : ∃ p, p ∈ ps₂ ∧ p.effect = .forbid ∧ Sat req es p
    · rw [r1.1 hex, r2.1 hex]
    · rw [r1.2 hex, r2.2 hex]
  · intro id
    rw [errors_exact, errors_exact]; simp only [hm]

#print axioms allow_iff
#print axioms perm_invariant
end Cedar
