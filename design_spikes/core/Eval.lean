import Core
/- FEASIBILITY SPIKE: expressions, entities, evaluator (concrete), policies, authorizer mirror. -/
namespace Cedar

inductive PatElem where
  | char (c : Char)
  | star
deriving Repr, DecidableEq, Inhabited
abbrev Pattern := List PatElem

def wildcardMatch : Pattern → List Char → Bool
  | [], [] => true
  | [], _ :: _ => false
  | .star :: ps, [] => wildcardMatch ps []
  | .star :: ps, c :: cs => wildcardMatch ps (c :: cs) || wildcardMatch (.star :: ps) cs
  | .char _ :: _, [] => false
  | .char p :: ps, c :: cs => p == c && wildcardMatch ps cs
termination_by p s => p.length + s.length

inductive Var where | principal | action | resource | context
deriving Repr, DecidableEq, Inhabited
inductive UnaryOp where | not | neg | isEmpty
deriving Repr, DecidableEq, Inhabited
inductive BinaryOp where
  | eq | less | lessEq | add | sub | mul | mem | contains | containsAll | containsAny | getTag | hasTag
deriving Repr, DecidableEq, Inhabited
inductive SlotId where | principal | resource
deriving Repr, DecidableEq, Inhabited

inductive Expr where
  | lit (p : Prim)
  | var (v : Var)
  | slot (s : SlotId)
  | ite (c t e : Expr)
  | and (a b : Expr)
  | or (a b : Expr)
  | unaryApp (op : UnaryOp) (a : Expr)
  | binaryApp (op : BinaryOp) (a b : Expr)
  | call (fn : String) (args : List Expr)
  | getAttr (e : Expr) (attr : String)
  | hasAttr (e : Expr) (attr : String)
  | like (e : Expr) (p : Pattern)
  | is (e : Expr) (ty : EntityType)
  | set (es : List Expr)
  | record (kvs : List (String × Expr))
deriving Repr, Inhabited

inductive ErrClass where
  | type | entity | attr | overflow | ext | slot
deriving Repr, DecidableEq, Inhabited

abbrev Result (α) := Except ErrClass α

structure EntityData where
  attrs : List (String × Value)
  ancestors : List EntityUID
  tags : List (String × Value)
deriving Repr, Inhabited

abbrev Entities := List (EntityUID × EntityData)

def Entities.find? (es : Entities) (uid : EntityUID) : Option EntityData :=
  match es with
  | [] => none
  | (u, d) :: rest => if u == uid then some d else Entities.find? rest uid

structure Request where
  principal : EntityUID
  action : EntityUID
  resource : EntityUID
  context : List (String × Value)
deriving Repr, Inhabited

abbrev SlotEnv := List (SlotId × EntityUID)

def i64Min : Int := -9223372036854775808
def i64Max : Int := 9223372036854775807
def intOrErr (i : Int) : Result Value :=
  if i64Min ≤ i ∧ i ≤ i64Max then .ok (.prim (.int i)) else .error .overflow

def lookupKV (kvs : List (String × Value)) (k : String) : Option Value :=
  match kvs with
  | [] => none
  | (k', v) :: rest => if k' == k then some v else lookupKV rest k

def Value.asBool : Value → Result Bool
  | .prim (.bool b) => .ok b
  | _ => .error .type
def Value.asInt : Value → Result Int
  | .prim (.int i) => .ok i
  | _ => .error .type
def Value.asString : Value → Result String
  | .prim (.string s) => .ok s
  | _ => .error .type
def Value.asEntity : Value → Result EntityUID
  | .prim (.entityUID u) => .ok u
  | _ => .error .type
def Value.asSet : Value → Result (List Value)
  | .set vs => .ok vs
  | _ => .error .type

def asEntityList : List Value → Result (List EntityUID)
  | [] => .ok []
  | v :: vs => do
    let u ← v.asEntity
    let us ← asEntityList vs
    .ok (u :: us)

/-- dedup modulo `beq`, keeping first occurrences (mirror of collecting into a set) -/
def Value.mkSet : List Value → List Value
  | [] => []
  | v :: vs => let rest := Value.mkSet vs; if Value.elem v rest then rest else v :: rest

def inE (es : Entities) (u1 u2 : EntityUID) : Bool :=
  u1 == u2 || (match es.find? u1 with
    | some d => d.ancestors.contains u2
    | none => false)

def applyUnary (op : UnaryOp) (v : Value) : Result Value :=
  match op with
  | .not => do let b ← v.asBool; .ok (.prim (.bool (!b)))
  | .neg => do let i ← v.asInt; intOrErr (-i)
  | .isEmpty => do let s ← v.asSet; .ok (.prim (.bool s.isEmpty))

/-- extension functions: stub for the spike -/
def callExt (_fn : String) (_args : List Value) : Result Value := .error .ext

def applyBinary (es : Entities) (op : BinaryOp) (v1 v2 : Value) : Result Value :=
  match op with
  | .eq => .ok (.prim (.bool (Value.beq v1 v2)))
  | .less =>
    match v1, v2 with
    | .prim (.int a), .prim (.int b) => .ok (.prim (.bool (a < b)))
    | .ext (.datetime a), .ext (.datetime b) => .ok (.prim (.bool (a < b)))
    | .ext (.duration a), .ext (.duration b) => .ok (.prim (.bool (a < b)))
    | _, _ => .error .type
  | .lessEq =>
    match v1, v2 with
    | .prim (.int a), .prim (.int b) => .ok (.prim (.bool (a ≤ b)))
    | .ext (.datetime a), .ext (.datetime b) => .ok (.prim (.bool (a ≤ b)))
    | .ext (.duration a), .ext (.duration b) => .ok (.prim (.bool (a ≤ b)))
    | _, _ => .error .type
  | .add => do let a ← v1.asInt; let b ← v2.asInt; intOrErr (a + b)
  | .sub => do let a ← v1.asInt; let b ← v2.asInt; intOrErr (a - b)
  | .mul => do let a ← v1.asInt; let b ← v2.asInt; intOrErr (a * b)
  | .mem => do
    let u1 ← v1.asEntity
    match v2 with
    | .prim (.entityUID u2) => .ok (.prim (.bool (inE es u1 u2)))
    | .set vs => do
      let us ← asEntityList vs
      .ok (.prim (.bool (us.any (inE es u1 ·))))
    | _ => .error .type
  | .contains => do let s ← v1.asSet; .ok (.prim (.bool (Value.elem v2 s)))
  | .containsAll => do let s1 ← v1.asSet; let s2 ← v2.asSet; .ok (.prim (.bool (Value.subset s2 s1)))
  | .containsAny => do let s1 ← v1.asSet; let s2 ← v2.asSet; .ok (.prim (.bool (s1.any (Value.elem · s2))))
  | .getTag => do
    let u ← v1.asEntity
    let t ← v2.asString
    match es.find? u with
    | none => .error .entity
    | some d => match lookupKV d.tags t with
      | some v => .ok v
      | none => .error .attr
  | .hasTag => do
    let u ← v1.asEntity
    let t ← v2.asString
    match es.find? u with
    | none => .ok (.prim (.bool false))
    | some d => .ok (.prim (.bool (lookupKV d.tags t).isSome))

mutual
def evaluate (req : Request) (es : Entities) (env : SlotEnv) : Expr → Result Value
  | .lit p => .ok (.prim p)
  | .var .principal => .ok (.prim (.entityUID req.principal))
  | .var .action => .ok (.prim (.entityUID req.action))
  | .var .resource => .ok (.prim (.entityUID req.resource))
  | .var .context => .ok (.record req.context)
  | .slot s => match env.lookup s with
    | some u => .ok (.prim (.entityUID u))
    | none => .error .slot
  | .ite c t e =>
    match evaluate req es env c with
    | .error err => .error err
    | .ok v => match v.asBool with
      | .error err => .error err
      | .ok true => evaluate req es env t
      | .ok false => evaluate req es env e
  | .and a b =>
    match evaluate req es env a with
    | .error err => .error err
    | .ok v => match v.asBool with
      | .error err => .error err
      | .ok false => .ok (.prim (.bool false))
      | .ok true => match evaluate req es env b with
        | .error err => .error err
        | .ok w => match w.asBool with
          | .error err => .error err
          | .ok r => .ok (.prim (.bool r))
  | .or a b =>
    match evaluate req es env a with
    | .error err => .error err
    | .ok v => match v.asBool with
      | .error err => .error err
      | .ok true => .ok (.prim (.bool true))
      | .ok false => match evaluate req es env b with
        | .error err => .error err
        | .ok w => match w.asBool with
          | .error err => .error err
          | .ok r => .ok (.prim (.bool r))
  | .unaryApp op a =>
    match evaluate req es env a with
    | .error err => .error err
    | .ok v => applyUnary op v
  | .binaryApp op a b =>
    match evaluate req es env a with
    | .error err => .error err
    | .ok v1 => match evaluate req es env b with
      | .error err => .error err
      | .ok v2 => applyBinary es op v1 v2
  | .call fn args =>
    match evaluateList req es env args with
    | .error err => .error err
    | .ok vs => callExt fn vs
  | .getAttr e attr =>
    match evaluate req es env e with
    | .error err => .error err
    | .ok (.record kvs) => match lookupKV kvs attr with
      | some v => .ok v
      | none => .error .attr
    | .ok (.prim (.entityUID u)) => match es.find? u with
      | none => .error .entity
      | some d => match lookupKV d.attrs attr with
        | some v => .ok v
        | none => .error .attr
    | .ok _ => .error .type
  | .hasAttr e attr =>
    match evaluate req es env e with
    | .error err => .error err
    | .ok (.record kvs) => .ok (.prim (.bool (lookupKV kvs attr).isSome))
    | .ok (.prim (.entityUID u)) => match es.find? u with
      | none => .ok (.prim (.bool false))
      | some d => .ok (.prim (.bool (lookupKV d.attrs attr).isSome))
    | .ok _ => .error .type
  | .like e p =>
    match evaluate req es env e with
    | .error err => .error err
    | .ok v => match v.asString with
      | .error err => .error err
      | .ok s => .ok (.prim (.bool (wildcardMatch p s.toList)))
  | .is e ty =>
    match evaluate req es env e with
    | .error err => .error err
    | .ok v => match v.asEntity with
      | .error err => .error err
      | .ok u => .ok (.prim (.bool (u.ty == ty)))
  | .set xs =>
    match evaluateList req es env xs with
    | .error err => .error err
    | .ok vs => .ok (.set (Value.mkSet vs))
  | .record kvs =>
    match evaluateKVs req es env kvs with
    | .error err => .error err
    | .ok vs => .ok (.record vs)
def evaluateList (req : Request) (es : Entities) (env : SlotEnv) : List Expr → Result (List Value)
  | [] => .ok []
  | x :: xs =>
    match evaluate req es env x with
    | .error err => .error err
    | .ok v => match evaluateList req es env xs with
      | .error err => .error err
      | .ok vs => .ok (v :: vs)
def evaluateKVs (req : Request) (es : Entities) (env : SlotEnv) : List (String × Expr) → Result (List (String × Value))
  | [] => .ok []
  | (k, x) :: xs =>
    match evaluate req es env x with
    | .error err => .error err
    | .ok v => match evaluateKVs req es env xs with
      | .error err => .error err
      | .ok vs => .ok ((k, v) :: vs)
end

inductive Effect where | permit | forbid
deriving Repr, DecidableEq, Inhabited

structure Policy where
  id : String
  effect : Effect
  condition : Expr
  env : SlotEnv
deriving Repr, Inhabited

inductive Outcome where | sat | unsat | err
deriving Repr, DecidableEq, Inhabited

def Policy.outcome (p : Policy) (req : Request) (es : Entities) : Outcome :=
  match evaluate req es p.env p.condition with
  | .error _ => .err
  | .ok v => match v.asBool with
    | .ok true => .sat
    | .ok false => .unsat
    | .error _ => .err

inductive Decision where | allow | deny
deriving Repr, DecidableEq, Inhabited

/-- mirror of the bucket loop (residual buckets always empty in the concrete case) -/
structure Buckets where
  satPermits : List String := []
  falsePermits : List (String × Bool) := []     -- (id, errored?)
  satForbids : List String := []
  falseForbids : List (String × Bool) := []
  errors : List String := []
deriving Repr, Inhabited

def Buckets.step (req : Request) (es : Entities) (b : Buckets) (p : Policy) : Buckets :=
  match p.outcome req es, p.effect with
  | .sat, .permit => { b with satPermits := b.satPermits ++ [p.id] }
  | .sat, .forbid => { b with satForbids := b.satForbids ++ [p.id] }
  | .unsat, .permit => { b with falsePermits := b.falsePermits ++ [(p.id, false)] }
  | .unsat, .forbid => { b with falseForbids := b.falseForbids ++ [(p.id, false)] }
  | .err, .permit => { b with falsePermits := b.falsePermits ++ [(p.id, true)], errors := b.errors ++ [p.id] }
  | .err, .forbid => { b with falseForbids := b.falseForbids ++ [(p.id, true)], errors := b.errors ++ [p.id] }

structure Response where
  decision : Decision
  reasons : List String
  errors : List String
deriving Repr, Inhabited

def Buckets.concretize (b : Buckets) : Response :=
  { decision := if !b.satPermits.isEmpty && b.satForbids.isEmpty then .allow else .deny,
    reasons := if b.satForbids.isEmpty then b.satPermits else b.satForbids,
    errors := b.errors }

def isAuthorized (req : Request) (es : Entities) (ps : List Policy) : Response :=
  (ps.foldl (Buckets.step req es) {}).concretize

end Cedar
