/- FEASIBILITY SPIKE: index-form mirror (arrays + i/j/star_idx/tmp_idx) of wildcard_match, compared by #eval with the
   recursive matcher on 7623 small cases (a test, not a theorem). -/
inductive PatElem where
  | char (c : Char)
  | star
deriving Repr, DecidableEq, Inhabited

abbrev Pattern := List PatElem

/-- Declarative spec, recursive on lists. -/
def matchesSpec : Pattern → List Char → Bool
  | [], [] => true
  | [], _ :: _ => false
  | .star :: ps, [] => matchesSpec ps []
  | .star :: ps, c :: cs => matchesSpec ps (c :: cs) || matchesSpec (.star :: ps) cs
  | .char _ :: _, [] => false
  | .char p :: ps, c :: cs => p == c && matchesSpec ps cs
termination_by p s => p.length + s.length

/-- Mirror of the Rust loop state. -/
structure St where
  i : Nat
  j : Nat
  starIdx : Nat
  tmpIdx : Nat
  hasStar : Bool
deriving Repr

def isStar : PatElem → Bool
  | .star => true
  | _ => false

def matchChar : PatElem → Char → Bool
  | .char c, t => c == t
  | .star, _ => true

/-- main loop with fuel; returns none = early `return false`, some st = loop exited normally -/
def loop (pat : Array PatElem) (text : Array Char) : Nat → St → Option St
  | 0, st => some st   -- out of fuel (unreachable with enough fuel)
  | fuel+1, st =>
    if st.i < text.size && (!st.hasStar || st.starIdx != pat.size - 1) then
      if h : st.j < pat.size ∧ isStar pat[st.j]! then
        loop pat text fuel { st with hasStar := true, starIdx := st.j, tmpIdx := st.i, j := st.j + 1 }
      else if st.j < pat.size ∧ matchChar pat[st.j]! text[st.i]! then
        loop pat text fuel { st with i := st.i + 1, j := st.j + 1 }
      else if st.hasStar then
        loop pat text fuel { st with j := st.starIdx + 1, i := st.tmpIdx + 1, tmpIdx := st.tmpIdx + 1 }
      else none
    else some st

def skipStars (pat : Array PatElem) : Nat → Nat → Nat
  | 0, j => j
  | fuel+1, j => if j < pat.size && isStar pat[j]! then skipStars pat fuel (j+1) else j

def wildcardMatch (pat : Pattern) (text : List Char) : Bool :=
  if pat.isEmpty then text.isEmpty else
  let p := pat.toArray; let t := text.toArray
  match loop p t ((t.size + 1) * (p.size + 1) + 1) ⟨0,0,0,0,false⟩ with
  | none => false
  | some st => skipStars p p.size st.j == p.size

-- quick sanity tests (tests, not theorems)
def pats : List Pattern := 
  let al := [PatElem.star, .char 'a', .char 'b']
  let l1 := al.map ([·])
  let l2 := (al.flatMap fun x => al.map fun y => [x,y])
  let l3 := (al.flatMap fun x => al.flatMap fun y => al.map fun z => [x,y,z])
  let l4 := (al.flatMap fun x => al.flatMap fun y => al.flatMap fun z => al.map fun w => [x,y,z,w])
  [[]] ++ l1 ++ l2 ++ l3 ++ l4
def texts : List (List Char) :=
  let al := ['a','b']
  let l1 := al.map ([·])
  let l2 := (al.flatMap fun x => al.map fun y => [x,y])
  let l3 := (al.flatMap fun x => al.flatMap fun y => al.map fun z => [x,y,z])
  let l4 := (al.flatMap fun x => al.flatMap fun y => al.flatMap fun z => al.map fun w => [x,y,z,w])
  let l5 := l4.flatMap fun l => al.map fun x => x :: l
  [[]] ++ l1 ++ l2 ++ l3 ++ l4 ++ l5
#eval (pats.flatMap fun p => texts.filterMap fun t => if wildcardMatch p t != matchesSpec p t then some (p,t) else none).length
#eval pats.length * texts.length
