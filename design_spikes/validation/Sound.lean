import Ty
namespace Cedar.Ty

theorem inv_tt {v : Value} (h : instOf v (.bool .tt) = true) : v = .prim (.bool true) := by
  cases v with
  | prim p => cases p with
    | bool b => cases b <;> simp [instOf] at h ⊢
    | int i => simp [instOf] at h
    | string s => simp [instOf] at h
  | record kvs => simp [instOf] at h

theorem inv_ff {v : Value} (h : instOf v (.bool .ff) = true) : v = .prim (.bool false) := by
  cases v with
  | prim p => cases p with
    | bool b => cases b <;> simp [instOf] at h ⊢
    | int i => simp [instOf] at h
    | string s => simp [instOf] at h
  | record kvs => simp [instOf] at h

theorem inv_bool {v : Value} {bt : BoolT} (h : instOf v (.bool bt) = true) : ∃ b, v = .prim (.bool b) := by
  cases v with
  | prim p => cases p with
    | bool b => exact ⟨b, rfl⟩
    | int i => cases bt <;> simp [instOf] at h
    | string s => cases bt <;> simp [instOf] at h
  | record kvs => cases bt <;> simp [instOf] at h

theorem inv_long {v : Value} (h : instOf v .long = true) : ∃ i, v = .prim (.int i) ∧ inI64 i := by
  cases v with
  | prim p => cases p with
    | bool b => simp [instOf] at h
    | int i => exact ⟨i, rfl, by simpa [instOf] using h⟩
    | string s => simp [instOf] at h
  | record kvs => simp [instOf] at h

theorem inv_record {v : Value} {attrs : List (String × Ty × Bool)} (h : instOf v (.record attrs) = true) :
    ∃ kvs, v = .record kvs ∧ instOfKVs kvs attrs = true ∧
      attrs.all (fun (k, _, r) => !r || (lookup kvs k).isSome) = true := by
  cases v with
  | prim p => cases p <;> simp [instOf] at h
  | record kvs =>
    simp only [instOf, Bool.and_eq_true] at h
    exact ⟨kvs, rfl, h.1, h.2⟩

theorem instOf_bool_any (b : Bool) : instOf (.prim (.bool b)) (.bool .any) = true := by
  cases b <;> simp [instOf]

theorem instOfKVs_lookup (kvs : List (String × Value)) (attrs : List (String × Ty × Bool))
    (h : instOfKVs kvs attrs = true) (k : String) (v : Value) (hl : lookup kvs k = some v) :
    ∃ t r, lookupTy attrs k = some (t, r) ∧ instOf v t = true := by
  induction kvs with
  | nil => simp [lookup] at hl
  | cons kv rest ih =>
    obtain ⟨k', v'⟩ := kv
    simp only [instOfKVs, Bool.and_eq_true] at h
    simp only [lookup] at hl
    by_cases hk : k' = k
    · subst hk
      simp only [if_true] at hl; cases hl
      cases hlt : lookupTy attrs k' with
      | none => rw [hlt] at h; simp at h
      | some tr =>
        obtain ⟨t, r⟩ := tr
        rw [hlt] at h
        exact ⟨t, r, rfl, h.1⟩
    · simp only [hk, if_false] at hl
      exact ih h.2 hl

theorem required_present (kvs : List (String × Value)) (attrs : List (String × Ty × Bool))
    (h : attrs.all (fun (k, _, r) => !r || (lookup kvs k).isSome) = true) (k : String) (t : Ty)
    (hl : lookupTy attrs k = some (t, true)) : (lookup kvs k).isSome = true := by
  induction attrs with
  | nil => simp [lookupTy] at hl
  | cons a rest ih =>
    obtain ⟨k', t', r'⟩ := a
    simp only [List.all_cons, Bool.and_eq_true] at h
    simp only [lookupTy] at hl
    by_cases hk : k' = k
    · subst hk
      simp only [if_true] at hl
      cases hl
      simpa using h.1
    · simp only [hk, if_false] at hl
      exact ih h.2 hl

theorem capsHold_append {ctx : List (String × Value)} {a b : Caps} :
    CapsHold ctx (a ++ b) ↔ CapsHold ctx a ∧ CapsHold ctx b := by
  unfold CapsHold
  constructor
  · intro h
    exact ⟨fun e x hx => h e x (List.mem_append_left _ hx), fun e x hx => h e x (List.mem_append_right _ hx)⟩
  · rintro ⟨h1, h2⟩ e x hx
    rcases List.mem_append.mp hx with hx | hx
    · exact h1 e x hx
    · exact h2 e x hx

theorem capsHold_nil (ctx : List (String × Value)) : CapsHold ctx [] := by
  intro e a h; cases h

theorem capsHold_filter {ctx : List (String × Value)} {a : Caps} (p : Expr × String → Bool)
    (h : CapsHold ctx a) : CapsHold ctx (a.filter p) := by
  intro e x hx
  exact h e x (List.mem_filter.mp hx).1

theorem capsHold_filter_right {ctx : List (String × Value)} {a b : Caps}
    (h : CapsHold ctx b) : CapsHold ctx (a.filter (· ∈ b)) := by
  intro e x hx
  have := (List.mem_filter.mp hx).2
  exact h e x (by simpa using this)

/-- the soundness statement for one expression -/
def Sound (ctx : List (String × Value)) (e : Expr) (τ : Ty) (c' : Caps) : Prop :=
  evaluate ctx e = .error .overflow ∨
  ∃ v, evaluate ctx e = .ok v ∧ instOf v τ = true ∧ (v = .prim (.bool true) → CapsHold ctx c')



theorem and_false {ctx : List (String × Value)} {a : Expr} (b : Expr)
    (ha : evaluate ctx a = .ok (.prim (.bool false))) : evaluate ctx (.and a b) = .ok (.prim (.bool false)) := by
  simp [evaluate, ha]
theorem and_err {ctx : List (String × Value)} {a : Expr} (b : Expr) {e : Err}
    (ha : evaluate ctx a = .error e) : evaluate ctx (.and a b) = .error e := by
  simp [evaluate, ha]
theorem and_true_ok {ctx : List (String × Value)} {a b : Expr} {r : Bool}
    (ha : evaluate ctx a = .ok (.prim (.bool true))) (hb : evaluate ctx b = .ok (.prim (.bool r))) :
    evaluate ctx (.and a b) = .ok (.prim (.bool r)) := by
  simp [evaluate, ha, hb]
theorem and_true_err {ctx : List (String × Value)} {a b : Expr} {e : Err}
    (ha : evaluate ctx a = .ok (.prim (.bool true))) (hb : evaluate ctx b = .error e) :
    evaluate ctx (.and a b) = .error e := by
  simp [evaluate, ha, hb]
theorem or_true {ctx : List (String × Value)} {a : Expr} (b : Expr)
    (ha : evaluate ctx a = .ok (.prim (.bool true))) : evaluate ctx (.or a b) = .ok (.prim (.bool true)) := by
  simp [evaluate, ha]
theorem or_err {ctx : List (String × Value)} {a : Expr} (b : Expr) {e : Err}
    (ha : evaluate ctx a = .error e) : evaluate ctx (.or a b) = .error e := by
  simp [evaluate, ha]
theorem or_false_ok {ctx : List (String × Value)} {a b : Expr} {r : Bool}
    (ha : evaluate ctx a = .ok (.prim (.bool false))) (hb : evaluate ctx b = .ok (.prim (.bool r))) :
    evaluate ctx (.or a b) = .ok (.prim (.bool r)) := by
  simp [evaluate, ha, hb]
theorem or_false_err {ctx : List (String × Value)} {a b : Expr} {e : Err}
    (ha : evaluate ctx a = .ok (.prim (.bool false))) (hb : evaluate ctx b = .error e) :
    evaluate ctx (.or a b) = .error e := by
  simp [evaluate, ha, hb]

/-- generic combination step for `&&`: given what the IHs say about `a` and (when `a` is true) about `b`. -/
theorem and_sound {ctx : List (String × Value)} {a b : Expr} {ta tb τ : BoolT} {ca cb c' : Caps}
    (ha : Sound ctx a (.bool ta) ca)
    (hb : CapsHold ctx ca → Sound ctx b (.bool tb) cb)
    (hτ : ∀ x y : Bool, instOf (.prim (.bool x)) (.bool ta) = true →
        (x = true → instOf (.prim (.bool y)) (.bool tb) = true) →
        instOf (.prim (.bool (x && y))) (.bool τ) = true)
    (hcaps : CapsHold ctx ca → CapsHold ctx cb → CapsHold ctx c') :
    Sound ctx (.and a b) (.bool τ) c' := by
  rcases ha with ho | ⟨va, hva, hia, hca⟩
  · exact Or.inl (and_err b ho)
  · obtain ⟨x, rfl⟩ := inv_bool hia
    cases x with
    | false =>
      refine Or.inr ⟨_, and_false b hva, ?_, fun h => by cases h⟩
      have := hτ false false hia (fun h => by cases h)
      simpa using this
    | true =>
      have hca' := hca rfl
      rcases hb hca' with ho | ⟨vb, hvb, hib, hcb⟩
      · exact Or.inl (and_true_err hva ho)
      · obtain ⟨y, rfl⟩ := inv_bool hib
        refine Or.inr ⟨_, and_true_ok hva hvb, ?_, fun h => ?_⟩
        · have := hτ true y hia (fun _ => hib)
          simpa using this
        · simp only [Value.prim.injEq, Prim.bool.injEq] at h
          subst h
          exact hcaps hca' (hcb rfl)


/-- generic combination step for `||` -/
theorem or_sound {ctx : List (String × Value)} {a b : Expr} {ta tb τ : BoolT} {ca cb c' : Caps}
    (ha : Sound ctx a (.bool ta) ca)
    (hb : Sound ctx b (.bool tb) cb)
    (hτ : ∀ x y : Bool, instOf (.prim (.bool x)) (.bool ta) = true →
        (x = false → instOf (.prim (.bool y)) (.bool tb) = true) →
        instOf (.prim (.bool (x || y))) (.bool τ) = true)
    (hcL : instOf (.prim (.bool true)) (.bool ta) = true → CapsHold ctx ca → CapsHold ctx c')
    (hcR : instOf (.prim (.bool true)) (.bool tb) = true → CapsHold ctx cb → CapsHold ctx c') :
    Sound ctx (.or a b) (.bool τ) c' := by
  rcases ha with ho | ⟨va, hva, hia, hca⟩
  · exact Or.inl (or_err b ho)
  · obtain ⟨x, rfl⟩ := inv_bool hia
    cases x with
    | true =>
      refine Or.inr ⟨_, or_true b hva, ?_, fun _ => hcL hia (hca rfl)⟩
      have := hτ true false hia (fun h => by cases h)
      simpa using this
    | false =>
      rcases hb with ho | ⟨vb, hvb, hib, hcb⟩
      · exact Or.inl (or_false_err hva ho)
      · obtain ⟨y, rfl⟩ := inv_bool hib
        refine Or.inr ⟨_, or_false_ok hva hvb, ?_, fun h => ?_⟩
        · have := hτ false y hia (fun _ => hib)
          simpa using this
        · simp only [Value.prim.injEq, Prim.bool.injEq] at h
          subst h
          exact hcR hib (hcb rfl)

theorem instOf_lub_left {t1 t2 t3 : Ty} {v : Value} (hl : lub t1 t2 = some t3) (h : instOf v t1 = true) :
    instOf v t3 = true := by
  cases t1 <;> cases t2 <;> simp [lub] at hl <;> subst hl <;> try exact h
  rename_i a b
  obtain ⟨x, rfl⟩ := inv_bool h
  cases a <;> cases b <;> cases x <;> simp_all [lubBool, instOf]

theorem instOf_lub_right {t1 t2 t3 : Ty} {v : Value} (hl : lub t1 t2 = some t3) (h : instOf v t2 = true) :
    instOf v t3 = true := by
  cases t1 <;> cases t2 <;> simp [lub] at hl <;> subst hl <;> try exact h
  rename_i a b
  obtain ⟨x, rfl⟩ := inv_bool h
  cases a <;> cases b <;> cases x <;> simp_all [lubBool, instOf]

theorem lub_tt {t1 t2 : Ty} (hl : lub t1 t2 = some (.bool .tt)) : t1 = .bool .tt ∧ t2 = .bool .tt := by
  cases t1 <;> cases t2 <;> simp [lub] at hl
  rename_i a b
  cases a <;> cases b <;> simp_all [lubBool]

theorem ite_err {ctx : List (String × Value)} {c : Expr} (t e : Expr) {er : Err}
    (hc : evaluate ctx c = .error er) : evaluate ctx (.ite c t e) = .error er := by
  simp [evaluate, hc]
theorem ite_true {ctx : List (String × Value)} {c : Expr} (t e : Expr)
    (hc : evaluate ctx c = .ok (.prim (.bool true))) : evaluate ctx (.ite c t e) = evaluate ctx t := by
  simp [evaluate, hc]
theorem ite_false {ctx : List (String × Value)} {c : Expr} (t e : Expr)
    (hc : evaluate ctx c = .ok (.prim (.bool false))) : evaluate ctx (.ite c t e) = evaluate ctx e := by
  simp [evaluate, hc]

theorem Sound.transfer {ctx : List (String × Value)} {e e' : Expr} {τ τ' : Ty} {c c' : Caps}
    (heq : evaluate ctx e' = evaluate ctx e) (h : Sound ctx e τ c)
    (hτ : ∀ v, instOf v τ = true → instOf v τ' = true)
    (hcaps : CapsHold ctx c → CapsHold ctx c') : Sound ctx e' τ' c' := by
  rcases h with ho | ⟨v, hv, hi, hcv⟩
  · exact Or.inl (by rw [heq, ho])
  · exact Or.inr ⟨v, by rw [heq, hv], hτ v hi, fun h => hcaps (hcv h)⟩

/-- Soundness of the capability-based typing of the fragment (both components are needed simultaneously:
    the `||` rule keeps the capabilities of a right operand typed `True` even when it is not evaluated). -/
theorem typeOf_sound (Γ : Ty) (ctx : List (String × Value)) (hΓ : instOf (.record ctx) Γ = true) :
    ∀ (e : Expr) (caps : Caps) (τ : Ty) (c' : Caps),
      typeOf Γ e caps = some (τ, c') → CapsHold ctx caps →
      Sound ctx e τ c' ∧ (τ = .bool .tt → CapsHold ctx c') := by
  intro e
  induction e with
  | lit p =>
    intro caps τ c' h _
    cases p with
    | bool b =>
      cases b <;> simp only [typeOf, Option.some.injEq, Prod.mk.injEq] at h <;> obtain ⟨rfl, rfl⟩ := h <;>
        exact ⟨Or.inr ⟨_, rfl, by simp [instOf], fun _ => capsHold_nil _⟩, fun _ => capsHold_nil _⟩
    | int i =>
      simp only [typeOf] at h
      split at h
      · rename_i hi
        simp only [Option.some.injEq, Prod.mk.injEq] at h; obtain ⟨rfl, rfl⟩ := h
        exact ⟨Or.inr ⟨_, rfl, by simp [instOf, hi], fun _ => capsHold_nil _⟩, fun _ => capsHold_nil _⟩
      · cases h
    | string s =>
      simp only [typeOf, Option.some.injEq, Prod.mk.injEq] at h; obtain ⟨rfl, rfl⟩ := h
      exact ⟨Or.inr ⟨_, rfl, by simp [instOf], fun _ => capsHold_nil _⟩, fun _ => capsHold_nil _⟩
  | ctx =>
    intro caps τ c' h _
    simp only [typeOf, Option.some.injEq, Prod.mk.injEq] at h; obtain ⟨rfl, rfl⟩ := h
    exact ⟨Or.inr ⟨_, rfl, hΓ, fun _ => capsHold_nil _⟩, fun _ => capsHold_nil _⟩
  | not a iha =>
    intro caps τ c' h hc
    simp only [typeOf] at h
    split at h <;> (try cases h)
    all_goals
      rename_i ca heq
      refine ⟨?_, fun _ => capsHold_nil _⟩
      rcases (iha caps _ _ heq hc).1 with ho | ⟨v, hv, hi, _⟩
      · exact Or.inl (by simp [evaluate, ho])
      · obtain ⟨b, rfl⟩ := inv_bool hi
        refine Or.inr ⟨.prim (.bool (!b)), by simp [evaluate, hv], ?_, fun _ => capsHold_nil _⟩
        first
          | (have := inv_tt hi; cases this; simp [instOf])
          | (have := inv_ff hi; cases this; simp [instOf])
          | exact instOf_bool_any _
  | add a b iha ihb =>
    intro caps τ c' h hc
    simp only [typeOf] at h
    split at h <;> (try cases h)
    rename_i ca cb heqa heqb
    refine ⟨?_, fun h => by cases h⟩
    rcases (iha caps _ _ heqa hc).1 with ho | ⟨va, hva, hia, _⟩
    · exact Or.inl (by simp [evaluate, ho])
    · rcases (ihb caps _ _ heqb hc).1 with ho | ⟨vb, hvb, hib, _⟩
      · exact Or.inl (by simp [evaluate, hva, ho])
      · obtain ⟨x, rfl, hx⟩ := inv_long hia
        obtain ⟨y, rfl, hy⟩ := inv_long hib
        by_cases hxy : inI64 (x + y)
        · exact Or.inr ⟨.prim (.int (x + y)), by simp [evaluate, hva, hvb, hxy], by simp [instOf, hxy], fun _ => capsHold_nil _⟩
        · exact Or.inl (by simp [evaluate, hva, hvb, hxy])
  | less a b iha ihb =>
    intro caps τ c' h hc
    simp only [typeOf] at h
    split at h <;> (try cases h)
    rename_i ca cb heqa heqb
    refine ⟨?_, fun h => by cases h⟩
    rcases (iha caps _ _ heqa hc).1 with ho | ⟨va, hva, hia, _⟩
    · exact Or.inl (by simp [evaluate, ho])
    · rcases (ihb caps _ _ heqb hc).1 with ho | ⟨vb, hvb, hib, _⟩
      · exact Or.inl (by simp [evaluate, hva, ho])
      · obtain ⟨x, rfl, hx⟩ := inv_long hia
        obtain ⟨y, rfl, hy⟩ := inv_long hib
        exact Or.inr ⟨.prim (.bool (decide (x < y))), by simp [evaluate, hva, hvb], instOf_bool_any _, fun _ => capsHold_nil _⟩
  | hasAttr e attr ihe =>
    intro caps τ c' h hc
    simp only [typeOf] at h
    split at h <;> (try cases h)
    rename_i attrs ce heq
    rcases (ihe caps _ _ heq hc).1 with ho | ⟨v, hv, hi, _⟩
    · -- `e` overflows: so does `e has attr`, and every capability on `e` holds by the second disjunct
      have hcap : CapsHold ctx [(e, attr)] := by
        intro e' a' hm
        simp only [List.mem_singleton, Prod.mk.injEq] at hm
        obtain ⟨rfl, rfl⟩ := hm
        exact Or.inr ho
      have hov : Sound ctx (.hasAttr e attr) τ c' := Or.inl (by simp [evaluate, ho])
      refine ⟨hov, fun _ => ?_⟩
      split at h <;> simp only [Option.some.injEq, Prod.mk.injEq] at h <;> obtain ⟨_, rfl⟩ := h
      · exact hcap
      · exact hcap
      · exact capsHold_nil _
    · obtain ⟨kvs, rfl, hk1, hk2⟩ := inv_record hi
      have hev : evaluate ctx (.hasAttr e attr) = .ok (.prim (.bool (lookup kvs attr).isSome)) := by
        simp [evaluate, hv]
      have hcap : (lookup kvs attr).isSome = true → CapsHold ctx [(e, attr)] := by
        intro hs e' a' hm
        simp only [List.mem_singleton, Prod.mk.injEq] at hm
        obtain ⟨rfl, rfl⟩ := hm
        left; rw [hev, hs]
      split at h
      · -- required
        rename_i t hl
        simp only [Option.some.injEq, Prod.mk.injEq] at h; obtain ⟨rfl, rfl⟩ := h
        have hp := required_present kvs attrs hk2 attr t hl
        exact ⟨Or.inr ⟨_, hev, by rw [hp]; simp [instOf], fun _ => hcap hp⟩, fun _ => hcap hp⟩
      · -- optional
        rename_i t hl
        simp only [Option.some.injEq, Prod.mk.injEq] at h; obtain ⟨rfl, rfl⟩ := h
        by_cases hin : (e, attr) ∈ caps
        · have hp : (lookup kvs attr).isSome = true := by
            rcases hc e attr hin with h1 | h1
            · rw [hev] at h1
              simpa using h1
            · rw [hv] at h1; cases h1
          simp only [hin, if_true]
          exact ⟨Or.inr ⟨_, hev, by rw [hp]; simp [instOf], fun _ => hcap hp⟩, fun _ => hcap hp⟩
        · simp only [hin, if_false]
          exact ⟨Or.inr ⟨_, hev, instOf_bool_any _, fun hv' => hcap (by simpa using hv')⟩, fun h => by cases h⟩
      · -- undeclared: closed record, attribute absent
        rename_i hl
        simp only [Option.some.injEq, Prod.mk.injEq] at h; obtain ⟨rfl, rfl⟩ := h
        have : lookup kvs attr = none := by
          cases hlk : lookup kvs attr with
          | none => rfl
          | some w =>
            obtain ⟨t, r, ht, _⟩ := instOfKVs_lookup kvs attrs hk1 attr w hlk
            rw [hl] at ht; cases ht
        refine ⟨Or.inr ⟨_, hev, by rw [this]; simp [instOf], fun hv' => ?_⟩, fun h => by cases h⟩
        rw [this] at hv'; simp at hv'
  | getAttr e attr ihe =>
    intro caps τ c' h hc
    simp only [typeOf] at h
    split at h <;> (try cases h)
    rename_i attrs ce heq
    split at h <;> (try cases h)
    rename_i t req hl
    split at h <;> (try cases h)
    rename_i hreq
    refine ⟨?_, fun _ => capsHold_nil _⟩
    rcases (ihe caps _ _ heq hc).1 with ho | ⟨v, hv, hi, _⟩
    · exact Or.inl (by simp [evaluate, ho])
    · obtain ⟨kvs, rfl, hk1, hk2⟩ := inv_record hi
      have hpres : (lookup kvs attr).isSome = true := by
        simp only [Bool.or_eq_true, decide_eq_true_eq] at hreq
        rcases hreq with hr | hin
        · subst hr; exact required_present kvs attrs hk2 attr _ hl
        · rcases hc e attr hin with h1 | h1
          · simp only [evaluate, hv, Except.ok.injEq, Value.prim.injEq, Prim.bool.injEq] at h1
            exact h1
          · rw [hv] at h1; cases h1
      cases hlk : lookup kvs attr with
      | none => rw [hlk] at hpres; simp at hpres
      | some w =>
        obtain ⟨t', r', ht', hw⟩ := instOfKVs_lookup kvs attrs hk1 attr w hlk
        rw [hl] at ht'; cases ht'
        exact Or.inr ⟨w, by simp [evaluate, hv, hlk], hw, fun _ => capsHold_nil _⟩
  | and a b iha ihb =>
    intro caps τ c' h hc
    simp only [typeOf] at h
    cases hta : typeOf Γ a caps with
    | none => rw [hta] at h; cases h
    | some pa =>
      obtain ⟨τa, ca⟩ := pa
      rw [hta] at h
      have ha := (iha caps τa ca hta hc).1
      have ha2 := (iha caps τa ca hta hc).2
      cases τa with
      | long => cases h
      | string => cases h
      | record _ => cases h
      | bool ta =>
        have hbgen : ∀ τb cb, typeOf Γ b (caps ++ ca) = some (τb, cb) → CapsHold ctx ca → Sound ctx b τb cb :=
          fun τb cb hb hca => (ihb (caps ++ ca) τb cb hb (capsHold_append.mpr ⟨hc, hca⟩)).1
        cases ta with
        | ff =>
          simp only [Option.some.injEq, Prod.mk.injEq] at h; obtain ⟨rfl, rfl⟩ := h
          refine ⟨?_, fun h => by cases h⟩
          rcases ha with ho | ⟨va, hva, hia, _⟩
          · exact Or.inl (and_err b ho)
          · have := inv_ff hia; subst this
            exact Or.inr ⟨_, and_false b hva, by simp [instOf], fun h => by cases h⟩
        | tt =>
          simp only at h
          cases htb : typeOf Γ b (caps ++ ca) with
          | none => rw [htb] at h; cases h
          | some pb =>
            obtain ⟨τb, cb⟩ := pb
            rw [htb] at h
            cases τb with
            | long => cases h
            | string => cases h
            | record _ => cases h
            | bool tb =>
              cases tb with
              | ff =>
                simp only [Option.some.injEq, Prod.mk.injEq] at h; obtain ⟨rfl, rfl⟩ := h
                exact ⟨and_sound ha (hbgen _ _ htb)
                  (by intro x y hx hy; cases x <;> cases y <;> simp_all [instOf]) (fun _ _ => capsHold_nil _),
                  fun h => by cases h⟩
              | tt =>
                simp only [Option.some.injEq, Prod.mk.injEq] at h; obtain ⟨rfl, rfl⟩ := h
                refine ⟨and_sound ha (hbgen _ _ htb)
                  (by intro x y hx hy; cases x <;> cases y <;> simp_all [instOf])
                  (fun h1 h2 => capsHold_append.mpr ⟨h1, h2⟩), fun _ => ?_⟩
                have hca := ha2 rfl
                have hcb := (ihb (caps ++ ca) _ cb htb (capsHold_append.mpr ⟨hc, hca⟩)).2 rfl
                exact capsHold_append.mpr ⟨hca, hcb⟩
              | any =>
                simp only [if_true, Option.some.injEq, Prod.mk.injEq] at h; obtain ⟨rfl, rfl⟩ := h
                exact ⟨and_sound ha (hbgen _ _ htb)
                  (by intro x y hx hy; cases x <;> cases y <;> simp_all [instOf]) (fun _ h2 => h2),
                  fun h => by cases h⟩
        | any =>
          simp only at h
          cases htb : typeOf Γ b (caps ++ ca) with
          | none => rw [htb] at h; cases h
          | some pb =>
            obtain ⟨τb, cb⟩ := pb
            rw [htb] at h
            cases τb with
            | long => cases h
            | string => cases h
            | record _ => cases h
            | bool tb =>
              cases tb with
              | ff =>
                simp only [Option.some.injEq, Prod.mk.injEq] at h; obtain ⟨rfl, rfl⟩ := h
                exact ⟨and_sound ha (hbgen _ _ htb)
                  (by intro x y hx hy; cases x <;> cases y <;> simp_all [instOf]) (fun _ _ => capsHold_nil _),
                  fun h => by cases h⟩
              | tt =>
                simp only [Option.some.injEq, Prod.mk.injEq] at h; obtain ⟨rfl, rfl⟩ := h
                exact ⟨and_sound ha (hbgen _ _ htb)
                  (by intro x y hx hy; cases x <;> cases y <;> simp_all [instOf])
                  (fun h1 h2 => capsHold_append.mpr ⟨h1, h2⟩), fun h => by cases h⟩
              | any =>
                simp only [reduceCtorEq, if_false, Option.some.injEq, Prod.mk.injEq] at h; obtain ⟨rfl, rfl⟩ := h
                exact ⟨and_sound ha (hbgen _ _ htb)
                  (by intro x y hx hy; cases x <;> cases y <;> simp_all [instOf])
                  (fun h1 h2 => capsHold_append.mpr ⟨h1, h2⟩), fun h => by cases h⟩
  | or a b iha ihb =>
    intro caps τ c' h hc
    simp only [typeOf] at h
    cases hta : typeOf Γ a caps with
    | none => rw [hta] at h; cases h
    | some pa =>
      obtain ⟨τa, ca⟩ := pa
      rw [hta] at h
      have ha := (iha caps τa ca hta hc).1
      have ha2 := (iha caps τa ca hta hc).2
      cases τa with
      | long => cases h
      | string => cases h
      | record _ => cases h
      | bool ta =>
        cases ta with
        | tt =>
          simp only [Option.some.injEq, Prod.mk.injEq] at h; obtain ⟨rfl, rfl⟩ := h
          refine ⟨?_, fun _ => ha2 rfl⟩
          rcases ha with ho | ⟨va, hva, hia, hca⟩
          · exact Or.inl (or_err b ho)
          · have := inv_tt hia; subst this
            exact Or.inr ⟨_, or_true b hva, by simp [instOf], fun _ => hca rfl⟩
        | ff =>
          simp only at h
          cases htb : typeOf Γ b caps with
          | none => rw [htb] at h; cases h
          | some pb =>
            obtain ⟨τb, cb⟩ := pb
            rw [htb] at h
            have hb := (ihb caps τb cb htb hc).1
            have hb2 := (ihb caps τb cb htb hc).2
            cases τb with
            | long => cases h
            | string => cases h
            | record _ => cases h
            | bool tb =>
              cases tb with
              | tt =>
                simp only [Option.some.injEq, Prod.mk.injEq] at h; obtain ⟨rfl, rfl⟩ := h
                exact ⟨or_sound ha hb (by intro x y hx hy; cases x <;> cases y <;> simp_all [instOf])
                  (fun _ _ => hb2 rfl) (fun _ h => h), fun _ => hb2 rfl⟩
              | ff =>
                simp only [Option.some.injEq, Prod.mk.injEq] at h; obtain ⟨rfl, rfl⟩ := h
                exact ⟨or_sound ha hb (by intro x y hx hy; cases x <;> cases y <;> simp_all [instOf])
                  (fun _ h => h) (fun hi _ => by simp [instOf] at hi), fun h => by cases h⟩
              | any =>
                simp only [if_true, Option.some.injEq, Prod.mk.injEq] at h; obtain ⟨rfl, rfl⟩ := h
                exact ⟨or_sound ha hb (by intro x y hx hy; cases x <;> cases y <;> simp_all [instOf])
                  (fun hi _ => by simp [instOf] at hi) (fun _ h => h), fun h => by cases h⟩
        | any =>
          simp only at h
          cases htb : typeOf Γ b caps with
          | none => rw [htb] at h; cases h
          | some pb =>
            obtain ⟨τb, cb⟩ := pb
            rw [htb] at h
            have hb := (ihb caps τb cb htb hc).1
            have hb2 := (ihb caps τb cb htb hc).2
            cases τb with
            | long => cases h
            | string => cases h
            | record _ => cases h
            | bool tb =>
              cases tb with
              | tt =>
                simp only [Option.some.injEq, Prod.mk.injEq] at h; obtain ⟨rfl, rfl⟩ := h
                exact ⟨or_sound ha hb (by intro x y hx hy; cases x <;> cases y <;> simp_all [instOf])
                  (fun _ _ => hb2 rfl) (fun _ h => h), fun _ => hb2 rfl⟩
              | ff =>
                simp only [Option.some.injEq, Prod.mk.injEq] at h; obtain ⟨rfl, rfl⟩ := h
                exact ⟨or_sound ha hb (by intro x y hx hy; cases x <;> cases y <;> simp_all [instOf])
                  (fun _ h => h) (fun hi _ => by simp [instOf] at hi), fun h => by cases h⟩
              | any =>
                simp only [reduceCtorEq, if_false, Option.some.injEq, Prod.mk.injEq] at h; obtain ⟨rfl, rfl⟩ := h
                exact ⟨or_sound ha hb (by intro x y hx hy; cases x <;> cases y <;> simp_all [instOf])
                  (fun _ h => capsHold_filter _ h) (fun _ h => capsHold_filter_right h), fun h => by cases h⟩
  | ite c t e ihc iht ihe =>
    intro caps τ c' h hc
    simp only [typeOf] at h
    cases htc : typeOf Γ c caps with
    | none => rw [htc] at h; cases h
    | some pc =>
      obtain ⟨τc, cc⟩ := pc
      rw [htc] at h
      have hcs := (ihc caps τc cc htc hc).1
      have hcs2 := (ihc caps τc cc htc hc).2
      cases τc with
      | long => cases h
      | string => cases h
      | record _ => cases h
      | bool tc =>
        cases tc with
        | tt =>
          simp only at h
          cases htt : typeOf Γ t (caps ++ cc) with
          | none => rw [htt] at h; cases h
          | some pt =>
            obtain ⟨τt, ct⟩ := pt
            rw [htt] at h
            simp only [Option.some.injEq, Prod.mk.injEq] at h; obtain ⟨rfl, rfl⟩ := h
            have hcc : CapsHold ctx cc := hcs2 rfl
            have iht' := iht (caps ++ cc) τt ct htt (capsHold_append.mpr ⟨hc, hcc⟩)
            refine ⟨?_, fun hτ => capsHold_append.mpr ⟨iht'.2 hτ, hcc⟩⟩
            rcases hcs with ho | ⟨vc, hvc, hic, _⟩
            · exact Or.inl (ite_err t e ho)
            · have := inv_tt hic; subst this
              exact Sound.transfer (ite_true t e hvc) iht'.1 (fun _ h => h)
                (fun h => capsHold_append.mpr ⟨h, hcc⟩)
        | ff =>
          simp only at h
          have ihe' := ihe caps τ c' h hc
          refine ⟨?_, ihe'.2⟩
          rcases hcs with ho | ⟨vc, hvc, hic, _⟩
          · exact Or.inl (ite_err t e ho)
          · have := inv_ff hic; subst this
            exact Sound.transfer (ite_false t e hvc) ihe'.1 (fun _ h => h) (fun h => h)
        | any =>
          simp only at h
          cases htt : typeOf Γ t (caps ++ cc) with
          | none => rw [htt] at h; simp at h
          | some pt =>
            obtain ⟨τt, ct⟩ := pt
            cases hte : typeOf Γ e caps with
            | none => rw [htt, hte] at h; simp at h
            | some pe =>
              obtain ⟨τe, ce⟩ := pe
              rw [htt, hte] at h
              simp only at h
              cases hl : lub τt τe with
              | none => rw [hl] at h; cases h
              | some τl =>
                rw [hl] at h
                simp only [Option.some.injEq, Prod.mk.injEq] at h; obtain ⟨rfl, rfl⟩ := h
                have ihe' := ihe caps τe ce hte hc
                refine ⟨?_, fun hτ => ?_⟩
                · rcases hcs with ho | ⟨vc, hvc, hic, hcv⟩
                  · exact Or.inl (ite_err t e ho)
                  · obtain ⟨x, rfl⟩ := inv_bool hic
                    cases x with
                    | true =>
                      have hcc : CapsHold ctx cc := hcv rfl
                      have iht' := iht (caps ++ cc) τt ct htt (capsHold_append.mpr ⟨hc, hcc⟩)
                      exact Sound.transfer (ite_true t e hvc) iht'.1 (fun _ h => instOf_lub_left hl h)
                        (fun h => capsHold_filter _ (capsHold_append.mpr ⟨h, hcc⟩))
                    | false =>
                      exact Sound.transfer (ite_false t e hvc) ihe'.1 (fun _ h => instOf_lub_right hl h)
                        (fun h => capsHold_filter_right h)
                · subst hτ
                  obtain ⟨_, h2⟩ := lub_tt hl
                  exact capsHold_filter_right (ihe'.2 h2)

#print axioms typeOf_sound
end Cedar.Ty
