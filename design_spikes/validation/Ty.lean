/- FEASIBILITY SPIKE (C03): capability-based typing of a core fragment and its soundness. -/
namespace Cedar.Ty

inductive Prim where
  | bool (b : Bool) | int (i : Int) | string (s : String)
deriving DecidableEq, Repr, Inhabited

inductive Value where
  | prim (p : Prim)
  | record (kvs : List (String × Value))
deriving Repr, Inhabited

inductive Expr where
  | lit (p : Prim)
  | ctx                                   -- `context`
  | and (a b : Expr)
  | or (a b : Expr)
  | ite (c t e : Expr)
  | not (a : Expr)
  | add (a b : Expr)
  | less (a b : Expr)
  | hasAttr (e : Expr) (attr : String)
  | getAttr (e : Expr) (attr : String)
deriving Repr, Inhabited, DecidableEq

inductive Err where | type | attr | overflow
deriving DecidableEq, Repr

def lookup (kvs : List (String × Value)) (k : String) : Option Value :=
  match kvs with
  | [] => none
  | (k', v) :: rest => if k' = k then some v else lookup rest k

def inI64 (i : Int) : Prop := -9223372036854775808 ≤ i ∧ i ≤ 9223372036854775807
instance (i : Int) : Decidable (inI64 i) := by unfold inI64; infer_instance

def evaluate (ctx : List (String × Value)) : Expr → Except Err Value
  | .lit p => .ok (.prim p)
  | .ctx => .ok (.record ctx)
  | .and a b =>
    match evaluate ctx a with
    | .ok (.prim (.bool false)) => .ok (.prim (.bool false))
    | .ok (.prim (.bool true)) =>
      match evaluate ctx b with
      | .ok (.prim (.bool r)) => .ok (.prim (.bool r))
      | .ok _ => .error .type
      | .error e => .error e
    | .ok _ => .error .type
    | .error e => .error e
  | .or a b =>
    match evaluate ctx a with
    | .ok (.prim (.bool true)) => .ok (.prim (.bool true))
    | .ok (.prim (.bool false)) =>
      match evaluate ctx b with
      | .ok (.prim (.bool r)) => .ok (.prim (.bool r))
      | .ok _ => .error .type
      | .error e => .error e
    | .ok _ => .error .type
    | .error e => .error e
  | .ite c t e =>
    match evaluate ctx c with
    | .ok (.prim (.bool true)) => evaluate ctx t
    | .ok (.prim (.bool false)) => evaluate ctx e
    | .ok _ => .error .type
    | .error err => .error err
  | .not a =>
    match evaluate ctx a with
    | .ok (.prim (.bool b)) => .ok (.prim (.bool (!b)))
    | .ok _ => .error .type
    | .error e => .error e
  | .add a b =>
    match evaluate ctx a, evaluate ctx b with
    | .error e, _ => .error e
    | .ok _, .error e => .error e
    | .ok (.prim (.int x)), .ok (.prim (.int y)) => if inI64 (x + y) then .ok (.prim (.int (x + y))) else .error .overflow
    | .ok _, .ok _ => .error .type
  | .less a b =>
    match evaluate ctx a, evaluate ctx b with
    | .error e, _ => .error e
    | .ok _, .error e => .error e
    | .ok (.prim (.int x)), .ok (.prim (.int y)) => .ok (.prim (.bool (decide (x < y))))
    | .ok _, .ok _ => .error .type
  | .hasAttr e attr =>
    match evaluate ctx e with
    | .ok (.record kvs) => .ok (.prim (.bool (lookup kvs attr).isSome))
    | .ok _ => .error .type
    | .error err => .error err
  | .getAttr e attr =>
    match evaluate ctx e with
    | .ok (.record kvs) => match lookup kvs attr with
      | some v => .ok v
      | none => .error .attr
    | .ok _ => .error .type
    | .error err => .error err

/-- types: `bool tt|ff|any`, long, string, closed records with required/optional attributes -/
inductive BoolT where | tt | ff | any
deriving DecidableEq, Repr

inductive Ty where
  | bool (b : BoolT)
  | long
  | string
  | record (attrs : List (String × Ty × Bool))   -- (name, type, required)
deriving Repr, Inhabited

def lookupTy (attrs : List (String × Ty × Bool)) (k : String) : Option (Ty × Bool) :=
  match attrs with
  | [] => none
  | (k', t, r) :: rest => if k' = k then some (t, r) else lookupTy rest k

mutual
def instOf : Value → Ty → Bool
  | .prim (.bool _), .bool .any => true
  | .prim (.bool true), .bool .tt => true
  | .prim (.bool false), .bool .ff => true
  | .prim (.int i), .long => decide (inI64 i)
  | .prim (.string _), .string => true
  | .record kvs, .record attrs =>
      instOfKVs kvs attrs && attrs.all (fun (k, _, r) => !r || (lookup kvs k).isSome)
  | _, _ => false
def instOfKVs : List (String × Value) → List (String × Ty × Bool) → Bool
  | [], _ => true
  | (k, v) :: rest, attrs =>
      (match lookupTy attrs k with
        | some (t, _) => instOf v t
        | none => false) && instOfKVs rest attrs
end

abbrev Caps := List (Expr × String)

/-- A capability `(e, a)` holds when `e has a` is true — or `e` itself fails with the one error class that a
    well-typed expression may still raise. (The weaker second disjunct is forced by the Rust rule for `||`,
    which keeps the right operand's capabilities even when that operand is never evaluated.) -/
def CapsHold (ctx : List (String × Value)) (caps : Caps) : Prop :=
  ∀ e a, (e, a) ∈ caps → evaluate ctx (.hasAttr e a) = .ok (.prim (.bool true)) ∨ evaluate ctx e = .error .overflow

def lubBool : BoolT → BoolT → BoolT
  | .tt, .tt => .tt
  | .ff, .ff => .ff
  | _, _ => .any

def lub : Ty → Ty → Option Ty
  | .bool a, .bool b => some (.bool (lubBool a b))
  | .long, .long => some .long
  | .string, .string => some .string
  | _, _ => none

def typeOf (Γ : Ty) : Expr → Caps → Option (Ty × Caps)
  | .lit (.bool true), _ => some (.bool .tt, [])
  | .lit (.bool false), _ => some (.bool .ff, [])
  | .lit (.int i), _ => if inI64 i then some (.long, []) else none
  | .lit (.string _), _ => some (.string, [])
  | .ctx, _ => some (Γ, [])
  | .and a b, caps =>
    match typeOf Γ a caps with
    | some (.bool .ff, _) => some (.bool .ff, [])
    | some (.bool ta, ca) =>
      match typeOf Γ b (caps ++ ca) with
      | some (.bool .ff, _) => some (.bool .ff, [])
      | some (.bool .tt, cb) => some (.bool ta, ca ++ cb)
      | some (.bool .any, cb) => if ta = .tt then some (.bool .any, cb) else some (.bool .any, ca ++ cb)
      | _ => none
    | _ => none
  | .or a b, caps =>
    match typeOf Γ a caps with
    | some (.bool .tt, ca) => some (.bool .tt, ca)
    | some (.bool ta, ca) =>
      match typeOf Γ b caps with
      | some (.bool .tt, cb) => some (.bool .tt, cb)
      | some (.bool .ff, _) => some (.bool ta, ca)
      | some (.bool .any, cb) => if ta = .ff then some (.bool .any, cb) else some (.bool .any, ca.filter (· ∈ cb))
      | _ => none
    | _ => none
  | .ite c t e, caps =>
    match typeOf Γ c caps with
    | some (.bool .tt, cc) =>
      (match typeOf Γ t (caps ++ cc) with
       | some (tt', ct) => some (tt', ct ++ cc)
       | none => none)
    | some (.bool .ff, _) => typeOf Γ e caps
    | some (.bool .any, cc) =>
      (match typeOf Γ t (caps ++ cc), typeOf Γ e caps with
       | some (t1, ct), some (t2, ce) =>
         (match lub t1 t2 with
          | some t3 => some (t3, (ct ++ cc).filter (· ∈ ce))
          | none => none)
       | _, _ => none)
    | _ => none
  | .not a, caps =>
    match typeOf Γ a caps with
    | some (.bool .tt, _) => some (.bool .ff, [])
    | some (.bool .ff, _) => some (.bool .tt, [])
    | some (.bool .any, _) => some (.bool .any, [])
    | _ => none
  | .add a b, caps =>
    match typeOf Γ a caps, typeOf Γ b caps with
    | some (.long, _), some (.long, _) => some (.long, [])
    | _, _ => none
  | .less a b, caps =>
    match typeOf Γ a caps, typeOf Γ b caps with
    | some (.long, _), some (.long, _) => some (.bool .any, [])
    | _, _ => none
  | .hasAttr e attr, caps =>
    match typeOf Γ e caps with
    | some (.record attrs, _) =>
      (match lookupTy attrs attr with
       | some (_, true) => some (.bool .tt, [(e, attr)])
       | some (_, false) => some (if (e, attr) ∈ caps then .bool .tt else .bool .any, [(e, attr)])
       | none => some (.bool .ff, []))
    | _ => none
  | .getAttr e attr, caps =>
    match typeOf Γ e caps with
    | some (.record attrs, _) =>
      (match lookupTy attrs attr with
       | some (t, req) => if req || (e, attr) ∈ caps then some (t, []) else none
       | none => none)
    | _ => none

end Cedar.Ty
