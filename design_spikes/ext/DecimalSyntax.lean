/- FEASIBILITY SPIKE (C07): mirror of `Decimal::from_str` over `List Char`, and exactness theorem. -/
namespace Cedar.Ext.Decimal

def isAsciiDigit (c : Char) : Bool := '0' ≤ c && c ≤ '9'
def digitVal (c : Char) : Nat := c.toNat - '0'.toNat


theorem digit_range (c : Char) (h : isAsciiDigit c = true) : 48 ≤ c.toNat ∧ c.toNat ≤ 57 := by
  simp only [isAsciiDigit, Bool.and_eq_true, decide_eq_true_eq] at h
  obtain ⟨h1, h2⟩ := h
  have a1 : ('0':Char).val.toNat ≤ c.val.toNat := UInt32.le_iff_toNat_le.mp (Char.le_def.mp h1)
  have a2 : c.val.toNat ≤ ('9':Char).val.toNat := UInt32.le_iff_toNat_le.mp (Char.le_def.mp h2)
  have e0 : ('0':Char).val.toNat = 48 := by decide
  have e9 : ('9':Char).val.toNat = 57 := by decide
  show 48 ≤ c.val.toNat ∧ c.val.toNat ≤ 57
  omega

theorem digitVal_le (c : Char) (h : isAsciiDigit c = true) : digitVal c ≤ 9 := by
  have := digit_range c h
  have e0 : ('0':Char).toNat = 48 := by decide
  simp only [digitVal, e0]; omega

theorem digit_ne_dot (c : Char) (h : isAsciiDigit c = true) : c ≠ '.' ∧ c ≠ '-' := by
  have := digit_range c h
  constructor <;> (intro hc; subst hc; revert this; decide)

/-- value of a run of ASCII digits, most significant first -/
def natOfDigits : List Char → Nat
  | ds => ds.foldl (fun acc c => acc * 10 + digitVal c) 0

def allDigits (ds : List Char) : Bool := ds.all isAsciiDigit

def i64Min : Int := -9223372036854775808
def i64Max : Int := 9223372036854775807
def inI64 (i : Int) : Bool := i64Min ≤ i && i ≤ i64Max

inductive Err where | failedParse | tooManyDigits | overflow
deriving Repr, DecidableEq

/-- split at the first '.' -/
def splitDot : List Char → Option (List Char × List Char)
  | [] => none
  | c :: cs => if c = '.' then some ([], cs) else
      match splitDot cs with
      | some (l, r) => some (c :: l, r)
      | none => none

def checkedMul (x y : Int) : Option Int := if inI64 (x * y) then some (x * y) else none
def checkedAdd (x y : Int) : Option Int := if inI64 (x + y) then some (x + y) else none
def checkedSub (x y : Int) : Option Int := if inI64 (x - y) then some (x - y) else none

/-- mirror of `i64::from_str` restricted to what the regex lets through: optional '-' then ASCII digits -/
def i64OfStr (neg : Bool) (ds : List Char) : Option Int :=
  let n : Int := natOfDigits ds
  let v := if neg then -n else n
  if inI64 v then some v else none

/-- Mirror of `Decimal::from_str` for ASCII input (the regex `^(-?\d+)\.(\d+)$`, then checked arithmetic). -/
def parse (s : List Char) : Except Err Int :=
  match splitDot s with
  | none => .error .failedParse
  | some (l, r) =>
    let (neg, ld) := match l with
      | '-' :: ld => (true, ld)
      | ld => (false, ld)
    if ld.isEmpty || r.isEmpty || !allDigits ld || !allDigits r then .error .failedParse else
    match i64OfStr neg ld with
    | none => .error .overflow
    | some l' =>
    match checkedMul l' 10000 with
    | none => .error .overflow
    | some l'' =>
    if 4 < r.length then .error .tooManyDigits else
    match i64OfStr false r with
    | none => .error .overflow
    | some r' =>
    match checkedMul r' (10 ^ (4 - r.length)) with
    | none => .error .overflow
    | some r'' =>
    match (if neg then checkedSub l'' r'' else checkedAdd l'' r'') with
    | none => .error .overflow
    | some v => .ok v

/-- The documented language and its exact value (scaled by 10^4). -/
structure Lit where
  neg : Bool
  ip : List Char
  fp : List Char

def Lit.render (d : Lit) : List Char := (if d.neg then ['-'] else []) ++ d.ip ++ ['.'] ++ d.fp
def Lit.wf (d : Lit) : Prop := d.ip ≠ [] ∧ d.fp ≠ [] ∧ allDigits d.ip = true ∧ allDigits d.fp = true ∧ d.fp.length ≤ 4
def Lit.exact (d : Lit) : Int :=
  let m : Int := natOfDigits d.ip * 10000 + natOfDigits d.fp * 10 ^ (4 - d.fp.length)
  if d.neg then -m else m

#eval parse "12.34".toList
#eval parse "-0.5".toList
#eval parse "922337203685477.5807".toList
#eval parse "922337203685477.5808".toList
#eval parse "-922337203685477.5808".toList
#eval parse "1.23456".toList
#eval parse "1.".toList


theorem splitDot_digits (ip fp : List Char) (h : allDigits ip = true) :
    splitDot (ip ++ '.' :: fp) = some (ip, fp) := by
  induction ip with
  | nil => simp [splitDot]
  | cons c cs ih =>
    simp only [allDigits, List.all_cons, Bool.and_eq_true] at h
    have hc : c ≠ '.' := (digit_ne_dot c h.1).1
    simp only [List.cons_append, splitDot, hc, if_false]
    rw [ih (by simpa [allDigits] using h.2)]

theorem foldl_lt (ds : List Char) (hd : allDigits ds = true) :
    ∀ acc : Nat, ds.foldl (fun acc c => acc * 10 + digitVal c) acc < (acc + 1) * 10 ^ ds.length := by
  induction ds with
  | nil => intro acc; simp
  | cons c cs ih =>
    intro acc
    simp only [allDigits, List.all_cons, Bool.and_eq_true] at hd
    have h9 := digitVal_le c hd.1
    have := ih (by simpa [allDigits] using hd.2) (acc * 10 + digitVal c)
    simp only [List.foldl_cons, List.length_cons]
    calc _ < (acc * 10 + digitVal c + 1) * 10 ^ cs.length := this
      _ ≤ ((acc + 1) * 10) * 10 ^ cs.length := Nat.mul_le_mul_right _ (by omega)
      _ = (acc + 1) * 10 ^ (cs.length + 1) := by rw [Nat.pow_succ, Nat.mul_assoc, Nat.mul_comm 10]

theorem natOfDigits_lt (ds : List Char) (hd : allDigits ds = true) : natOfDigits ds < 10 ^ ds.length := by
  have := foldl_lt ds hd 0
  simpa [natOfDigits] using this

theorem fp_bound (fp : List Char) (hne : fp ≠ []) (hlen : fp.length ≤ 4) (hd : allDigits fp = true) :
    natOfDigits fp * 10 ^ (4 - fp.length) < 10000 ∧ natOfDigits fp < 10000 := by
  have h := natOfDigits_lt fp hd
  have hpos : 0 < fp.length := List.length_pos_iff.mpr hne
  generalize natOfDigits fp = n at *
  generalize fp.length = k at *
  have : k = 1 ∨ k = 2 ∨ k = 3 ∨ k = 4 := by omega
  rcases this with rfl | rfl | rfl | rfl <;> simp at h ⊢ <;> omega

theorem not_dash_of_digits (ip : List Char) (hne : ip ≠ []) (hd : allDigits ip = true) :
    ∀ ld, ip ≠ '-' :: ld := by
  intro ld h
  subst h
  simp only [allDigits, List.all_cons, Bool.and_eq_true] at hd
  exact (digit_ne_dot '-' hd.1).2 rfl

/- Remaining assembly (not done in the spike): `parse d.render = if inI64 d.exact then .ok d.exact else .error .overflow`
   for well-formed `d` — follows from `splitDot_digits`, `not_dash_of_digits`, `fp_bound` and `arith_exact`
   (see DecimalArith.lean), after restructuring `parse` as "syntactic split" ∘ `arith`. -/
end Cedar.Ext.Decimal
