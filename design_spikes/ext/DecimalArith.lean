namespace Cedar.Ext.Decimal

def InI64 (i : Int) : Prop := -9223372036854775808 ≤ i ∧ i ≤ 9223372036854775807
instance (i : Int) : Decidable (InI64 i) := by unfold InI64; infer_instance

def chk (i : Int) : Option Int := if InI64 i then some i else none
theorem chk_some {i : Int} (h : InI64 i) : chk i = some i := by simp [chk, h]
theorem chk_none {i : Int} (h : ¬ InI64 i) : chk i = none := by simp [chk, h]

/-- the checked-arithmetic tail of `Decimal::from_str` -/
def arith (neg : Bool) (n m : Nat) (P : Nat) : Option Int :=
  match chk (if neg then -(n : Int) else n) with
  | none => none
  | some l' =>
  match chk (l' * 10000) with
  | none => none
  | some l'' =>
  match chk (m : Int) with
  | none => none
  | some r' =>
  match chk (r' * (P : Int)) with
  | none => none
  | some r'' => if neg then chk (l'' - r'') else chk (l'' + r'')

def exact (neg : Bool) (n m P : Nat) : Int :=
  if neg then -((n : Int) * 10000 + (m : Int) * (P : Int)) else (n : Int) * 10000 + (m : Int) * (P : Int)

theorem arith_exact (neg : Bool) (n m P : Nat) (h1 : m * P < 10000) (h2 : m < 10000) :
    arith neg n m P = if InI64 (exact neg n m P) then some (exact neg n m P) else none := by
  have hF : (m : Int) * (P : Int) < 10000 := by
    have := Int.ofNat_lt.mpr h1
    rw [Int.natCast_mul] at this; exact this
  have hF0 : (0 : Int) ≤ (m : Int) * (P : Int) := Int.mul_nonneg (Int.natCast_nonneg _) (Int.natCast_nonneg _)
  have hM : (m : Int) < 10000 := Int.ofNat_lt.mpr h2
  have hM0 : (0 : Int) ≤ (m : Int) := Int.natCast_nonneg _
  have hN0 : (0 : Int) ≤ (n : Int) := Int.natCast_nonneg _
  unfold arith exact
  generalize (m : Int) = M at *
  generalize hFF : M * (P : Int) = F at *
  generalize (n : Int) = N at *
  have cM : InI64 M := by unfold InI64; omega
  have cF : InI64 F := by unfold InI64; omega
  cases neg <;> simp only [Bool.false_eq_true, if_false, if_true]
  · -- positive
    by_cases hex : InI64 (N * 10000 + F)
    · have c1 : InI64 N := by unfold InI64 at *; omega
      have c2 : InI64 (N * 10000) := by unfold InI64 at *; omega
      simp only [chk_some c1, chk_some c2, chk_some cM, hFF, chk_some cF, chk_some hex, if_pos hex]
    · rw [if_neg hex]
      by_cases c1 : InI64 N
      · by_cases c2 : InI64 (N * 10000)
        · simp only [chk_some c1, chk_some c2, chk_some cM, hFF, chk_some cF, chk_none hex]
        · simp only [chk_some c1, chk_none c2]
      · simp only [chk_none c1]
  · -- negative
    by_cases hex : InI64 (-(N * 10000 + F))
    · have c1 : InI64 (-N) := by unfold InI64 at *; omega
      have c2 : InI64 (-N * 10000) := by unfold InI64 at *; omega
      have c5 : InI64 (-N * 10000 - F) := by unfold InI64 at *; omega
      have e : -N * 10000 - F = -(N * 10000 + F) := by omega
      simp only [chk_some c1, chk_some c2, chk_some cM, hFF, chk_some cF, if_pos hex, e, chk_some hex]
    · rw [if_neg hex]
      by_cases c1 : InI64 (-N)
      · by_cases c2 : InI64 (-N * 10000)
        · have c5 : ¬ InI64 (-N * 10000 - F) := by unfold InI64 at *; omega
          simp only [chk_some c1, chk_some c2, chk_some cM, hFF, chk_some cF, chk_none c5]
        · simp only [chk_some c1, chk_none c2]
      · simp only [chk_none c1]

#print axioms arith_exact
end Cedar.Ext.Decimal
