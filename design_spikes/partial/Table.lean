/- FEASIBILITY SPIKE (C13/C14, shared with C01): the five-row decision table of `PartialResponse::decision`
   and `tpe::Response::new`, and its soundness for every completion of the residual policies. -/
namespace Cedar.Table

inductive Decision where | allow | deny
deriving DecidableEq, Repr

inductive Effect where | permit | forbid
deriving DecidableEq, Repr

/-- what is known about a policy after partial evaluation -/
inductive PClass where | tt | ff | err | residual
deriving DecidableEq, Repr

/-- final outcome of a policy under a completion -/
inductive Outcome where | sat | unsat | err
deriving DecidableEq, Repr

structure Pol where
  id : String
  effect : Effect
  cls : PClass
deriving Repr

/-- mirror of the `match (…is_empty()…)` table; arguments are the *non*-emptiness flags in the Rust order
    `(true_forbids, true_permits, residual_permits, residual_forbids)` -/
def table : Bool → Bool → Bool → Bool → Option Decision
  | true, _, _, _ => some .deny
  | _, false, false, _ => some .deny
  | false, _, _, true => none
  | false, false, true, false => none
  | false, true, _, false => some .allow

def has (ps : List Pol) (e : Effect) (c : PClass) : Bool := ps.any (fun p => p.effect == e && p.cls == c)

def decision (ps : List Pol) : Option Decision :=
  table (has ps .forbid .tt) (has ps .permit .tt) (has ps .permit .residual) (has ps .forbid .residual)

/-- a completion assigns a final outcome to every policy, consistent with what is already known -/
def Consistent (c : PClass) (o : Outcome) : Prop :=
  match c with
  | .tt => o = .sat
  | .ff => o = .unsat
  | .err => o = .err
  | .residual => True

/-- the concrete authorizer's decision from final outcomes (C01's `allow_iff`, as a definition) -/
def concrete (ps : List Pol) (out : Pol → Outcome) : Decision :=
  if ps.any (fun p => p.effect == .permit && out p == .sat) && !ps.any (fun p => p.effect == .forbid && out p == .sat)
  then .allow else .deny

theorem table_sound (ps : List Pol) (out : Pol → Outcome) (hc : ∀ p, p ∈ ps → Consistent p.cls (out p))
    (d : Decision) (h : decision ps = some d) : concrete ps out = d := by
  unfold decision at h
  unfold concrete
  -- facts linking the flags to the completion
  have hTF : has ps .forbid .tt = true → ps.any (fun p => p.effect == .forbid && out p == .sat) = true := by
    intro h1
    simp only [has, List.any_eq_true, Bool.and_eq_true, beq_iff_eq] at h1 ⊢
    obtain ⟨p, hp, he, hcl⟩ := h1
    have := hc p hp; rw [hcl] at this
    exact ⟨p, hp, he, this⟩
  have hTP : has ps .permit .tt = true → ps.any (fun p => p.effect == .permit && out p == .sat) = true := by
    intro h1
    simp only [has, List.any_eq_true, Bool.and_eq_true, beq_iff_eq] at h1 ⊢
    obtain ⟨p, hp, he, hcl⟩ := h1
    have := hc p hp; rw [hcl] at this
    exact ⟨p, hp, he, this⟩
  have hNoP : has ps .permit .tt = false → has ps .permit .residual = false →
      ps.any (fun p => p.effect == .permit && out p == .sat) = false := by
    intro h1 h2
    rw [Bool.eq_false_iff] at h1 h2 ⊢
    intro h3
    simp only [has, List.any_eq_true, Bool.and_eq_true, beq_iff_eq, ne_eq] at h1 h2 h3
    obtain ⟨p, hp, he, ho⟩ := h3
    have hcp := hc p hp
    cases hcl : p.cls with
    | tt => exact h1 ⟨p, hp, he, hcl⟩
    | residual => exact h2 ⟨p, hp, he, hcl⟩
    | ff => rw [hcl] at hcp; simp [Consistent] at hcp; rw [hcp] at ho; cases ho
    | err => rw [hcl] at hcp; simp [Consistent] at hcp; rw [hcp] at ho; cases ho
  have hNoF : has ps .forbid .tt = false → has ps .forbid .residual = false →
      ps.any (fun p => p.effect == .forbid && out p == .sat) = false := by
    intro h1 h2
    rw [Bool.eq_false_iff] at h1 h2 ⊢
    intro h3
    simp only [has, List.any_eq_true, Bool.and_eq_true, beq_iff_eq, ne_eq] at h1 h2 h3
    obtain ⟨p, hp, he, ho⟩ := h3
    have hcp := hc p hp
    cases hcl : p.cls with
    | tt => exact h1 ⟨p, hp, he, hcl⟩
    | residual => exact h2 ⟨p, hp, he, hcl⟩
    | ff => rw [hcl] at hcp; simp [Consistent] at hcp; rw [hcp] at ho; cases ho
    | err => rw [hcl] at hcp; simp [Consistent] at hcp; rw [hcp] at ho; cases ho
  cases h1 : has ps .forbid .tt <;> cases h2 : has ps .permit .tt <;>
    cases h3 : has ps .permit .residual <;> cases h4 : has ps .forbid .residual <;>
    simp only [h1, h2, h3, h4, table] at h <;> (try cases h) <;>
    simp_all

#print axioms table_sound
end Cedar.Table
