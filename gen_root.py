#!/usr/bin/env python3
"""Regenerates lean/CedarVerif.lean (the library root importing every module) from the files present."""
import os
root = os.path.join(os.path.dirname(os.path.abspath(__file__)), "lean")
mods = []
for d, _, fs in os.walk(os.path.join(root, "CedarVerif")):
    for f in fs:
        if f.endswith(".lean"):
            mods.append(os.path.relpath(os.path.join(d, f), root)[:-5].replace("/", "."))
open(os.path.join(root, "CedarVerif.lean"), "w").write("".join(f"import {m}\n" for m in sorted(mods)))
print(len(mods), "modules")
