#!/bin/sh
# mkwt.sh <name>: scratch git worktree of /verif for parallel work on one property, with warm build dirs.
set -e
name="$1"
mkdir -p /work/wt
git -C /verif worktree add -q /work/wt/$name -b wt-$name
cp -a /verif/lean/.lake /work/wt/$name/lean/.lake
mkdir -p /work/wt/$name/harness
cp -a /verif/harness/target /work/wt/$name/harness/target
echo /work/wt/$name
