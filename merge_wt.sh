#!/bin/sh
# merge_wt.sh <ID>: merge branch wt-<ID> into main, auto-resolving registration files.
name="$1"
git merge --no-edit wt-$name >/tmp/merge.log 2>&1
tail -2 /tmp/merge.log
if git show wt-$name:propsd/$name.py >/dev/null 2>&1; then :; else
  python3 extract_props.py wt-$name $name
  for f in props.py gen_manifest.py; do git checkout --ours $f 2>/dev/null; git add $f; done
fi
for f in $(git diff --name-only --diff-filter=U); do
  case "$f" in
    lean/CedarVerif.lean|MANIFEST.json) git checkout --theirs "$f" 2>/dev/null; git add "$f";;
    evidence/*) git checkout --theirs "$f"; git add "$f";;
  esac
done
python3 resolve_union.py
python3 gen_root.py
python3 gen_manifest.py
git diff --name-only --diff-filter=U
