#!/bin/sh
# merge_wt.sh <branch-suffix> [ID]: merge branch wt-<suffix> into main, auto-resolving registration files.
name="$1"
git merge --no-edit wt-$name >/tmp/merge.log 2>&1
tail -2 /tmp/merge.log
for f in $(git diff --name-only --diff-filter=U); do
  case "$f" in
    lean/CedarVerif.lean|MANIFEST.json) git checkout --theirs "$f" 2>/dev/null; git add "$f";;
    evidence/*) git checkout --theirs "$f"; git add "$f";;
  esac
done
python3 resolve_union.py
python3 gen_root.py
python3 gen_manifest.py
git diff --name-only --diff-filter=U
test -z "$(git diff --name-only --diff-filter=U)"
