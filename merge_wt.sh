#!/bin/sh
# merge_wt.sh <name>: merge branch wt-<name> into main, auto-resolving generated files.
name="$1"
git merge --no-edit wt-$name >/tmp/merge.log 2>&1
tail -3 /tmp/merge.log
for f in $(git diff --name-only --diff-filter=U); do
  case "$f" in
    lean/CedarVerif.lean|MANIFEST.json) git checkout --theirs "$f" 2>/dev/null; git add "$f";;
    evidence/*) git checkout --theirs "$f"; git add "$f";;
    *) echo "CONFLICT: $f";;
  esac
done
