#!/bin/sh
# Build the framework offline from files on disk: Lean model + theorems + driver, and the Rust harness.
set -e
cd "$(dirname "$0")"
export CARGO_NET_OFFLINE=true
(cd lean && lake build CedarVerif driver)
(cd harness && cargo build --offline)
# C19: the `cedar` CLI binary from /repo's working tree (its own target dir inside the harness target dir)
ROOT="$(pwd)"
(cd /repo && CARGO_TARGET_DIR="$ROOT/harness/target/cli" cargo build --offline -p cedar-policy-cli)
