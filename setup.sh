#!/bin/sh
# Build the framework offline from files on disk: Lean model + theorems + driver, and the Rust harness.
set -e
cd "$(dirname "$0")"
export CARGO_NET_OFFLINE=true
(cd lean && lake build CedarVerif driver)
(cd harness && cargo build --offline)
