#!/usr/bin/env python3
"""Resolve merge conflicts by taking the union of both sides (registration lists: mods, match arms, handlers, props)."""
import re, subprocess, sys
files = subprocess.run(["git", "diff", "--name-only", "--diff-filter=U"], capture_output=True, text=True).stdout.split()
for f in files:
    if f not in ("harness/src/main.rs", "lean/Driver/Main.lean", "props.py", "gen_manifest.py", "harness/Cargo.toml", "setup.sh", "known_findings.jsonl", ".gitignore"):
        print("UNRESOLVED:", f); continue
    s = open(f).read()
    s = re.sub(r"<<<<<<< [^\n]*\n(.*?)=======\n(.*?)>>>>>>> [^\n]*\n", lambda m: m.group(1) + m.group(2), s, flags=re.S)
    if f == "lean/Driver/Main.lean":
        m = re.search(r"(def handlers[^\n]*:= \[\n)(.*?)(\n\])", s, re.S)
        items = [x.strip().rstrip(",") for x in m.group(2).split("\n") if x.strip()]
        s = s[:m.start()] + m.group(1) + ",\n".join("  " + x for x in items) + m.group(3) + s[m.end():]
    open(f, "w").write(s)
    subprocess.run(["git", "add", f])
    print("resolved (union):", f)
