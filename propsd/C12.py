"""Configuration of ./check C12: harness streams (name, n_quick, n_thorough), rule text, theorem names; MANIFEST texts."""
PROP = {'streams': [('c12', 12, 1200)],
 'definitional': False,
 'rule': 'policy-set texts: 28 hand-written surface-syntax policies (trailing commas at every Comma<E> site, templates, annotations, every operator, '
         'nested unary ops, keywords as keys, long lines, multi-line strings) + generated programs of 1-4 policies (c01 policy generator, gen.rs '
         'expressions via Display, annotations, parse-validated surface mutations: trailing commas, parentheses, blank lines/CRLF/tabs); per '
         'program: comment-free text on the full grid line_width {1,20,40,80,120} x indent {0,2,4,8} with idempotence; one comment injected at EACH '
         'token boundary in turn in 3 styles (trailing, own line, two lines with blank line) with configs rotating over the grid (full grid on 2 '
         'corpus programs in quick, on all in thorough); comments at all boundaries at once; every output re-formatted under the same and another '
         'config; predicates: no error/panic, parse(output) structurally identical (ids, effect, annotations + order, scope, eq_shape; templates '
         'included), comments preserved in order (independent scanner), fmt(fmt(x))==fmt(x) on comment-free text, token sequence unchanged up to '
         "trailing commas; model lines: token stream + comment attachment of the formatter's lexer vs the Lean mirror on inputs and outputs; "
         'non-trivial = program with >=25 tokens (distinct by text)',
 'theorems': ['render_tokens',
              'render_comment_safe',
              'toDoc_tokens_partial',
              'toDoc_comments_partial',
              'toDocFixed_comments',
              'toDoc_safe',
              'policy_tokens',
              'policy_comments',
              'policy_safe',
              'policies_tokens',
              'policies_comments',
              'pipeline_correct'],
 'assumptions': ['theorems cover the abstract layout algebra, the expression-CST core and the policy level (Annotation/VariableDef/Cond/Policy docs, '
                 'joining of policies, end-of-file comments) with resolved tokens; the `pretty` crate, the span lookups of utils.rs, '
                 'remove_empty_lines and the string-level re-lexing of outputs are covered by the differential/property run only',
                 'comment identity = trimmed text of the comment line']}

TEXT = ('Lean theorems over an abstract model of the formatter: a Wadler-style document algebra whose renderer is proved to insert only whitespace for '
 'EVERY flat/break decision (render_tokens) and never to let a `//` comment swallow a token when comments are followed by hardlines '
 "(render_comment_safe); the mirror of doc.rs' add_comment rule and of its Doc impls for the expression-CST core, proved to emit exactly the source "
 'tokens and comments in order except trailing commas, which are dropped with their comments (toDoc_tokens_partial, toDoc_comments_partial; the loss '
 'is exhibited by lost_comment_example and removed by toDocFixed_comments); the policy level of doc.rs (annotations, effect, scope with '
 'both layouts and its trailing comma, when/unless clauses, joining of policies, end-of-file comments): every layout of a policy / policy set, for '
 'every chooser, width and indent, carries exactly the source tokens and comments in order minus trailing `,` tokens, so every comment survives '
 '(policy_tokens, policy_comments, policies_tokens, policies_comments) and no token is swallowed by a comment (policy_safe); an abstract pipeline theorem (pipeline_correct): atom-preserving + '
 'output a function of (tokens, config) on comment-free text => same parse, comments preserved, idempotent sans comments, re-format preserves both. '
 'The statement itself is evaluated on the real formatter by a property-directed run: a comment at each token boundary in turn, width/indent grid, '
 "idempotence, re-formatting; the formatter's lexer/comment attachment is diffed against its Lean mirror.",
 'the theorems cover the abstract layout algebra + the expression-CST core + the policy level (resolved tokens); the span lookups of '
 'utils.rs, remove_empty_lines, the `pretty` crate and string-level re-lexing are covered '
 "by the differential/property run only (sampled); no differential op for policy-level documents; known findings C12-F1..F4 (comments on trailing commas / on the scope's `)` after a trailing "
 'comma are dropped) are listed in known_findings.jsonl')
