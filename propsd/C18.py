"""Configuration of ./check C18: harness streams (name, n_quick, n_thorough), rule text, theorem names; MANIFEST texts."""
PROP = {'streams': [('c18', 1500, 100000), ('c18symc', 1500, 100000)],
 'definitional': False,
 'rule': 'one case = one generated schema world (gen_schema.rs: entity types with required/optional attributes, tags, memberOf, enums, action '
         'groups, per-action contexts with extension values, namespaces) with a conformant store accepted by Entities::from_entities(.., schema) '
         '(half of the worlds: every uid the generators can produce exists; the other half: entities present with probability 55%, so principals, '
         'resources, attribute values and parents may be absent), 6 static policies accepted by the real strict validator (gen_typed.rs) and 5 '
         'requests accepted by Request::new(.., schema), plus 110 fixed probe situations. Per (request, store): '
         'SymEnv::from_concrete_env must succeed and be literal; per (policy, request, store) and per pair of policy sets drawn from the policies, '
         'BOTH compilers are run: symccopt through CompiledPolicy/CompiledPolicySet::compile_with_custom_symenv and the public *_asserts(..).asserts() '
         '(constant = every assert is a literal Bool; holds iff one is false), symcc through the deprecated CedarSymCompiler::check_*(WellTyped.., '
         'symenv) with a WriterSolver (constant = check_unsat_asserts answers without consulting the solver; SolverUnknown = non-constant). Each '
         "condition's constant (never-errors, always-matches, never-matches, always-allows, always-denies, implies, equivalent, disjoint, and the "
         'policy-level matches-implies/equivalent/disjoint) is compared with Evaluator::evaluate / Authorizer::is_authorized on the same request and '
         'store (implementation-level), with the same on the store completed with default entities for absent uids, and, through the model line '
         '`(symcc (ps (effect outcome)..) (ps ..))`, with the prediction of the Lean skeleton from Rust\'s concrete outcomes; non-trivial = distinct '
         '(policy, request, store, outcome). Stream c18symc (the compiler fragment modelled in Lean): one case = one random expression of the '
         'fragment (bool/long/string/entity literals, principal/action/resource, ! - && || if == < <= + - *, longs near the i64 bounds, and `context`, '
         '`context.a`, `context has a` over a context type with required Bool/Long and optional Long/String/User attributes, optional ones behind has-guards, '
         'undeclared attributes, `context == context`; third round: `e like "pat"` on string terms incl. guarded `context.s`, patterns with wildcards and an escaped star, and `e is T` on principal / resource / action / entity literals / guarded `context.u`; fourth round: set literals of 1..4 longs / strings / users drawn from small pools (duplicates frequent) with `contains`, `containsAll`, `containsAny`, `isEmpty`, set `==` incl. a set against itself, and an erroring element `[1, MAX + 1, ..]`) as the when-clause of a static policy on a fixed schema and a request whose context supplies each optional '
         'attribute with probability 1/2; the real typechecker + compiler run through '
         'CompiledPolicy::compile_with_custom_symenv on SymEnv::from_concrete_env, the compiled term is read back from the Debug output and must be '
         'the literal some true / some false / none; it is compared with Evaluator::evaluate (implementation-level) and, through the model line '
         '`(symc REQ (etys ..) (ctxty ..) EXPR)`, with the term the Lean compiler model folds on the context term ctxTermOf builds; non-trivial = distinct '
         '(expression, principal, action, context)',
 'theorems': ['compile_correct_fragment2',
              'set_canonical_members',
              'set_member_folds',
              'set_subset_folds',
              'set_intersects_folds',
              'set_is_empty_folds',
              'compile_correct_fragment2_conformant',
              'ctxTermOf_ctxOK',
              'compile_rejects_iff',
              'compile_typeOf_ctype',
              'compile_correct_fragment',
              'compilePolicy_discharged',
              'compilePolicies_discharged',
              'vc_skeleton_correct_fragment',
              'vc_skeleton_correct',
              'neverErrors_refuted_iff_errors',
              'alwaysMatches_iff_satisfied',
              'neverMatches_iff_not_satisfied',
              'matches_pair_correct',
              'alwaysAllows_iff_allow',
              'alwaysDenies_iff_deny',
              'implies_iff',
              'equivalent_iff',
              'disjoint_iff',
              'opt_agrees',
              'isAuthorized_compiled'],
 'assumptions': ['FOURTH ROUND (sets): set terms (TermType.set, Term.setNil/setCons with the BTreeSet invariant as the separate predicate setWF, canonical form setOf), factory set_of/set_member/set_subset/set_inter/set_is_empty/set_intersects/any_none/if_all_some, compile_set, the isEmpty / contains / containsAll / containsAny arms and compile on set literals are MODELLED (fragment SFrag3, inFrag3 in the driver) and compared line by line with the Rust compiler by c18symc (set literals of longs/strings/users with duplicates, contains*, isEmpty, set ==, erroring element [1, MAX+1]); PROVED only: the canonical form keeps exactly the members (set_canonical_members) and set_member / set_subset / set_intersects / set_is_empty fold on canonical literal sets to membership / inclusion / overlap / emptiness of the original element lists (set_member_folds, set_subset_folds, set_intersects_folds, set_is_empty_folds); the general statement CompileCorrectFragment3 is a def, NOT a theorem (set ==, if_all_some / compile_set error propagation and the link from these factory lemmas to evaluate through compile are covered by closed examples and by the differential run only); ctype / compile_rejects_iff / compile_typeOf_ctype / compilePolicy_discharged / vc_skeleton_correct_fragment remain on SFrag2. The statement "Still outside: sets … no SFrag3" below is superseded as far as the MODEL is concerned. Ill-typed sets ([1, "x"], []) are not generated: the typechecker drops operands behind guards it types False/True, so the compiler never sees them while the model line carries the original condition',
                 'THIRD ROUND: (1) compile_rejects_iff / compile_typeOf_ctype: on SFrag2 the compiler\'s outcome class (accepted with a term of type ty / TypeError / NoSuchAttribute / model-only `outside`) equals `ctype`, the mirror of compiler.rs\' own type checks, which reads from the concrete semantics only whether an if/&&/|| guard evaluates to a boolean constant (constant guards make the compiler skip the other operand\'s checks); same hypothesis about the context term as compile_correct_fragment2; (2) ctxTermOf_ctxOK: that hypothesis (CtxOK) is PROVED for the term ctxTermOf builds from any flat context whose attributes are declared and primitive (FlatConforms) — compile_correct_fragment2_conformant; the statements below about "no statement is proved about WHEN the compiler rejects" and "ctxTermOf satisfies CtxOK … not proved in general" are superseded. (3) `like` (compile_like + factory string_like, folded with the evaluator\'s wildcard match) and `is` (compile_is) are IN the fragment SFrag2 now, wrapped in if_some(operand, ..) as both Rust compilers do (c18symc observes symccopt via CompiledPolicy::compile_with_custom_symenv), covered by every SFrag2 theorem and sampled by c18symc. Still outside: sets (set literals, contains*, isEmpty, set == ; no SFrag3), attribute access on entity-typed terms, record literals, nested-record/set context attributes',
                 'SECOND ROUND: the fragment now also covers `context`, `e.a` and `e has a` on record-typed terms (record terms / record term types, compile_attrs_of/'
                 'has_attr/get_attr, factory record_get/is_some, the Record arm of Term::from_value for a FLAT context type = ctxTermOf): compile_correct_fragment2 '
                 'assumes the context term represents the context attribute by attribute (CtxOK: required -> literal, optional present -> some literal, absent -> '
                 'none; primitive attribute values only); that ctxTermOf satisfies CtxOK is shown on an example and sampled by stream c18symc, not proved in general; '
                 'attribute access on entity-typed terms, record literals, sets, like, is, nested-record/set context attributes remain outside. '
                 'A FIRST FRAGMENT OF THE COMPILE STEP IS MODELLED AND PROVED (Cedar/SymCompile.lean: Term with App nodes, factory not/and/or/eq/ite/'
                 'bvneg/bvadd/bvsub/bvmul/bvslt/bvsle/bvnego/bvsaddo/bvssubo/bvsmulo/option_get/is_none/if_false/if_some, compile_prim/var/app1/app2/'
                 'if/and/or and `compile` for literals, principal/action/resource, ! - && || if == < <= + - *): compile_correct_fragment proves that '
                 'whenever the compiler accepts a fragment expression on the literal environment the term is some(lit v) / none exactly as evaluate '
                 'gives v / errors, and vc_skeleton_correct_fragment discharges the compile contract for policies with fragment conditions (only the '
                 'enforcer assumption remains). Ill-typed inputs are rejected by the compiler (TypeError) or, behind a constant guard / short-circuit, '
                 'accepted and folded (examples in Thm/C18.lean); no statement is proved about WHEN the compiler rejects. Through the public API only '
                 'typechecked boolean conditions are observable, so compiler rejections and non-boolean folded terms are not sampled on the Rust side',
                 'OUTSIDE THE FRAGMENT THE COMPILE STEP IS CONTRACT-ONLY: the compiler Expr -> Term (symcc/compiler.rs, symccopt/compiler.rs, extfun.rs, bitvec.rs, '
                 'extension_types/), the term factory\'s constant folding on non-boolean terms, SymEnv::from_concrete_env and the enforcer\'s term '
                 'construction are NOT modelled in Lean; the theorems take as hypothesis that on a literal environment a policy\'s condition folds '
                 'to some true / some false / none exactly as `evaluate` gives true / false / error and that every enforcer assumption folds to '
                 'true; this contract is what the differential run samples on the Rust code (both compilers, every generated policy, request, store)',
                 'the plain compiler (symcc/verifier.rs) is reachable only through the deprecated check_* API; its asserts are observed through '
                 'check_unsat_asserts\' solver-free shortcut (any literal false => unsat, all literal true => sat), not term by term',
                 'KNOWN FINDING C18-absent-entity-default-attributes: with entities absent from the store the literal environment and the evaluator '
                 'differ (see known_findings.jsonl); such cases are classified by a second oracle (evaluation on the store completed with SymCC\'s '
                 'default entities must agree with SymCC) and reported as known-finding hits, never as agreement',
                 'templates / linked policies are not compiled (SymCC rejects them); request environments are those of the generated requests']}

TEXT = ('Fourth round (sets): set literal terms with a canonical form, compile_set, contains / containsAll / containsAny / isEmpty / set == and the factory set_member / set_subset / set_intersects / set_is_empty folding are MODELLED (fragment SFrag3) and checked line by line against the Rust compiler by c18symc; proved: the canonical form keeps exactly the members and set_member / set_subset / set_intersects / set_is_empty fold to membership / inclusion / overlap / emptiness of the element lists (`set_canonical_members`, `set_member_folds`, `set_subset_folds`, `set_intersects_folds`, `set_is_empty_folds`); the general `CompileCorrectFragment3` is stated as a def and NOT proved; ctype / compile_rejects_iff remain on SFrag2. '
 'Third round: `compile_rejects_iff` (the compiler\'s own typing discipline `ctype` decides exactly when it rejects / what type the accepted term has, on SFrag2) and `ctxTermOf_ctxOK` (the context-term hypothesis of compile_correct_fragment2 is discharged for flat conformant contexts); `like` / `is` added to the fragment. '
 'Lean model `Cedar.SymC` (Cedar/SymCompile.lean): a fragment of the symbolic compiler and term factory (literals, principal/action/'
 'resource, ! - && || if == < <= + - * with overflow -> none; second round: record terms, `context`, `e.a` / `e has a` on record-typed terms with optional '
 'attributes as option-typed fields, theorem `compile_correct_fragment2` under the hypothesis that the context term represents the flat context; every branch of the mirrored factory functions, App nodes kept). Theorem '
 '`compile_correct_fragment`: on the literal environment of any request, if the compiler accepts a fragment expression the term it builds is already '
 'the folded literal some(lit v) / none matching `evaluate`; `compilePolicy_discharged` / `vc_skeleton_correct_fragment`: for policies whose '
 'conditions are in the fragment the compile contract of the skeleton is discharged, so every verification condition states what the concrete '
 'authorizer does with only the enforcer assumption left; checked against Rust by stream c18symc (typechecker + real compiler, term read back). '
 'Lean model `Cedar.SymCC`: the option-boolean skeleton of cedar-policy-symcc\'s verification-condition builders on a literal environment '
 '(factory not/and/or/implies/eq/is_some/any_true on constants; authorizer.rs satisfied_policies/is_authorized; the eleven verify_* of '
 'symcc/verifier.rs and their symccopt/verifier.rs variants with the constant-false shortcut; check_unsat_asserts\' solver-free shortcut). '
 'Theorem `vc_skeleton_correct` (+ one theorem per condition), for arbitrary policy lists, requests and stores: GIVEN that each policy\'s compiled '
 'condition is the constant some true / some false / none matching its concrete outcome and that the enforcer assumptions are true, never-errors is '
 'refuted iff the policy errors, always-matches holds iff it is satisfied, never-matches iff it is not, and always-allows / always-denies / implies / '
 'equivalent / disjoint hold iff the corresponding relation between the decisions of the concrete authorizer model `Cedar.isAuthorized` (C01) holds; '
 'the optimised builders give the same constants. OUTSIDE THE FRAGMENT THE COMPILE STEP (Expr -> Term, constant folding, SymEnv::from_concrete_env, enforcer) IS '
 'CONTRACT-ONLY: it is not modelled and not proved; it is sampled by the differential run, which builds the literal environment from generated '
 'conformant requests and stores (extension values, tags, optional attributes present/absent, absent entities), compiles every strictly valid '
 'generated policy and policy-set pair with both compilers, requires every assert to be a literal constant, and compares each constant with the '
 'real evaluator / authorizer on that request and store and with the model\'s prediction from Rust\'s concrete outcomes.',
 'proof over a hand-written skeleton only; the symbolic compiler, the term factory and the symbolizer (about 15 kLoC of Rust) are outside the model '
 'and enter the theorems as a hypothesis (the compile contract) that is sampled, not proved; the plain compiler is observed only through the '
 'deprecated check_* API with a solver stub; known finding: entities absent from the store get default attributes in the literal environment '
 '(evaluator: EntityDoesNotExist / has = false)')
