"""Configuration of ./check C15: harness streams (name, n_quick, n_thorough), rule text, theorem names; MANIFEST texts."""
PROP = {'streams': [('c15', 1500, 60000)],
 'definitional': False,
 'rule': 'c14\'s worlds (random schema worlds and the reference-chain world) x 1-5 strictly valid static policies x a conformant request and store '
         '(the store generator leaves ~45% of the ids out: dangling parents, attribute values naming absent entities, absent principals/resources; '
         'one more entity dropped in 30% of the cases); n = distinct entity ids in store, request and policies; exact store-backed loader: EVERY '
         'budget 0..n+1; over-returning loaders (extras never returned before / extras possibly returned before): budgets 0..5 and n, n+1 (quick), '
         'all (thorough); per run: Ok(d) => d = is_authorized; otherwise InsufficientIterations only; Ok at b => same Ok at b+1; budget > n => Ok; '
         'loader calls <= budget; model lines for the exact loader (budgets <= 6, first deciding, >= n); non-trivial = at least one loading round '
         'needed; distinct by policies + request + store',
 'theorems': ['budget_monotone', 'budget_monotone_le', 'batched_decision_sound', 'enough_budget_full', 'enough_budget_sound', 'enough_budget',
              'batched_decision_sound_partial', 'loop_inv', 'storeLoader_complete', 'storeLoader_faithful',
              'batched_decision_sound_valid', 'enough_budget_full_valid', 'batched_total_valid'],
 'assumptions': ['the typed conditions (output of the Rust typechecker) are an input of the model, as for C14',
                 'schema validation of loaded entities is not modelled (stores are conformant)',
                 'batched_decision_sound has NO hypothesis about the loop states (SoundStates is discharged from C14 interpret_typeSafe and the '
                 'proved lemma missing = empty, Tpe.eval_pad); its hypotheses are about the input: Faithful loader es (answers come from the '
                 'store), TypedSafe (no node of a typed condition raises a type error on request + store: validation, as in C14) and '
                 'TypedAgrees (typed condition evaluates like the policy condition)',
                 'enough_budget_full has NO hypothesis about the loop either: progress (interpret_partial_unloaded), Bool-typed residuals '
                 '(sinv_boolTyped; CondsBool: conditions are boolean-valued) and boundedness (interpret_uidsIn) are proved; its hypotheses: '
                 'Universe U q es tps (U holds the ids of the request incl. context, of the typed conditions and of the attribute / tag values '
                 'of the store - a checkable condition on the input), StepOk and Complete for the loader, TypedSafe / TypedAgrees / CondsBool, '
                 'and that policy_residual_map succeeds; the bound is |U| (enough_budget_sound is the version with boundedness as hypothesis)',
                 'batched_decision_sound_valid / enough_budget_full_valid / batched_total_valid replace TypedSafe, TypedAgrees, CondsBool and '
                 '"policy_residual_map succeeds" by validation-level hypotheses (SchemaWF2; ValidTyped: static policies of the strict fragment '
                 'accepted by checkPolicy .strict in every environment, typed condition = erasure of Level.annotate for the environment of the '
                 'request; Conformant request / store incl. ActionsPresent) - derived from C03 strict soundness in Lemmas/TpeValid*.lean; that '
                 'the typed expression Rust hands over is the erasure of Level.annotate is covered by the differential runs only',
                 'loaders that return an already loaded entity again hit the Duplicate error (known finding); theorems about them need StepOk']}

TEXT = ('Lean theorems over the mirror of is_authorized_batched (empty partial store, all_literal_uids, load unseen, missing => empty entity, '
 'duplicate => error, re-interpret, stop when no Partial, decision table) on top of the TPE model, for arbitrary loaders: budget_monotone '
 '(full: definite classes are fixed points of interpret and the table is monotone), batched_decision_sound (every decision returned, for every '
 'budget and every faithful loader, is the ordinary decision: invariant SInv = the loaded store is completed by the real store padded with '
 'empty entities, every residual evaluates on each such completion like its typed condition (C14 interpret_typeSafe, composed over the '
 'rounds), and missing = empty (eval_pad) brings the evaluation back to the real store; hypotheses on the input only), enough_budget_full '
 '(every budget above |U| yields the ordinary decision; measure = unseen ids of the universe; progress proved: a Partial residual under a '
 'concrete request and fully known entities mentions an unloaded id; Bool-typedness proved; boundedness proved: ids of an interpreted '
 'residual are ids of the input, the request or loaded values; U = ids of request, policies and store values), the older enough_budget / batched_decision_sound_partial under abstract '
 'invariants; batched_decision_sound_valid / enough_budget_full_valid / batched_total_valid: the same from validation-level hypotheses only '
 '(strictly valid static policies per the C03 model with the typechecker typed AST as typed conditions, conformant request and store: '
 'TypedSafe / TypedAgrees / CondsBool and the success of policy_residual_map are derived from C03, Lemmas/TpeValid*.lean); tied to the code by a differential run for every small budget, the first deciding and the top '
 'budgets, plus the four clauses of the statement evaluated on the implementation for every budget 0..n+1 with exact and over-returning '
 'loaders and stores with missing entities.',
 'proof over a hand-written model; soundness and the budget bound need only input hypotheses (type safety of the typed conditions - derived '
 'from validation (C03) in the *_valid theorems -, a faithful / complete loader whose rounds do not fail); '
 'correspondence sampled (harness/src/c15.rs); one genuine defect recorded (a loader that returns an already loaded entity again gets a '
 'duplicate-entity error instead of a decision)')
