"""Configuration of ./check C15: harness streams (name, n_quick, n_thorough), rule text, theorem names; MANIFEST texts."""
PROP = {'streams': [('c15', 1500, 60000)],
 'definitional': False,
 'rule': 'c14\'s worlds (random schema worlds and the reference-chain world) x 1-5 strictly valid static policies x a conformant request and store '
         '(the store generator leaves ~45% of the ids out: dangling parents, attribute values naming absent entities, absent principals/resources; '
         'one more entity dropped in 30% of the cases); n = distinct entity ids in store, request and policies; exact store-backed loader: EVERY '
         'budget 0..n+1; over-returning loaders (extras never returned before / extras possibly returned before): budgets 0..5 and n, n+1 (quick), '
         'all (thorough); per run: Ok(d) => d = is_authorized; otherwise InsufficientIterations only; Ok at b => same Ok at b+1; budget > n => Ok; '
         'loader calls <= budget; model lines for the exact loader (budgets <= 6, first deciding, >= n); non-trivial = at least one loading round '
         'needed; distinct by policies + request + store',
 'theorems': ['budget_monotone', 'budget_monotone_le', 'enough_budget', 'batched_decision_sound_partial', 'loop_inv', 'storeLoader_complete'],
 'assumptions': ['the typed conditions (output of the Rust typechecker) are an input of the model, as for C14',
                 'schema validation of loaded entities is not modelled (stores are conformant)',
                 'batched_decision_sound_partial and enough_budget carry the facts about interpret they need (soundness at the states of the '
                 'loop incl. "missing = empty"; progress; boundedness; Bool-typed residuals) as explicit named hypotheses (SoundStates, LoopInv)',
                 'loaders that return an already loaded entity again hit the Duplicate error (known finding); theorems about them need StepOk']}

TEXT = ('Lean theorems over the mirror of is_authorized_batched (empty partial store, all_literal_uids, load unseen, missing => empty entity, '
 'duplicate => error, re-interpret, stop when no Partial, decision table) on top of the TPE model, for arbitrary loaders: budget_monotone '
 '(full: definite classes are fixed points of interpret and the table is monotone), enough_budget (measure = unseen ids of the universe; '
 'progress/boundedness of interpret as the named hypothesis LoopInv), batched_decision_sound_partial (the table lemma at the final state, '
 'given TPE soundness at the loop states); tied to the code by a differential run for every small budget, the first deciding and the top '
 'budgets, plus the four clauses of the statement evaluated on the implementation for every budget 0..n+1 with exact and over-returning '
 'loaders and stores with missing entities.',
 'proof over a hand-written model; soundness and progress of interpret enter as explicit hypotheses (C14 proves the former on a fragment); '
 'correspondence sampled (harness/src/c15.rs); one genuine defect recorded (a loader that returns an already loaded entity again gets a '
 'duplicate-entity error instead of a decision)')
