"""Configuration of ./check C06: harness streams (name, n_quick, n_thorough), rule text, theorem names; MANIFEST texts."""
PROP = {'streams': [('c06', 6000, 500000)],
 'definitional': False,
 'rule': 'generated Cedar text policies/templates (all operators, extension calls incl. wrong arity, has-chains, is-in, != > >=, 0-3 when/unless '
         'clauses, annotations with escapes, both slots) and policy sets of 1-4 of them with 1-2 links per template, plus hand-built EST JSON '
         'policies (every operator key, Value escapes, odd-but-accepted and rejected shapes); per policy: JSON via CST->EST and AST->EST, '
         'to_json/from_json, PST, protobuf, responses on 3 worlds, printed-text re-parse; model lines: (est to)=from_json, (est of)=to_json, (estpol '
         'to)=policy-level from_json; non-trivial = condition with >=4 subexpressions, every hand-built JSON policy, every set with links'
         "; hand-built JSON, 30% in template mode: slots in most scope constraints, 20% of them the OTHER variable's slot, 12% both swapped; a fixed grid of 81 JSON templates (== / in / is-in on principal and resource x own / wrong / swapped slot); every accepted JSON template is linked on 3 worlds x up to 4 pairs of distinct slot values (request principal/resource, swapped, their ancestors): the linked policy vs Policy::from_json(linked.to_json()) and vs the same link of the template parsed from the printed Cedar text, on evaluation outcome and authorization response",
 'theorems': ['est_roundtrip', 'est_policy_roundtrip', 'est_eval', 'pst_roundtrip_partial', 'proto_roundtrip_partial',
              'pst_template_roundtrip', 'pst_template_encodable', 'pst_clauses_in_order', 'pst_policy_roundtrip', 'pst_link_roundtrip',
              'proto_template_roundtrip', 'proto_link_roundtrip', 'proto_link_roundtrip_anyorder', 'proto_link_lookup',
              'proto_policyset_roundtrip'],
 'assumptions': ["serde / serde_json (text <-> JSON value) and prost's byte encoding are not modelled: only their round trips are sampled",
                 'PST and protobuf are modelled as message trees (structure-preserving maps): expression level in Cedar/Est/Trees.lean, policy '
                 'level (templates, scope constraints with slots, clauses, annotations, static/linked policies, link records, protobuf policy '
                 'sets) in Lemmas/EstTreesPolicyDefs.lean, hand mirrors of pst/{policy,constraints,ast_conversions}.rs and proto/policy.rs; no '
                 'model-vs-code stream reads the tree models, their Rust conversions are tied to the code only by the sampled round trips '
                 '(harness checks (c), (d))',
                 'in the tree models names are kept as the string they print as, maps (slot values, protobuf annotations) are association lists '
                 '(the protobuf link round trip is exact for lists with ?principal first, and up to that order otherwise), messages with absent '
                 'sub-messages or out-of-range enum numbers are not modelled; the api-level pst::PolicySet and the pst<->est conversions are not '
                 'modelled',
                 'JSON numbers are integers; duplicate object members cannot be expressed through serde_json::Value and are not sampled']}

TEXT = ('Lean theorems over a mirror of the JSON policy format (est/expr.rs, est.rs, scope_constraints.rs, entities/json/value.rs): est_roundtrip (toExpr '
 '(ofExpr e) = e for every well-formed expression), est_policy_roundtrip (policies/templates and link records), est_eval (an accepted JSON policy '
 'evaluates as the expression it denotes); over message-tree models of PST and protobuf: expression round trips (pst_roundtrip_partial, '
 'proto_roundtrip_partial) and the policy-level round trips, proved for both formats (FullStatementTreeRoundtrip: pst_template_roundtrip, '
 'proto_template_roundtrip: effect, scope constraints with slots, condition, annotations; pst_template_encodable: to_pst succeeds exactly when the '
 'condition has no wrong-arity/unknown extension call; pst_clauses_in_order: several when/unless clauses read back in order and alike from JSON and '
 'PST; pst_policy_roundtrip, pst_link_roundtrip: static/linked pst::Policy and TemplateLink; proto_link_roundtrip(_anyorder), proto_link_lookup: '
 'models::Policy link messages against the template map with check_binding and id-collision checks; proto_policyset_roundtrip: templates + links of '
 'a whole set), each hypothesis backed by a checked counterexample; the property itself (JSON via CST->EST and AST->EST, PST, protobuf, policy sets '
 'with links, equal responses, printed-text re-parse) is checked on the implementation for generated text and hand-built JSON policies, and the '
 'compiled JSON model is compared with from_json/to_json by cross-composition.',
 "proof over a hand-written model; prost's byte encoding and serde/serde_json are NOT modelled: only their round trip is sampled; PST/protobuf "
 'theorems are about tree models (policy-level tree models have no model-vs-code stream; their round trips are sampled on the implementation); '
 'api-level pst::PolicySet and pst<->est conversions not modelled')
