"""Configuration of ./check C06: harness streams (name, n_quick, n_thorough), rule text, theorem names; MANIFEST texts."""
PROP = {'streams': [('c06', 6000, 500000)],
 'definitional': False,
 'rule': 'generated Cedar text policies/templates (all operators, extension calls incl. wrong arity, has-chains, is-in, != > >=, 0-3 when/unless '
         'clauses, annotations with escapes, both slots) and policy sets of 1-4 of them with 1-2 links per template, plus hand-built EST JSON '
         'policies (every operator key, Value escapes, odd-but-accepted and rejected shapes); per policy: JSON via CST->EST and AST->EST, '
         'to_json/from_json, PST, protobuf, responses on 3 worlds, printed-text re-parse; model lines: (est to)=from_json, (est of)=to_json, (estpol '
         'to)=policy-level from_json; non-trivial = condition with >=4 subexpressions, every hand-built JSON policy, every set with links',
 'theorems': ['est_roundtrip', 'est_policy_roundtrip', 'est_eval', 'pst_roundtrip_partial', 'proto_roundtrip_partial'],
 'assumptions': ["serde / serde_json (text <-> JSON value) and prost's byte encoding are not modelled: only their round trips are sampled",
                 'PST and protobuf are modelled as message trees (structure-preserving maps), their Rust conversions are tied to the code only by '
                 'the sampled round trips',
                 'JSON numbers are integers; duplicate object members cannot be expressed through serde_json::Value and are not sampled']}

TEXT = ('Lean theorems over a mirror of the JSON policy format (est/expr.rs, est.rs, scope_constraints.rs, entities/json/value.rs): est_roundtrip (toExpr '
 '(ofExpr e) = e for every well-formed expression), est_policy_roundtrip (policies/templates and link records), est_eval (an accepted JSON policy '
 'evaluates as the expression it denotes), pst/proto round trips on message-tree models; the property itself (JSON via CST->EST and AST->EST, PST, '
 'protobuf, policy sets with links, equal responses, printed-text re-parse) is checked on the implementation for generated text and hand-built JSON '
 'policies, and the compiled model is compared with from_json/to_json by cross-composition.',
 "proof over a hand-written model; prost's byte encoding and serde/serde_json are NOT modelled: only their round trip is sampled; PST/protobuf "
 'theorems are about tree models')
