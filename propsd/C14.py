"""Configuration of ./check C14: harness streams (name, n_quick, n_thorough), rule text, theorem names; MANIFEST texts."""
PROP = {'streams': [('c14', 2500, 120000), ('c14typed', 40, 2000)],
 'definitional': False,
 'rule': 'schema worlds of gen_schema.rs (65%) and a fixed reference-chain world (35%) x 1-5 strictly valid static policies (gen_typed.rs / chain '
         'pool, mostly about one action) x a conformant request and store, from which the partial inputs are obtained by ERASING: principal id, '
         'resource id, context (each ~40%), per entity attributes / ancestors / tags (each ~45%), whole entities (~15%), fully known and empty '
         'partial stores; per case the original completion + 4 (quick) / 8 (thorough) variations that re-sample exactly the erased parts '
         '(parents only where no entity with known ancestors sees them); every completion must be accepted by reauthorize (= Rust\'s own '
         'consistency check); per completion: definite decision vs is_authorized, every residual policy (get_policy) vs its original under the '
         'concrete evaluator, reauthorize vs concrete vs the policies() view; views compared id by id; query_resource / query_principal vs brute '
         'force on the original and the last completion; query_action vs every applicable action on every completion; non-trivial = something '
         'erased and at least one residual-class policy; distinct by policies + partial request + partial store'
         "; 20% of the cases are the set-membership family: a fixed world with set-valued context fields / entity attributes (entities, longs, strings), sets shrunk to empty (45%) or singleton (25%), policies <set>.contains/containsAny/containsAll(<operand>) (both orders) whose operand stays residual and errors on some completions (attribute chains through entities absent from the completion's store, guarded optional attributes / tags, overflowing arithmetic), under ! || && if in when/unless of permits and forbids; context mostly known, resource mostly unknown; stream c14typed (typed-AST correspondence): schema worlds of gen_schema.rs (1/2) and chain worlds (1/2) x 4 strictly valid + 3 near-valid (near-miss guards, ill-typed plants) static policies (+ 3 chain and 3 const-operand policies of c16.rs on chain worlds: && || if with operands typed True/False) x up to 4 request environments of the schema, two lines each (erased shape; every node's type); non-trivial = distinct (condition, environment, schema) with a typed expression handed back",
 'theorems': ['tpe_table_sound', 'views_agree', 'policy_set_presents_originals', 'views_agree_full_fails', 'interpret_sound',
              'interpret_sound_outcomes', 'interpret_keeps_typeSafe', 'can_error_analysis_sound', 'tpe_decision_sound',
              'interpret_sound_partial', 'opBool_all_unsatisfiable', 'query_exact', 'query_action_sound', 'query_resource_exact',
              'query_principal_exact', 'tpe_decision_sound_valid', 'tpe_total_valid', 'query_resource_exact_valid',
              'query_principal_exact_valid', 'query_action_sound_valid'],
 'assumptions': ['the typed condition TPE starts from (output of the Rust typechecker for the request environment) is an input of the model '
                 '(trusted base: the typechecker, tied by C03); the harness recomputes it with Typechecker::typecheck_by_single_request_env',
                 'error classes are not compared between residual evaluation and concrete evaluation (the property says "erroring")',
                 'consistency of a completion is Rust\'s own check_consistency (reauthorize must accept it); known parts of partial inputs are '
                 'compared as canonical model values',
                 'schema validation inside reauthorize and the stack-depth guard of interpret are not modelled',
                 'interpret_sound (all arms of interpret, every residual) assumes TypeSafe of the INPUT residual on the completion: no node '
                 'raises a type error (operand kinds fit the operators; guarded by short-circuiting); tpe_decision_sound / query_*_exact '
                 'additionally assume TypedAgrees (the typed condition evaluates like the policy condition). The *_valid theorems DERIVE '
                 'both from C03 strict soundness (Lemmas/TpeValid*.lean: annot_typeSafe re-runs the C03 induction over Level.annotate, the '
                 'C16 mirror of the typed AST the Rust typechecker hands back) and carry validation-level hypotheses only: SchemaWF2, '
                 'ValidTyped (static policies in the strict fragment accepted by checkPolicy .strict in every environment, typed condition = '
                 'erasure of annotate for the environment of the partial request), Conformant completion (ConformsRequest, StoreConforms, '
                 'ActionsPresent), Completes',
                 'IsTypedFor / typedPolicy (the typed expression Rust hands to TPE IS the erasure of Level.annotate .strict s env cond []) is not '
                 'proved but CHECKED by the typedast correspondence stream c14typed (harness/src/c14_typed.rs, driver op Driver/Ops/TypedAst.lean): '
                 'per (schema, policy, request environment) the model prints annotate(...).erase and Rust prints '
                 'typecheck_by_single_request_env(...).into_expr() (Success / Irrelevant / Fail as success / irrelevant / (err)), and a second line '
                 'compares the Type annotation of EVERY node (Rust expr.data() vs typeOf under the capabilities in force at that node; the decorated '
                 'tree is checked at run time to be literally annotate\'s TExpr); quick run: 2068 c14typed lines (1034 (policy, environment) pairs: 318 success, 674 irrelevant, 42 rejected; 699 typed expressions differ from the condition by a dropped operand / duplicated branch) + 3446 typedast lines (1723 pairs: 1036 success, 687 irrelevant) that the c14 stream emits for the policies and environment of every 4th TPE case, 0 disagreements, 0 outside-model; '
                 'the c14 stream itself still feeds the model the typed expression Rust computed',
                 'interpret soundness is proved over Residual.eval (a Concrete residual evaluates to its value; ofExpr_eval ties it to '
                 'evaluate on the typed expression); the passage through Value -> Expr of the real reauthorization is covered by the '
                 'differential run (tpe-re lines) only']}

TEXT = ('Lean theorems over the mirror of tpe::Evaluator::interpret (all arms: unknown principal/resource/context, && / || with the '
 'can_error_assuming_well_formed guard, if, is, like, the binary operators incl. `in` with unknown ancestors and entity sets, getTag/hasTag '
 'with unknown tags, ./has with unknown attributes, unary, extension calls, sets, records), Residual, tpe::Response (decision table = the C13 '
 'table, buckets and views as projections of one map, policy_set/reauthorize as implemented) and the permission queries: tpe_table_sound '
 '(full), views_agree (full for policies/get_policy/residual_policies/buckets) with policy_set_presents_originals + views_agree_full_fails '
 '(the policy_set view of this snapshot presents the originals: known finding), interpret_sound (the FULL statement: every residual, every '
 'arm of interpret, on every completion, given only that the input residual is type-safe there - TypeSafe; by induction, simultaneously with '
 'interpret_keeps_typeSafe), can_error_analysis_sound (the mirrored can_error_assuming_well_formed is sound on type-safe residuals: the former '
 'hypotheses ErrFreeSound / OpBool are discharged), tpe_decision_sound (interpret_sound + table: a definite TPE decision is the concrete '
 'decision on every completion), interpret_sound_partial (older Frag formulation, now all constructors), query_exact / query_action_sound '
 '(given TPE soundness = tpe_decision_sound); tpe_decision_sound_valid / query_resource_exact_valid / query_principal_exact_valid / '
 'query_action_sound_valid / tpe_total_valid: the same statements from VALIDATION-level hypotheses only (strictly valid static policies per '
 'the C03 model, typed conditions = the typechecker typed AST Level.annotate, conformant completions): TypedSafe / TypedAgrees are derived '
 'from C03 soundM by one induction over annotate with a per-node invariant (Lemmas/TpeValid*.lean); tied to the code by a '
 'differential run (decision + id->class, and what residuals evaluate to on completions), plus the statement itself evaluated on the '
 'implementation for sampled consistent completions, all views and the three queries.',
 'proof over a hand-written model; interpret soundness is proved for all arms under the semantic hypothesis TypeSafe (no type error at any '
 'node of the typed condition on the completion), which the *_valid theorems derive from the typechecker model (C03) for typed conditions that '
 'are the erasure of the modelled typed AST (Level.annotate); correspondence sampled (harness/src/c14.rs); residual shapes never compared; one genuine defect recorded '
 '(policy_set() returns the original policies)')
