"""Configuration of ./check C09: harness streams (name, n_quick, n_thorough), rule text, theorem names; MANIFEST texts."""
PROP = {'streams': [('c09', 2000, 200000)],
 'definitional': False,
 'rule': 'one case = one generated schema: 1/3 plain gen_schema.rs worlds (JSON, fully qualified; also their library rendering as a Cedar-syntax '
         "input), 2/3 gen_schema_text.rs specs rendered by the harness's own printers as JSON and as Cedar text (1-3 namespaces incl. keywords as "
         'names, unqualified references needing RFC 24/70 resolution, entity types named like primitives/extension types, common types named like '
         'extension types, __cedar:: escapes, common types referencing common types, common/entity name clashes, attribute names / action ids / enum '
         'ids needing quotes, annotations, multi-name declarations, cross-namespace memberOf/appliesTo, optional x nested records, tags, enums, '
         'empty namespaces, half-empty appliesTo, shape-by-common-type), plus 18 fixed probes; per accepted input the four-way comparison A=B=A2 / '
         'C=D=C2 (PartialEq and canonical serialisation), core vs public API, 5 policies and >=6 data items (conformant + single-fault) validated '
         'under original and translated schema, annotations compared on the fragments; model lines: the printer on every type expression, the parser '
         'on printed / generated / single-token-mutated type expressions, name resolution probed end-to-end through a synthetic schema with the same '
         'declared names; `sty parse-entity` lines: the real schema parser on one standard entity declaration (22 probes + 400 generated texts per '
         'run: 1-3 names incl. keywords and reserved words, `in` as bare path / [] / list, shape with and without `=`, malformed shapes, tags, '
         'single-token mutations) against the declaration-level parser of the model (names, memberOf, shape, tags or (err)); `sty print-frag` '
         "lines: the real to_cedarschema on every translatable generated / probe fragment, tokenised, against the model's whole-fragment printer "
         '(namespaces, common types, standard and enum entities, actions with parents / appliesTo / context); `sty parse-frag` lines: the real '
         'from_cedarschema_str + to_json_schema.rs on the printed text, on the generated Cedar text (bare and multiple names, unqualified '
         "parents, any appliesTo order) and on single-token declaration-level mutations of both, against the model's fragment parser (entries "
         'and namespaces sorted on both sides; texts refused as duplicates or refused while annotated are skipped and counted); `sty collect-frag` '
         'lines (~16.5k per quick run): the same texts and mutations PLUS a family with a repeated declaration in one namespace / a repeated namespace '
         'block / both (and 30% single-token mutations of those) against parseFragmentCollected, the accepted fragment compared in BTreeMap KEY ORDER '
         '(nothing sorted), rejections by the class of the first error (ToJsonSchemaError::DuplicateDeclarations / DuplicateNamespaces / other); skipped '
         'and counted: a duplicate together with a declaration that fails to convert on its own or a ReservedName (Rust checks duplicates before '
         'converting, the model after), rejected annotated texts; `sty to-cedar-checked` lines (~11k): every generated fragment plus a JSON family with '
         'an entity type and a common type of one name in a named / in the empty namespace (also referenced through Set and records) and entity '
         'shapes that are not record literals (Long, String, Set, common-type and extension references) against toCedarChecked: tokens or '
         'ToCedarSchemaSyntaxError::NameCollisions / UnconvertibleEntityTypeShape; `sty print-frag-a` (~3.2k) / `sty parse-frag-a` (~5k) lines: '
         'to_cedarschema on fragments with annotations on namespaces and declarations (attribute annotations stripped from the fragment first, '
         'counted) against printFragmentA, and the real grammar parse_schema (with deduplicate_annotations) on the printed texts, on repeated / '
         'value-less / dangling annotation mutations and on declaration-level mutations against parseItemsA (items in source order with their '
         'annotation maps and declaration kinds; texts with a reserved name, refused by the model while parsing and by Rust while converting, '
         'skipped and counted); non-trivial = every '
         'model line, policy and datum, distinct by text',
 'theorems': ['type_roundtrip',
              'type_roundtrip_json',
              'type_roundtrip_cedar_form',
              'resolve_stable',
              'envOK_needed_clash',
              'envOK_needed_shadow',
              'translation_preserves_types_partial',
              'decl_roundtrip',
              'decl_roundtrip_prefix',
              'decl_roundtrip_json',
              'decl_parser_accepts_more',
              'enum_decl_roundtrip',
              'enum_nonempty_needed',
              'common_decl_roundtrip',
              'common_reserved_needed',
              'action_decl_roundtrip',
              'appliesTo_half_empty_lost',
              'ctxOK_needed',
              'action_parser_accepts_more',
              'fragment_roundtrip',
              'namespace_reserved_needed',
              'fragment_roundtrip_collected',
              'collect_rejects_duplicates',
              'collect_rejects_duplicates_examples',
              'collect_allows_entity_common_clash',
              'collect_sorts_example',
              'toCedar_refuses_iff',
              'finding_clash_not_refused',
              'finding_shadow_not_refused',
              'annotations_roundtrip',
              'annotations_parser_accepts_more',
              'annotation_null_becomes_empty',
              'annotated_namespace_roundtrip',
              'annotated_namespace_strip',
              'annotated_fragment_roundtrip'],
 'assumptions': ['theorems cover type expressions, name resolution and the syntax of ALL declaration kinds and whole fragments (standard and enum '
                 'entities, actions with parents / appliesTo / context, common types, namespace blocks: fragment_roundtrip, up to the spelled-out '
                 'normal form normFragment), the BTreeMap collection of parsed declarations with its duplicate errors (collectFragment; tied to Rust by '
                 '`sty collect-frag` in key order, except texts with a duplicate AND a conversion error, where the model answers syntax and Rust the '
                 'duplicate: skipped), the refusal cases of fmt.rs (toCedarChecked; tied by `sty to-cedar-checked`, error CLASS only, the colliding '
                 'names are not compared) and annotation maps on declarations (annotations_roundtrip, annotated_namespace_roundtrip) and on namespace blocks '
                 '(annotated_fragment_roundtrip, at the level of the parsed items; tied by `sty print-frag-a` / `sty parse-frag-a`, annotation values '
                 'being whatever the harness lexer can unescape with the real to_unescaped_string: empty, ASCII with spaces, quotes, backslashes, '
                 'newlines, non-ASCII); annotations on record '
                 'attributes, lexing/escapes, action attributes and ValidatorSchema construction are covered by the four-way differential run only',
                 "the model's tokens are produced from Rust's printed text by the harness's lexer (string literals unescaped by the real "
                 'to_unescaped_string)',
                 'resolution is observed end to end: the reply is read off the resolved type of a probe attribute in a synthetic schema']}

TEXT = ('Lean theorems over a thin model of schema TYPE EXPRESSIONS and NAME RESOLUTION only: the parser of the Cedar type grammar inverts the printer of '
 'fmt.rs (type_roundtrip, incl. attribute names that need quoting), JSON -> Cedar -> JSON maps an expression to its entity-or-common form '
 '(type_roundtrip_json), and on declaration environments without common/entity clashes and without shadowing of empty-namespace definitions that '
 'form resolves every reference to the same declaration (resolve_stable; both hypotheses shown necessary). Declaration level, standard entity '
 'declarations only (Cedar/SchemaDecl.lean): the parser of the grammar\'s Entity production inverts the fmt.rs printer for any names / memberOf '
 'list / shape with optional fields / tags (decl_roundtrip), and a JSON entityTypes entry comes back as itself with entity-or-common leaves '
 '(decl_roundtrip_json). The other declarations and whole fragments (Cedar/SchemaDecl2.lean): enum entities, common types and actions read '
 'back (enum_decl_roundtrip, common_decl_roundtrip, action_decl_roundtrip), and a whole JSON fragment (namespaces with common types, entity '
 'types of both kinds, actions with parents / appliesTo / context) printed by fmt.rs and parsed by the grammar + to_json_schema.rs is its '
 'spelled-out normal form normFragment (fragment_roundtrip): type leaves entity-or-common, parents with explicit Action type, an absent or '
 'HALF-EMPTY appliesTo the empty ApplySpec (the recorded defect, appliesTo_half_empty_lost), a context name a must-be-common reference; the '
 'hypotheses (identifier names, contexts that are records or names, non-reserved common-type and namespace names) are shown necessary. '
 'The BTreeMap collection of the parsed declarations is modelled after to_json_schema.rs (collectFragment): on fragments with the BTreeMap key '
 'invariant print -> parse -> duplicate checks -> collection is normFragment (fragment_roundtrip_collected), a repeated entity / action / common-type '
 'name is DuplicateDeclarations, a repeated namespace DuplicateNameSpaces, an entity type and a common type of one name are not a duplicate '
 '(collect_rejects_duplicates). fmt.rs refuses exactly on an entity/common name collision in a NAMED namespace or a non-record entity shape '
 '(toCedar_refuses_iff), and the two recorded rebinding defects are not refused (finding_clash_not_refused, finding_shadow_not_refused). Annotation '
 'maps print and re-read as themselves with an absent value turned into "" (annotations_roundtrip), also on every declaration of a namespace body '
 '(annotated_namespace_roundtrip) and of a whole fragment with annotated namespace blocks (annotated_fragment_roundtrip). '
 'The collection, the refusals and the annotated printer / parser are tied to the Rust code by checked correspondence as well (collect-frag in key '
 'order with the duplicate classes, to-cedar-checked with the two refusal classes, print-frag-a / parse-frag-a). '
 'Annotations on record attributes, lexing and everything else are NOT modelled: they are covered by the four-way differential run '
 'on the implementation (JSON -> schema vs JSON -> to_cedarschema -> schema, Cedar -> schema vs Cedar -> to_json_value -> schema, one further hop '
 'each, equality of ValidatorSchema plus identical policy/request/entity validation verdicts).',
 'proof over a hand-written model of type expressions and name resolution; the full statement (FullStatement) is not proved and is in fact violated '
 'by the implementation in three recorded corner cases (known_findings.jsonl: kinded references rebinding after translation, half-empty appliesTo '
 'dropped); correspondence is sampled (generators in harness/src/gen_schema.rs, gen_schema_text.rs)')
