"""Configuration of ./check C11: harness streams (name, n_quick, n_thorough), rule text, theorem names; MANIFEST texts."""
PROP = {'streams': [('c11', 800, 30000)],
 'definitional': False,
 'rule': 'one case = one generated schema (2-5 entity types incl. enumerated ones, memberOfTypes DAG, tags, 2-5 actions + groups, 0-2 namespaces, '
         'common types) loaded by the real ValidatorSchema, its conformant store and requests, and ~20 single-fault mutations (wrong type / missing '
         'required / undeclared attr at any depth in attrs, tags, context; undeclared tag; ancestor of non-permitted type; bad enum id as uid, '
         'nested, parent, principal, resource; undeclared type; undeclared / mismatching action; principal / resource type not applicable), each '
         'through every schema-taking entry point (16 of them, core and public API); non-trivial = every datum, distinct by fault tag + verdict + '
         'datum JSON',
 'theorems': ['typecheckValue_iff',
              'checkValue_iff',
              'checkValue_iff_needs_schematic',
              'checkEntity_iff',
              'checkContext_iff',
              'checkRequest_iff',
              'single_fault_rejected_wrong_kind',
              'single_fault_rejected_value_set',
              'single_fault_rejected_value_record',
              'single_fault_rejected_euid',
              'single_fault_rejected_euid_nested',
              'single_fault_rejected_entity',
              'single_fault_rejected_action',
              'single_fault_rejected_request'],
 'assumptions': ["the resolved ValidatorSchema is taken from Rust (schema parsing/resolution is C09's subject)",
                 'values are concrete: the unknown/residual branches of the Rust checkers accept unconditionally and are outside C11',
                 'an extension value is identified with the call of its constructor (its return type is its own extension type)']}

TEXT = ('Lean theorems over mirrors of the schema-conformance checkers (typecheck_restricted_expr_against_schematype, Type::typecheck_restricted_expr, '
 'validate_entity with attributes/ancestors/tags/enum ids/actions, validate_request with scope variables and context): each checker accepts exactly '
 'the data satisfying a declarative specification (InstanceOfType, ConformsEntity, ConformsContext, ConformsRequest), and every single-fault class '
 'of the statement falsifies the specification; tied to the code by a differential run over generated schemas, conformant data and single-fault '
 'mutations through all 16 schema-taking entry points, which are also compared with each other.',
 "proof over a hand-written model of the checkers on concrete values; the resolved schema is serialised from Rust's ValidatorSchema (schema "
 'construction not modelled); correspondence is sampled (generators in harness/src/gen_schema.rs)')
