"""Configuration of ./check C01: harness streams (name, n_quick, n_thorough), rule text, theorem names; MANIFEST texts."""
PROP = {'streams': [('c01', 1500, 60000)],
 'definitional': False,
 'rule': 'policy sets of 0-8 policies (permit/forbid x satisfied/unsatisfied/erroring x static/template-linked), all 6^n effect-outcome vectors n<=4 '
         'plus random sets; each run under 2 permutations, 2 id respellings, reversed entity insertion order, reused and fresh Authorizer; '
         'non-trivial = has >=1 erroring policy and both effects; distinct by canonical text',
 'theorems': ['allow_iff',
              'deny_otherwise',
              'errors_exact',
              'reasons_exact',
              'perm_invariant',
              'erroring_not_satisfied',
              'store_extensional',
              'rename_equivariant',
              'mirror_eq_spec'],
 'assumptions': ["per-policy evaluation is tied to the code by C02's correspondence"]}

TEXT = ("Lean theorems over the mirror of the authorizer's bucket loop + Response conversion (allow_iff, deny_otherwise, errors_exact, reasons_exact, "
 'perm_invariant, erroring_not_satisfied) for arbitrary policy lists/requests/stores; tied to the code by a differential run of the compiled model '
 'against Authorizer::is_authorized, plus the statement checked on the implementation under permutation, id respelling, store order and call '
 'history.',
 "proof over a hand-written model; correspondence is sampled (generators in harness/src/c01.rs); per-policy evaluation relies on C02's model")
