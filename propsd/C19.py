"""Configuration of ./check C19: harness streams (name, n_quick, n_thorough), rule text, theorem names; MANIFEST texts."""
PROP = {'streams': [('c19', 2000, 100000), ('c19h', 500, 20000), ('c19cli', 200, 5000), ('c19p', 1500, 50000)],
 'cli': True,
 'definitional': False,
 'rule': 'c19: stateless ffi::is_authorized (typed, _json, _json_str) vs Authorizer::is_authorized on API-parsed inputs, per case validate_request '
         'on and off, policies as one text | array | map id->text | EST JSON, templates + links, schema none | JSON | Cedar, conformant and 6 kinds '
         'of non-conformant requests, 5 kinds of corrupted policy documents; every 4th case also ffi validate / '
         'check_parse_{policy_set,schema,entities,scope_variables,context} / format / policy,template,policy-set-parts,schema (incl. resolved types) '
         'conversions vs the API (converted documents compared after re-parsing). c19h: histories of 1-10 preparse_policy_set / preparse_schema (30% '
         'invalid documents, 2-3 + 2 names, re-registration) / stateful_is_authorized calls; each stateful answer vs the stateless FFI and the API '
         "on the latest successfully registered documents, and the whole history vs the Lean model (used document tags read off probe policies' "
         'erroring ids). c19cli: the cedar binary built from /repo: authorize (cedar|json policies, links file, schema cedar|json, '
         'request-json|flags, request-validation on/off, -v reasons), validate, check-parse, translate-policy, translate-schema, format: exit status '
         '+ printed decision/output vs API. non-trivial = successful authorizations (c19, distinct by policies+context+flag), histories with a '
         'stateful read after a re-registration or a failed preparse over an existing entry (c19h), every CLI run (c19cli). '
         'c19p (harness/src/c19_pols.rs): FFI policy sets as JSON through serde + the real ffi::PolicySet::parse vs the Lean mirror `assemble` '
         '(op ffipols): staticPolicies absent | concatenated text of 0-3 statements (15% templates, damaged text) | array | id map of 0-3 documents, '
         'templates map 0-3, 0-3 links; documents = Cedar text | EST JSON of a static policy or a template in either position, garbage text / JSON, '
         'two policies in one document; ids from a pool of 6 incl. the default ids policy0 / JSON policy (collisions between static ids, template ids, '
         'link ids) + fresh link ids; link values fitting / missing / extra / not an entity uid; dangling and static template ids; 40% of the cases '
         'well-formed throughout. impl = (ok listing of the resulting PolicySet, as the C08 pset op) | (errs sorted classes of the miette reports by '
         'the message prefixes of utils.rs + PolicySetError variant); request = the parsers\' verdicts on the same documents. Implementation-only: the '
         'parsers assign the id they are given, Template::parse refuses slot-less policies. non-trivial (c19p) = distinct requests with >= 2 '
         'documents + links',
 'theorems': ['cache_refines_latest',
              'every_reply_refines_latest',
              'failed_preparse_changes_nothing',
              'reregistration_overwrites',
              'stateful_calls_change_nothing',
              'exit_code_table',
              'authorize_exit_reflects_response',
              'validate_exit_table',
              'assemble_eq_api_history',
              'assemble_ok_iff',
              'assemble_inv',
              'assemble_authorize',
              'assemble_ids',
              'assemble_ids_collision'],
 'assumptions': ['the cache theorems are about the cache/lookup layer with the two document parsers and the common authorization tail as opaque '
                 'parameters; agreement of the rest of input assembly (schema-directed parsing, request validation, '
                 'validation error ids, formatting, conversions) with the Rust API is checked by the differential run only',
                 'policy-set assembly (assemble_*): documents enter the model as the parser\'s verdict (Option body / Option template / Option '
                 'item list / Option slot values): the text and EST parsers (C05), their honouring of the id argument, Template::parse refusing '
                 'slot-less policies (hypothesis TemplatesHaveSlots of assemble_inv / assemble_ids) and serde\'s JSON decoding are trusted; '
                 'HashMap iteration order is a parameter (the theorems hold for every order); for a concatenated text the model adds the '
                 'numbered static policies with the API add (from_str uses the core add_static: equal on these sets by C08 api_add_is_add_static)',
                 'cedar-wasm glue (wasm-bindgen/tsify wrappers) is not executable here; the Rust functions it wraps are what is run',
                 'the caches are thread-local: histories are single-threaded, one fresh name prefix per history'],
 'trusted': ["/repo's cedar-policy-cli built with default features (no partial-eval/tpe: exit code 4 'Unknown' is in the table but not exercised)"]}

TEXT = ("Lean theorems over the mirror of the FFI's stateful layer (two name->parsed-document caches, preparse_policy_set / preparse_schema insert on parse "
 'success only, stateful_is_authorized = lookup, missing name => Failure, then the stateless tail), with the document parsers and the authorization '
 'tail as arbitrary parameters: cache_refines_latest (after any call history a stateful call answers what the stateless call answers on the latest '
 "successfully registered documents; induction over the history against a 'last acknowledged write' spec), every_reply_refines_latest, "
 'failed_preparse_changes_nothing, reregistration_overwrites, stateful_calls_change_nothing, and the CLI exit-code table (exit_code_table, '
 'authorize_exit_reflects_response, validate_exit_table). Policy-set assembly IS a model theorem: Cedar/FfiPolicies.lean mirrors '
 'ffi::PolicySet::parse (static policies as one text | list | map, templates, template links; which errors are collected and which abort) on top of '
 'the C08 model of cedar_policy::PolicySet, and assemble_eq_api_history / assemble_ok_iff prove it equals the explicit API history add* ++ '
 'add_template* ++ link* from the empty set with the assigned ids (policy{n} by position | default id | map key), succeeding iff every document parses '
 'and every call succeeds, with the exact error list otherwise; assemble_inv (C08 invariants), assemble_ids / assemble_ids_collision (ids exactly the '
 'assigned ones, every collision reported), assemble_authorize; the assembly model is tied to the real ffi::PolicySet::parse on every run by the ffipols lines (stream c19p: 1500 quick / 50000 thorough generated FFI policy sets in every shape, reply = resulting set listing or sorted error classes, diffed against the model run on the real parsers\' verdicts). That the FFI and the CLI assemble their OTHER inputs as the Rust API does (decision, '
 'determining policies, erroring ids, validation error ids, converted documents, in every input shape) is not a model theorem: it is checked by the '
 'differential run only (ffi vs API, stateful vs stateless, cedar binary vs API), and cache histories are diffed against the model.',
 'proof covers the cache/lookup refinement, the exit-code table and policy-set assembly (parsers trusted); the rest of input assembly vs the API is sampled differential testing '
 '(harness/src/c19.rs); policy-set assembly model vs ffi::PolicySet::parse diffed line by line (harness/src/c19_pols.rs); cedar-wasm glue not executable here; CLI built with default features')
