"""Configuration of ./check C13: harness streams (name, n_quick, n_thorough), rule text, theorem names; MANIFEST texts."""
PROP = {'streams': [('c13', 2000, 60000)],
 'definitional': False,
 'rule': "1-6 policies from c01's generator (scope forms incl. is/==/in, template links, forced sat/unsat/error and random typed conditions) x "
         'requests with every subset of {principal, resource, context} unknown (typed/untyped entries, missing context, context attributes that are '
         'Unknown nodes, unknown("x") calls, unknowns nested in sets/records/constructor calls) x entity attributes/tags with unknowns x complete '
         'and .partial() stores; per case 3 (quick) / 8 (thorough) substitutions of values of the declared kinds; each substitution: reauthorize '
         '(store with unknown attributes kept, and substituted) vs fresh concrete is_authorized vs model; non-trivial = at least one residual '
         'policy; distinct by canonical request+policies',
 'theorems': ['table_sound', 'pinterp_sound_partial', 'callDRT_every', 'drt_of_canon', 'pinterp_sound_subst', 'pinterp_sound_partial2',
              'pinterpSoundFull_needs_cover', 'reauthorize_eq_fresh', 'reauthorize_eq_fresh_frag', 'reauthorize_eq_fresh_frag2',
              'pinterp_sound_store', 'pinterp_sound_store_reauth', 'pinterp_sound_store_reauth_direct', 'second_round_needed', 'direct_unknown_one_round',
              'missing_unbound_counterexample', 'partial_definite_sound', 'partial_authorization_sound', 'pinterp_sound_store_on',
              'pinterp_sound_store_reauth_on', 'partial_definite_sound_on', 'partial_authorization_sound_on', 'restricted_eval_sound',
              'concretize_entry_gives_conc', 'context_substitute_gives_completes', 'reauthorize_eq_fresh_on',
              'partial_authorization_sound_direct', 'concretize_request_sound', 'partial_authorization_sound_req',
              'partial_authorization_sound_direct_req', 'unknown_call_counterexample', 'unknown_call_sound_partial'],
 'assumptions': ["error classes are not compared between residual evaluation and concrete evaluation (the property says 'errors')",
                 'unknowns created by a partial store for missing entities are substituted by the entity itself; the completed store is the full '
                 'store; in the relativised (_on) theorems this is required only for missing entities whose uid is mentioned by the policies, the '
                 'request, the mapper, the slot environments or an attribute / tag value of the partial store (PS.mentioned, an over-approximation '
                 'of the uids dereferenced)',
                 'an unknown nested inside an entity attribute value is only discovered by the reauthorize round that first dereferences the entity '
                 "(documented as 'undiscovered unknowns' in Expr::substitute); a second round with the same substitution is allowed before comparing",
                 'policies calling unknown("x") themselves are only diffed against the model (no concrete counterpart exists: '
                 'unknown_call_counterexample shows reauthorize = Allow vs fresh concrete = Deny; the sound reading is the desugaring of the '
                 'call to the unknown node, UnknownCallSoundFull, proved only for the call itself)',
                 'a residual context lies in the fragment (PS.CtxFrag: the substitution defines its unknowns with canonical values of the '
                 'annotated types, distinct keys) — the side condition under which concretize_request = ok yields Concretizes2']}

TEXT = ('Lean theorems over the mirror of partial_interpret (residual arms, best-effort fall-back, projectable records, typed-unknown short circuits, '
 'partial stores, unknown(), split, unknowns mapper), PartialResponse (decision table, may/must determining, reauthorize, concretize_request): '
 'table_sound (full: every completion of the residual policies); pinterp_sound_subst (the evaluate-after-substitute form, by induction on the '
 'recursion budget, on the fragment Frag2: unknown nodes in the expression, all unary and binary operators incl. in/getTag/hasTag on a complete '
 'store, ./has on anything incl. record constructors (projection arm of get_attr re-interpreting a residual component), like, is, set and record '
 'constructors with the split semantics, every extension function — the print/parse round trip of the canonical constructor call is proved for '
 'decimal, ip (v4 and v6), datetime, duration: callDRT_every); pinterp_sound_partial / pinterp_sound_partial2 (the reauthorize form: the '
 'residual re-interpreted with the mapper on the concretised request); reauthorize_eq_fresh (given residual soundness) and '
 'reauthorize_eq_fresh_frag / _frag2 (composed, no soundness hypothesis); pinterp_sound_store / pinterp_sound_store_reauth (both forms for '
 'a partial store completed by the concrete store under the substitution — unknown attribute / tag values, direct or nested, .partial() '
 'stores with the uid-named unknowns bound — and residual contexts; the reauthorize form in one round on the substituted store, and on the '
 'unsubstituted store exactly when the residual attributes are direct unknowns: pinterp_sound_store_reauth_direct); second_round_needed / direct_unknown_one_round / '
 'missing_unbound_counterexample (kernel-checked: on the unsubstituted store a nested unknown needs a second reauthorize round, a direct '
 'unknown attribute does not, a direct unknown tag does); partial_definite_sound / partial_authorization_sound (policy sets with static and '
 'template-linked policies: a definite partial decision is the concrete decision, must ⊆ determining ⊆ may, and one reauthorize round on the '
 'substituted store equals the fresh concrete authorization — table_sound and reauthorize_eq_fresh with their hypotheses discharged); '
 'pinterp_sound_store_on / pinterp_sound_store_reauth_on / partial_definite_sound_on / partial_authorization_sound_on (the same for '
 '.partial() stores with the binding hypothesis relativised to the finite list of mentioned uids, by a closed-world invariant on every value '
 'and residual of the first pass; non-vacuous: an example where the unrelativised hypothesis is false); '
 'partial_authorization_sound_direct (one reauthorize round on the UNSUBSTITUTED store equals the fresh concrete authorization when every '
 'residual attribute is a direct unknown and no tag is residual; PolicyAgreesOn / reauthorize_core_on generalise the policy-level agreement over '
 'the second-pass store); concretize_request_sound / partial_authorization_sound_req / _direct_req (concretize_request = ok as the only request '
 'hypothesis: the do-block mirroring PartialResponse::concretize_request yields Concretizes2); unknown_call_counterexample (kernel-checked: '
 'for a policy calling unknown("x") reauthorize answers Allow while the concrete authorization of the policy answers Deny — the call becomes '
 'an unknown node in the first pass, is an error concretely and is never substituted; the fragment must exclude such calls) and '
 'unknown_call_sound_partial (the call itself agrees with its desugaring); '
 'pinterpSoundFull_needs_cover (the full statement needs a substitution '
 'that defines every typed unknown); tied to the code by a differential run (partial observable and reauthorized responses), plus the statement '
 'itself evaluated on the implementation for sampled substitutions.',
 'proof over a hand-written model; pinterp soundness is proved on a fragment (full statement kept as a Prop; missing: for .partial() stores the set of uids that must be present or bound '
 'over-approximates the uids actually dereferenced, the '
 'residual attributes of the store specified '
 'through evaluate-after-substitute rather than the restricted evaluator, calls of unknown() in the policy text (refuted as stated; the '
 'desugared statement UnknownCallSoundFull is kept as a Prop, proved for the call itself only); record constructors are '
 'assumed to have distinct keys and values to be canonical as Rust holds them); correspondence sampled (harness/src/c13.rs); residual shapes never compared')
