"""Configuration of ./check C13: harness streams (name, n_quick, n_thorough), rule text, theorem names; MANIFEST texts."""
PROP = {'streams': [('c13', 2000, 60000)],
 'definitional': False,
 'rule': "1-6 policies from c01's generator (scope forms incl. is/==/in, template links, forced sat/unsat/error and random typed conditions) x "
         'requests with every subset of {principal, resource, context} unknown (typed/untyped entries, missing context, context attributes that are '
         'Unknown nodes, unknown("x") calls, unknowns nested in sets/records/constructor calls) x entity attributes/tags with unknowns x complete '
         'and .partial() stores; per case 3 (quick) / 8 (thorough) substitutions of values of the declared kinds; each substitution: reauthorize '
         '(store with unknown attributes kept, and substituted) vs fresh concrete is_authorized vs model; non-trivial = at least one residual '
         'policy; distinct by canonical request+policies',
 'theorems': ['table_sound', 'pinterp_sound_partial', 'reauthorize_eq_fresh', 'reauthorize_eq_fresh_frag'],
 'assumptions': ["error classes are not compared between residual evaluation and concrete evaluation (the property says 'errors')",
                 'unknowns created by a partial store for missing entities are substituted by the entity itself; the completed store is the full '
                 'store',
                 'an unknown nested inside an entity attribute value is only discovered by the reauthorize round that first dereferences the entity '
                 "(documented as 'undiscovered unknowns' in Expr::substitute); a second round with the same substitution is allowed before comparing",
                 'policies calling unknown("x") themselves are only diffed against the model (no concrete counterpart exists)']}

TEXT = ('Lean theorems over the mirror of partial_interpret (residual arms, best-effort fall-back, projectable records, typed-unknown short circuits, '
 'partial stores, unknown(), split, unknowns mapper), PartialResponse (decision table, may/must determining, reauthorize, concretize_request): '
 'table_sound (full: every completion of the residual policies), pinterp_sound_partial (fragment, by induction: all unary and binary operators incl. in/getTag/hasTag on a complete store, set and record constructors and extension-function calls with the split semantics, attribute access (not directly on a record constructor), like, is), reauthorize_eq_fresh (given '
 'residual soundness); tied to the code by a differential run (partial observable and reauthorized responses), plus the statement itself evaluated '
 'on the implementation for sampled substitutions.',
 'proof over a hand-written model; pinterp soundness is proved on a fragment (full statement kept as a Prop; missing: ./has directly on a record constructor, the '
 'print/parse round trip of the extension constructors (side condition CallDRT), unknowns in the policy text, residual contexts, partial stores); correspondence sampled '
 '(harness/src/c13.rs); residual shapes never compared')
