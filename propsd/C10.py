"""Configuration of ./check C10: harness streams (name, n_quick, n_thorough), rule text, theorem names; MANIFEST texts."""
PROP = {'streams': [('c10', 500, 20000)],
 'definitional': False,
 'rule': 'per world: gen.rs store + context (all value shapes), a conforming store for a hand-written validator schema, 6 untyped values (nested '
         'sets/records, entity refs, 4 extension types in constructor and canonical spellings, strings needing escapes, non-BMP, i64 extremes, empty '
         'sets, record keys that look like escapes), 5 (type, instance) pairs each rendered explicit and 2x with a random implicit/explicit choice '
         'per node, single-point mutations of every document, fixed probe documents at entity/extension positions, open/closed record types; '
         'non-trivial = round-tripped value / document with >=1 implicit form (distinct by canonical text)',
 'theorems': ['json_roundtrip',
              'json_roundtrip_with',
              'json_roundtrip_noIp',
              'json_roundtrip_rustExt',
              'toJson_refuses_iff',
              'toJson_error_is_reserved',
              'typed_agrees_explicit',
              'typed_forms_parse_alike',
              'typedAgreesExplicit_unrestricted_false',
              'typed_agrees_explicit_scalar_partial',
              'typed_agrees_explicit_entity_partial',
              'typed_agrees_explicit_ext_partial',
              'entity_roundtrip',
              'store_roundtrip',
              'extRoundTrip_decimal',
              'extRoundTrip_duration',
              'extRoundTrip_datetime',
              'extRoundTrip_ip_iff',
              'extRoundTrip_ip_v4',
              'extRoundTrip_ip_v6',
              'extRoundTrip_ip_v6_mapped_false',
              'extRoundTrip_ip_v6_iff',
              'extRoundTrip_of_rustExt'],
 'assumptions': ['extension values are compared by represented value; the implementation serialises the constructor call it stored, the model the '
                 "canonical_repr (the harness re-renders values canonically for the `to` comparison and parses the implementation's own spelling for "
                 '`of`)',
                 'ExtRoundTrip for ipaddr (Display of std::net addresses parses back through ip()) is proved for every IPv4 value and every '
                 'IPv6 value that is not IPv4-mapped (extRoundTrip_ip_v4 / _v6; json_roundtrip_rustExt has no hypothesis left); it is proved '
                 'FALSE for IPv4-mapped IPv6 addresses (extRoundTrip_ip_v6_mapped_false: Display prints ::ffff:a.b.c.d/p, which ip() refuses) '
                 '- a recorded observation; their canonical_repr is not on the JSON path of the implementation, which serialises the stored '
                 'constructor call',
                 'error classes, not messages; object member order and set element order are canonicalised on both sides',
                 'typed_agrees_explicit is proved for all value shapes and nesting depths (typed_agrees_explicit : TypedAgreesExplicitClosed) '
                 'under the hypothesis ClosedType: record types are closed and their attribute maps key-sorted BTreeMaps; the statement without '
                 'that hypothesis (`TypedAgreesExplicit`) is proved false (open record types drop undeclared members; checked example for a '
                 'twice-declared attribute); the three `_partial` theorems remain as facts beyond conforming values (all documents / any string)',
                 "transitive closure of the parsed parents is C04's subject: store_roundtrip is stated on the parent lists written (= all "
                 'ancestors)']}

TEXT = ('Lean theorems over mirrors of CedarValueJson (de)serialisation, from_value/from_expr with check_for_reserved_keys, into_expr + restricted '
 'evaluation and ValueParser::val_into_restricted_expr (json_roundtrip, toJson_refuses_iff, typed_agrees_explicit, entity/store round trip); tied to '
 'the code by a differential run (to / of / oftyped / ctx / ent ops) against CedarValueJson, ValueParser, Context, Entity, Entities and '
 'EntityJsonParser, plus the statement itself checked on the implementation (deep_eq after round trip, schema-based loading = data + schema actions, '
 'implicit-with-schema = explicit-without-schema, reserved keys refused).',
 "proof over a hand-written model; correspondence sampled; serde's untagged-enum behaviour is re-defined in the model; ipaddr text round trip is "
 'proved for IPv4 and non-IPv4-mapped IPv6 values and proved false for IPv4-mapped IPv6 values')
