"""Configuration of ./check C02: harness streams (name, n_quick, n_thorough), rule text, theorem names; MANIFEST texts."""
PROP = {'streams': [('c02', 3000, 400000)],
 'definitional': True,
 'rule': 'operator x operand-kind grid (every unary/binary operator on every pair of ~35 operand kinds) plus typed random expressions with 6% '
         'ill-typed nodes; each evaluated via text parse, generated AST, EST JSON, eval_expression, when- and unless-clause through is_authorized; '
         'non-trivial = >=4 subexpressions; distinct by canonical text+result',
 'theorems': ['like_correct', 'and_short', 'or_short', 'arith_checked', 'eq_total', 'set_order_dup_insensitive'],
 'assumptions': ['error classes, not messages, are compared', "stored ancestor sets are taken from the store as built (closure is C04's subject)"]}

TEXT = ("Lean theorems over the mirror of the evaluator's value paths (short-circuiting, left-to-right, checked arithmetic, total ==, beq is an "
 'equivalence, set construction order/duplicate-insensitive, contains/containsAll/containsAny/isEmpty, in/has/getAttr/is, like = declarative matcher '
 'for all patterns and strings); the model is the definition: any disagreement with Evaluator::interpret on the generated stream is a failing input.',
 'proof over a hand-written model; correspondence sampled through 6 routes (text, AST, EST, eval_expression, when, unless); error classes only')
