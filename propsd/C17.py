"""Configuration of ./check C17: harness streams (name, n_quick, n_thorough), rule text, theorem names; MANIFEST texts."""
PROP = {'streams': [('c17', 1000, 100000)],
 'definitional': False,
 'rule': 'one case = one generated schema world (gen_schema.rs) with a conformant store (accepted by Entities::from_entities(.., schema)), a strictly '
         'valid policy set (0-2 gen_typed.rs policies + 2-5 manifest-stressing policies: attribute chains, has-guards, in / contains over sets of '
         'entities, entity in entity, == between records / record literals containing entities, record literals projected and dereferenced, '
         'if-then-else producing entities that are dereferenced, entity literals as roots, set literals of entities, action in; 12% as linked '
         'templates) and 10 requests accepted by Request::new(.., schema); plus 25 fixed probe sets x 48 requests.  Per request: '
         'is_authorized(slice_entities(manifest, store, request)) vs is_authorized(store) on decision, reasons, erroring ids, with the cause of any '
         'difference classified per policy (typed False in the request environment / template slot, confirmed by inlining the slot value / '
         'UNEXPLAINED); per policy and request type the manifest of the singleton set vs the model analysis of the typed AST; per world 3 slices vs '
         'the model slicer, and the model slice vs the specification assumed by the soundness theorem; non-trivial = distinct (policy, request type, '
         'non-empty trie) and distinct (trie, sliced store)'
         '; 1/3 of the worlds are the chain worlds of gen_schema_chain.rs with dense stores; additional stress family in-prefix: several `in` tests on one left entity whose right-hand sides are prefix-related attribute paths (x in r.a.b || x in r.a, both orders, &&, if, set forms x in [r.a.b, r.a], three-step prefixes); plus 14 prefix-path probe sets over a folder tree (User/Doc in Folder, Folder.parent) x 32 requests',
 'theorems': ['slice_monotone',
              'slice_preserves_requested',
              'manifest_sound_partial',
              'response_sliced_partial',
              'decision_sliced_partial',
              'slicer_meets_spec',
              'slice_is_substore',
              'slicer_needs_agreeing_annotations',
              'slice_monotone_entities_needs_flags',
              'slice_monotone_store',
              'slice_monotone_store_pure',
              'manifest_union_grows',
              'manifest_sound_sliced',
              'response_sliced_static',
              'decision_sliced_static',
              'full_statement_of_fragment',
              'manifest_sound_valid',
              'decision_sliced_valid',
              'manifest_sound_valid_accepted',
              'manifest_sound_valid_lit',
              'decision_sliced_valid_lit',
              'ctxWF_not_from_conformance',
              'typed_false_environment_breaks_slicing'],
 'assumptions': ['manifest_sound_partial / response_sliced_partial are PROVED ONLY FOR THE FRAGMENT `Cedar.Manifest.InFrag` (literals, variables, . and '
                 'has chains through records and entities, && || !, if (also producing entities/records that are then dereferenced), unary -, isEmpty, '
                 '== < <= + - *, in (with the ancestors-required tries), contains containsAll containsAny, like, is) under the side condition SafeOps (operands of binary operators are not records in the full store - implied by '
                 'non-record operand types + type soundness, C03) and for requests whose context has unique keys (CtxWF); == / contains on records, '
                 'record / set literals, extension calls are covered by the differential run and the implementation-level property only',
                 'that the model slicer meets the slice specification (SubStore + CoverRoots) is PROVED (slicer_meets_spec) for tries with unique '
                 'children keys and is_entity_type annotations that agree with the data; both are proved for manifests (manifestOfExpr_wf, '
                 'toTypedRoots_wf, flagsRoots_typed, coverRoots_untyped) under: record types with unique attribute names (TypesUK) and data that '
                 'conforms to the schema as far as the tries look (ConfRoots); BOTH ARE NOW DERIVED from the C03 / C11 notions '
                 '(manifest_sound_valid): ConfRoots from C11 conformance (confRoots_all: ConformsRequest + StoreConforms, schema SchemaClosed = '
                 'SchemaWF3 + no open entity types), SafeOps in its lazy form Sim from C03 type soundness (sim_typed), TypesUK from typeOf_cn; '
                 'manifest_sound_valid covers the core fragment plus extension function calls (FragE), is about the ORIGINAL policies and the typed ASTs typedAst (annotation with typeOf types + the '
                 'short-circuit transformations of typecheck.rs); typedAst is a specification-level definition written from typecheck.rs, '
                 'NOT diffed against the typed ASTs Rust produces (those are what the correspondence run feeds the analysis model); remaining '
                 'side conditions of manifest_sound_valid: NoRecOps (== not on records, contains not looking for a record - syntactic on the '
                 'typed AST) and CtxWF (context keys unique); the specification is still also checked on every sampled slice (driver op mspec)',
                 'manifest_sound_valid_lit REMOVES NoRecOps AND ADDS RECORD / SET LITERALS (FragL: FragE + set literals + record literals with distinct keys; '
                 'VRel extends PCover to WrappedAccessPaths::RecordLiteral / SetLiteral, SimL extends Sim, full_eq: where full_type_required is requested the slice '
                 'holds the whole value): its hypotheses instead of NoRecOps / CtxWF are SortedReq req and SortedStore es (context and attribute records key-sorted, '
                 'recursively through records: Rust Value records are BTreeMaps; the model Value is an association list and Value.beq on records is positional); '
                 'that the slice is key-sorted is proved (sortedStore_slice); CtxWF does not follow from ConformsRequest alone (ctxWF_not_from_conformance)',
                 'slice_monotone_store needs NO well-formedness or conformance hypothesis, only rootsLe + FlagsAgreeRoots (weaker than equal flags: the larger trie may be '
                 'annotated entity-typed only where the smaller one is; ancestors tries need no flag condition); manifest_union_grows assumes rootsLe t0 t0 for the un-annotated trie '
                 'of ps (holds for tries with unique root and ancestors-trie keys - Rust hash maps; checkable with rootsLeB; NOT derived from manifestOfExpr here, RootsWF covers children keys only)',
                 'the typed AST of each policy per request environment, the resolved schema and to_typed input are taken from Rust '
                 '(Typechecker::typecheck_by_request_env, ValidatorSchema); to_typed is mirrored, diffed and part of the end-to-end proof (response_sliced_static)',
                 'the analysis rejects policies with tags (UnsupportedCedarFeature): outside the property by construction, counted '
                 '(manifest_error:unsupported-feature)',
                 'KNOWN FINDINGS (known_findings.jsonl): the property FAILS on the implementation (a) in request environments where the policy is typed '
                 'False (nothing is requested although evaluating the policy reads data: erroring policies differ; with a negated statically-true test '
                 'such as !(action in Action::"group") the DECISION flips from Deny to Allow) and (b) for template-linked policies (slots are analysed '
                 'as the request variable: ancestors / identity of the slot value are not requested; a forbid with principal in ?principal is lost)']}

TEXT = ('Lean model (Cedar/Manifest.lean) mirroring entity_manifest.rs + analysis.rs (entity_manifest_from_expr on the typed AST, WrappedAccessPaths, '
 'full_type_required, ancestors tries), type_annotations.rs (to_typed) and loader.rs/slicing.rs (load_entities with EntitySlicer: slice_entity, slice_val, '
 'pruning of entity dereferences, merge of slices, compute_ancestors_request, load_ancestors). PROVED: slicing is monotone in the trie (attributes, '
 'requested ancestors); every listed path survives slice_val; and, FOR THE CORE FRAGMENT ONLY (InFrag: literals, variables, ./has chains through records '
 'and entities, && || !, if producing entities that are dereferenced, unary -, isEmpty, == < <= + - *, in with ancestors tries, contains*, like, is; '
 'binary operands not records), soundness of the analysis: every store that is a '
 'sub-store of the full store and covers the trie computed by manifestOfExpr evaluates the expression as the full store does, lifted to the whole '
 'authorizer response (decision, reasons, erroring policies) and via C01 to the decision characterisation; THE SLICER MEETS THAT SPECIFICATION '
 '(slicer_meets_spec: sub-store + cover for slice_entity/slice_val on pruned tries, the loading loop, merge of slices, ancestors), composed with '
 'to_typed and the analysis into response_sliced_static: for static policies in the fragment the response over sliceStore(manifest) equals the '
 'response over the full store, for data conforming to the schema as far as the tries look (ConfRoots); full_statement_of_fragment reduces the '
 'full statement (exclusions: typed-False environments, templates, tags, unknowns, slicer failure exits) to fragment coverage + the C03/C11 links. '
 'manifest_sound_valid discharges both links for the C03 typechecker model and the C11 conformance notions (static policies of the fragment accepted by checkEnv strict and not typed False, conformant request/store: authorization of the original policies over sliceStore(manifest of the typed ASTs) equals authorization over the full store; the typed AST includes the short-circuit transformations of the typechecker). Extension function calls are covered by manifest_sound_valid (Sim.call1 / call2). manifest_sound_valid_lit extends this to RECORD AND SET LITERALS (dereferenced, as operands, nested) and to == / contains / containsAll / containsAny ON RECORDS (no NoRecOps side condition): where the analysis requests the full type the slice holds the whole value (full_eq), for key-sorted contexts and stores (SortedReq, SortedStore: BTreeMap invariant; the sortedness of the slice is proved). STORE-LEVEL MONOTONICITY is proved (slice_monotone_store): rootsLe t t2 + agreeing is_entity_type annotations (FlagsAgreeRoots: at corresponding nodes t2 is entity-typed only where t is) => the store sliced by t is a sub-store of the store sliced by t2 (entities, attributes, ancestors); the annotation condition cannot be dropped (slice_monotone_entities_needs_flags); manifest_union_grows: the manifest entry of ps ++ [p] is >= the entry of ps with agreeing annotations, so adding a policy only grows the slice (hypothesis: the un-annotated trie of ps is self-comparable, i.e. unique root / ancestors-trie keys, not derived from the analysis). The statement on the implementation (authorization over slice_entities == over the full store) is searched on generated '
 'schema worlds with manifest-stressing policy families; two classes of genuine failures are recorded as known findings (typed-False environments; '
 'template slots).',
 'proof over a hand-written model for a stated fragment (analysis + to_typed + slicer + authorizer composed); the remaining constructs '
 'are sampled (generators in harness/src/c17.rs, gen_typed.rs, gen_schema.rs); typed ASTs and the resolved schema are serialised from Rust; the property '
 'does not hold on the unchanged tree for the two recorded classes of inputs')
