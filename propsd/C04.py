"""Configuration of ./check C04: harness streams (name, n_quick, n_thorough), rule text, theorem names; MANIFEST texts."""
PROP = {'streams': [('c04', 4000, 400000)],
 'definitional': True,
 'rule': 'histories of 1-8 operations (from_entities / add_entities / upsert_entities / remove_entities; ComputeNow, some EnforceAlreadyComputed on '
         'closed and unclosed inputs, AssumeAlreadyComputed only as last op) over a pool of 4-8 uids: random DAGs, diamonds, dangling parents, '
         'cycles of length 1-5, identical and conflicting duplicates inside one batch, alternative paths around a removed/replaced node, several '
         'nodes of one chain replaced/removed in one batch; plus exhaustively every parent graph on <=3 uids (each uid absent or present with any '
         'parent subset, 729 graphs) x every single add/upsert/remove (thorough: half of all 2-op histories on 3 uids and single ops on 4 uids); '
         "after each op: ok/error kind, every record's sorted parents and ancestors (model vs impl), and on the implementation alone ancestors / "
         'is_descendant_of / `e in a` via the evaluator / is_ancestor_of / `principal in X` via is_authorized on all pairs against a reachability '
         'oracle over a harness-maintained spec parent graph, rejected <=> cyclic or conflicting duplicate, enforce-accepted => closed and acyclic; '
         'non-trivial = >=2 ops and >=1 accepted; distinct by request text',
 'theorems': ['enforce_exact',
              'enforce_reach',
              'from_enforce_closed',
              'closure_correct_partial',
              'repair_correct_partial',
              'repair_rejects_only_cycles',
              'add_inv_partial',
              'remove_inv',
              'upsert_inv_partial',
              'op_preserves_partial',
              'history_inv_partial',
              'in_iff_reach',
              'in_iff_reach_history'],
 'assumptions': ["compute_tc's SCC internals (cyclic_tc) are modelled by their contract (saturation to a fixpoint), not mirrored",
                 'HashMap/HashSet iteration order is modelled by list order; observables are compared sorted',
                 'the wrapped TcError is private: its kind is read from the Debug form (HasCycle / MissingTcEdge)',
                 "is_ancestor_of(a, a) is false for a present entity although documented 'same semantics as b in a' (counted, not failed: the "
                 'reflexive case is only checked for `in`)']}

TEXT = ("Lean theorems over the mirror of the entity store's hierarchy maintenance (from/add/upsert/remove_entities with the three TCComputation modes, "
 'update_entity_map/deep_eq, the touched-set bookkeeping and stale-edge stripping, repair_tc + add_ancestors DFS, enforce_tc_and_dag): '
 'enforce_exact, repair_tc exact on acyclic graphs and rejecting only real cycles, the store invariant (ancestors = Reach+ over direct-parent links, '
 'acyclic, parents/indirect disjoint) preserved by the operations, history induction, `in` = reflexive reachability; the model+spec define '
 'reachability: any disagreement with Entities::{from,add,upsert,remove}_entities on generated histories (random + exhaustive small scope) is a '
 'failing input.',
 'proof over a hand-written model; remove_entities is proved at full strength (any uid list), add_entities for any batch and upsert_entities for '
 "one-entity batches on acyclic results plus soundness of rejection; cyclic_tc's SCC internals are modelled by contract; completeness of cycle "
 'detection, multi-entity upsert batches and the compute_tc contract are stated in full (defs ...Full / named residual hypotheses of '
 'history_inv_partial) but only checked by the correspondence; correspondence is sampled + exhaustive on <=3 uids')
