"""Configuration of ./check C04: harness streams (name, n_quick, n_thorough), rule text, theorem names; MANIFEST texts."""
PROP = {'streams': [('c04', 4000, 400000)],
 'definitional': True,
 'rule': 'histories of 1-8 operations (from_entities / add_entities / upsert_entities / remove_entities; ComputeNow, some EnforceAlreadyComputed on '
         'closed and unclosed inputs, AssumeAlreadyComputed only as last op) over a pool of 4-8 uids: random DAGs, diamonds, dangling parents, '
         'cycles of length 1-5, identical and conflicting duplicates inside one batch, alternative paths around a removed/replaced node, several '
         'nodes of one chain replaced/removed in one batch, upsert batches naming one uid (present, or new) two or three times interleaved with '
         'overwrites of its descendants (regression family of the fixed stale-ancestor defect: must produce no failure); plus exhaustively every parent graph on <=3 uids (each uid absent or present with any '
         'parent subset, 729 graphs) x every single add/upsert/remove (thorough: half of all 2-op histories on 3 uids and single ops on 4 uids); '
         "after each op: ok/error kind, every record's sorted parents and ancestors (model vs impl), and on the implementation alone ancestors / "
         'is_descendant_of / `e in a` via the evaluator / is_ancestor_of / `principal in X` via is_authorized on all pairs against a reachability '
         'oracle over a harness-maintained spec parent graph, rejected <=> cyclic or conflicting duplicate, enforce-accepted => closed and acyclic; '
         'non-trivial = >=2 ops and >=1 accepted; distinct by request text',
 'theorems': ['enforce_exact',
              'enforce_reach',
              'from_enforce_closed',
              'closure_correct_partial',
              'repair_correct_partial',
              'repair_rejects_only_cycles',
              'add_inv_partial',
              'remove_inv',
              'upsert_inv_partial',
              'op_preserves_partial',
              'history_inv_partial',
              'in_iff_reach',
              'in_iff_reach_history',
              'from_preserves',
              'accepted_acyclic',
              'repair_correct',
              'add_inv',
              'upsert_multi_repeated_uid_counterexample',
              'upsert_multi_preserves_refuted',
              'upsert_apply_inv',
              'upsert_dedup_nodup',
              'upsert_dedup_spec',
              'upsert_fix_conservative',
              'upsert_inv',
              'upsert_multi_preserves',
              'op_preserves',
              'history_inv',
              'history_inv_full',
              'in_iff_reach_history_full'],
 'assumptions': ["compute_tc's SCC internals (cyclic_tc) are modelled by their contract (saturation to a fixpoint), not mirrored",
                 'HashMap/HashSet iteration order is modelled by list order; observables are compared sorted',
                 'the wrapped TcError is private: its kind is read from the Debug form (HasCycle / MissingTcEdge)',
                 "is_ancestor_of(a, a) is false for a present entity although documented 'same semantics as b in a' (counted, not failed: the "
                 'reflexive case is only checked for `in`)']}

TEXT = ("Lean theorems over the mirror of the entity store's hierarchy maintenance (from/add/upsert/remove_entities with the three TCComputation modes, "
 'update_entity_map/deep_eq, the up-front dedup of an upsert batch (last value of a uid at the position of its first occurrence), the touched-set '
 'bookkeeping and stale-edge stripping, repair_tc + add_ancestors DFS, enforce_tc_and_dag): '
 'enforce_exact, repair_tc exact on acyclic graphs and rejecting exactly the cyclic ones, the store invariant (ancestors = Reach+ over direct-parent links, '
 'acyclic, parents/indirect disjoint) preserved by every operation, history induction, `in` = reflexive reachability; the model+spec define '
 'reachability: any disagreement with Entities::{from,add,upsert,remove}_entities on generated histories (random + exhaustive small scope) is a '
 'failing input.',
 'proof over a hand-written model; history_inv (= HistoryInvFull) and `in` = reflexive reachability hold WITHOUT residual hypotheses for ALL histories '
 'of pure operations (ComputeNow, inputs without caller-supplied indirect ancestors): remove_entities (any uid list), add_entities (any batch, '
 'AddInvFull), upsert_entities (ANY batch, UpsertInvFull: the deduped batch has pairwise distinct uids and the spec result "last value wins" is '
 'unchanged by the dedup), from_entities (contract `closure` standing for compute_tc: accepted => invariant), and completeness of the cycle '
 'detection of repair_tc (accepted => acyclic; cyclic => rejected) are proved. The model follows upsert_entities as repaired in /repo (defect '
 'C04-upsert-batch-repeated-uid-stale-ancestor, fixed); the pre-fix code is kept as upsertEntitiesPreFix with the Lean counterexample theorem as the '
 "record of the defect, and the harness keeps the repeated-uid histories as a regression family; cyclic_tc's SCC internals are "
 'modelled by contract (ClosureCorrectFull: fuel sufficiency and cycle => `cycle` not proved); correspondence is sampled + exhaustive on <=3 uids')
