"""Configuration of ./check C16: harness streams (name, n_quick, n_thorough), rule text, theorem names; MANIFEST texts."""
PROP = {'streams': [('c16', 600, 24000)],
 'definitional': False,
 'rule': 'one case = one schema world (2/3 chain worlds of gen_schema_chain.rs: entity-typed attributes / tags / context fields forming cycles over '
         '2-4 types, self loops, optional links, records containing entities, sets of entities; 1/3 generic worlds of gen_schema.rs) with a dense '
         'conformant store (accepted by Entities::from_entities(.., schema)), ~6 gen_typed.rs policies and 14 chain policies of dereference depth '
         '0..5 (attribute / getTag chains, record-literal access paths, `if` as dereference target, in / has / hasTag / has-path atoms, literal '
         'dereferences) kept if strict-valid; per policy the verdicts of Validator::validate_with_level for n = 0..4 (accepted | classes of level '
         'errors with the largest required level) are diffed with the model; for the set S_n of all policies accepted at n and 10 requests '
         'accepted by Request::new(.., schema): the harness computes the level-n slice (BFS over attribute and tag values, n hops, entities kept '
         'whole; diffed with the model\'s Slice.atLevel for 2 requests x 5 levels) and compares is_authorized(slice) with is_authorized(full) on '
         'decision, reasons, (erroring id, error class); monotonicity of single-policy and set verdicts; set verdict = conjunction of members; '
         'non-trivial = distinct (policy, verdict vector) and distinct (world, request, level, response)',
 'theorems': ['level_monotone',
              'level_monotone_policy',
              'slice_monotone',
              'slice_lookup',
              'slice_complete',
              'deref_within',
              'level_sound_partial',
              'level_sound_fragment',
              'level_sound_authorization',
              'level_sound_sets'],
 'assumptions': ['level_sound_partial / level_sound_authorization are proved for the WHOLE mirrored checker but on the typed AST and under two semantic '
                 'hypotheses that typechecker soundness would provide: `Kinds` (the Entity/Record annotation of every GetAttr/HasAttr target agrees '
                 'with the value it evaluates to) and `Faithful` (the typed AST with the typechecker\'s short-circuit simplifications evaluates like '
                 'the policy condition, on store and slice); they are DERIVED from typechecker acceptance + conformance only for the '
                 'connective-free part of the C03 fragment (`level_sound_fragment`: ./has chains through entities and records, literals, variables, '
                 '!, -, + - *, ==, like, is); for the rest their derivation from typechecker acceptance + conformance (the full statement '
                 '`level_sound`, a def : Prop) is NOT proved - C03 proves typechecker soundness for a fragment only; that gap is covered by the '
                 'implementation-level search (slice vs full store on every generated accepted policy set)',
                 'the request is for the environment\'s action (`req.action = act`): the action-literal exception of the checker',
                 'the typed AST is produced by the model\'s `annotate` (built on the C03 typechecker model `typeOf`); expressions outside that model '
                 '(unknowns, undeclared entity literals) answer (outside-model); templates are not generated for this property (static policies only)',
                 'the resolved ValidatorSchema is taken from Rust (schema construction is C09\'s subject)',
                 'record literals with a repeated key (not constructible in Rust: BTreeMap) are read as their last binding, as `evaluate` does']}

TEXT = ('Lean model of level validation: `annotate` (the type-annotated AST the typechecker hands to the level checker, incl. its short-circuit '
 'simplifications of if/&&/||), `checkExpr` / `derefLevel` / `derefErrs` mirroring LevelChecker::check_expr_level / check_entity_deref_target_level '
 'case by case (access-path stack through record literals, `if` branches (max), getTag, in/hasTag/getTag/has/. as dereferences, action-literal '
 'exception, literal and internal-invariant errors), `levelPolicy` over all request environments; SPEC `Slice.atLevel n` (entities within n attribute/tag '
 'hops of principal, action, resource and the uids in the context, each kept whole). PROVED for the whole mirrored checker: acceptance is monotone in '
 'n (expression and policy level); the slice is monotone and a sub-store of whole entities; key lemma: a dereference target of level k only evaluates '
 'to entities within k hops; `level_sound_partial`: no level errors at n => the typed expression evaluates over the level-n slice exactly as over the '
 'store, lifted to isAuthorized (same decision, determining and erroring policies) - under the hypotheses that the Entity/Record annotations agree '
 'with run-time values and that the typed AST evaluates like the condition (consequences of typechecker soundness; DERIVED from typechecker '
 'acceptance + conformance for the connective-free part of the C03 fragment - `level_sound_fragment`: ./has chains through entities and records, '
 'literals, variables, !, -, + - *, ==, like, is - and only assumed beyond it: the full statement `level_sound` is stated, not proved). Differential run: validate_with_level verdicts for n = 0..4 per policy and the level-n slice vs the model; '
 'implementation-level search: slice vs full store authorization for every accepted policy set on conformant requests/stores, monotonicity, '
 'non-vacuity counters (acceptance by level, slice != store, responses changed by a slice two levels lower).',
 'proof over a hand-written model; the link from typechecker acceptance + conformance to the two semantic hypotheses (Kinds, Faithful) is assumed '
 '(typechecker soundness is proved in C03 for a fragment only) and covered by sampling; policies and schemas are generated (harness/src/c16.rs, '
 'gen_schema_chain.rs, gen_typed.rs); static policies only')
