"""Configuration of ./check C16: harness streams (name, n_quick, n_thorough), rule text, theorem names; MANIFEST texts."""
PROP = {'streams': [('c16', 600, 24000), ('c14typed', 40, 2000)],
 'definitional': False,
 'rule': 'one case = one schema world (2/3 chain worlds of gen_schema_chain.rs: entity-typed attributes / tags / context fields forming cycles over '
         '2-4 types, self loops, optional links, records containing entities, sets of entities; 1/3 generic worlds of gen_schema.rs) with a dense '
         'conformant store (accepted by Entities::from_entities(.., schema)), ~6 gen_typed.rs policies and 14 chain policies of dereference depth '
         '0..5 (attribute / getTag chains, record-literal access paths, `if` as dereference target, in / has / hasTag / has-path atoms, literal '
         'dereferences) kept if strict-valid; per policy the verdicts of Validator::validate_with_level for n = 0..4 (accepted | classes of level '
         'errors with the largest required level) are diffed with the model; for the set S_n of all policies accepted at n and 10 requests '
         'accepted by Request::new(.., schema): the harness computes the level-n slice (BFS over attribute and tag values, n hops, entities kept '
         'whole; diffed with the model\'s Slice.atLevel for 2 requests x 5 levels) and compares is_authorized(slice) with is_authorized(full) on '
         'decision, reasons, (erroring id, error class); monotonicity of single-policy and set verdicts; set verdict = conjunction of members; '
         'non-trivial = distinct (policy, verdict vector) and distinct (world, request, level, response)'
         '; plus 5 const-operand policies per world: a left operand of || / && or an if-test that is typed False / True without being a literal (has of an undeclared / required attribute, is of another / its own type, in towards a type the hierarchy excludes, atom && false, atom || true, negations) and that dereferences deeper (depth 1..5) than the rest of the policy',
 'theorems': ['level_monotone',
              'level_monotone_policy',
              'slice_monotone',
              'slice_lookup',
              'slice_complete',
              'deref_within',
              'level_sound_partial',
              'level_sound_fragment',
              'level_sound_authorization',
              'level_sound_sets',
              'levelOk_env',
              'level_sound_env',
              'levelOk_policy',
              'level_sound_policy',
              'level_sound_strict',
              'level_sound_linked',
              'level_sound_strict_sets'],
 'assumptions': ['`level_sound_strict` proves the full statement `level_sound` (static policy sets, every construct, strict mode) from typechecker '
                 'acceptance + level acceptance + conformance alone: `Kinds` and `Faithful` (on store and slice) are derived from C03\'s strict-mode '
                 'typechecker soundness. Its premises are C03\'s: SchemaWF2 (true of every schema Rust constructs), ActionsPresent (the store holds '
                 'the schema\'s action entities, as Entities::from_entities(.., schema) guarantees; without it the statement is false in the model - '
                 'counterexample in Thm/C16.lean), record literals with distinct keys (a map in Rust), no slots in a static policy; linked templates: '
                 '`level_sound_policy` per policy (request environment among those checked, slots bound accordingly); permissive mode: '
                 '`level_sound_env` on C03\'s permissive fragment only',
                 'the request is for the environment\'s action (`req.action = act`): the action-literal exception of the checker',
                 'the typed AST is produced by the model\'s `annotate` (built on the C03 typechecker model `typeOf`); expressions outside that model '
                 '(unknowns, undeclared entity literals) answer (outside-model); templates are not generated for this property (static policies only)',
                 'the resolved ValidatorSchema is taken from Rust (schema construction is C09\'s subject)',
                 'record literals with a repeated key (not constructible in Rust: BTreeMap) are read as their last binding, as `evaluate` does']}

TEXT = ('Lean model of level validation: `annotate` (the type-annotated AST the typechecker hands to the level checker, incl. its short-circuit '
 'simplifications of if/&&/||), `checkExpr` / `derefLevel` / `derefErrs` mirroring LevelChecker::check_expr_level / check_entity_deref_target_level '
 'case by case (access-path stack through record literals, `if` branches (max), getTag, in/hasTag/getTag/has/. as dereferences, action-literal '
 'exception, literal and internal-invariant errors), `levelPolicy` over all request environments; SPEC `Slice.atLevel n` (entities within n attribute/tag '
 'hops of principal, action, resource and the uids in the context, each kept whole). PROVED for the whole mirrored checker: acceptance is monotone in '
 'n (expression and policy level); the slice is monotone and a sub-store of whole entities; key lemma: a dereference target of level k only evaluates '
 'to entities within k hops; `level_sound_partial`: no level errors at n => the typed expression evaluates over the level-n slice exactly as over the '
 'store (`Kinds`: annotations agree with run-time values), lifted to isAuthorized (same decision, determining and erroring policies). THE FULL STATEMENT `level_sound` IS PROVED (`level_sound_strict`, all constructs): for every static policy set accepted by the strict typechecker model and by `levelPolicy n`, every conformant request and conformant store holding the schema\'s action entities, isAuthorized over the level-n slice = isAuthorized over the store (decision, determining policies, erroring policies: `level_sound_strict_sets`); per policy incl. linked templates `level_sound_policy`, per environment `level_sound_env`. The two semantic hypotheses are DERIVED from C03\'s strict typechecker soundness (`soundM`) by one induction over `annotate` (`annot_res`): the typed AST evaluates like the condition on the store (if/&&/|| simplifications preserve values and errors since a test typed True evaluates to true or fails), its Entity/Record annotations agree with the values, and it evaluates like the condition on the slice too (the slice violates a C03 premise - it lacks action entities - so dropped operands are justified by level soundness of their guards); `annotate_total`: the typed AST exists whenever the typechecker answers. Differential run: validate_with_level verdicts for n = 0..4 per policy and the level-n slice vs the model; '
 'implementation-level search: slice vs full store authorization for every accepted policy set on conformant requests/stores, monotonicity, '
 'non-vacuity counters (acceptance by level, slice != store, responses changed by a slice two levels lower).',
 'proof over a hand-written model (typechecker model `typeOf`/`annotate`, `evaluate`, `Slice.atLevel`), tied to Rust by the differential run; '
 'premises of `level_sound_strict`: SchemaWF2, conformant request/store, action entities present, distinct record keys, static policies '
 '(templates per policy: `level_sound_policy`); permissive mode only on C03\'s permissive fragment; policies and schemas are generated '
 '(harness/src/c16.rs, gen_schema_chain.rs, gen_typed.rs)')
