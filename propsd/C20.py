"""Configuration of ./check C20: harness streams (name, n_quick, n_thorough), rule text, theorem names; MANIFEST texts."""
PROP = {'streams': [('c20', 30000, 3000000)],
 'definitional': False,
 'rule': 'documents = valid policies/templates/expressions/EST JSON/schemas (both syntaxes)/entities/contexts/FFI calls/protobuf bytes generated '
         'from the C01/C02 generators and fixed schemas, then (6%) left valid, (11%) nested 1..48 deep (parentheses, unary operators, sets, records, '
         'conditionals, calls, JSON arrays/objects, schema types), (8%) random bytes/tokens, (75%) 1-5 stacked byte/char/token/structure-aware '
         'mutations (bit flip, byte insert/delete/replace, chunk delete/dup, truncation, multi-byte char insert, token '
         'delete/dup/swap/replace/insert from a grammar dictionary, splice of another document, nest-wrap, boundary numerals, odd string escapes, '
         'JSON node replacement/key rename/duplicate key); every document goes to all entry points of its family (1 in 12 to ALL entry points), raw '
         'bytes incl. invalid UTF-8 to the *_file and protobuf APIs; whatever parses runs print/to_json/format/validate/authorize/link/encode; every '
         'error and warning is rendered (Display, Debug, help, labels read back, related, 3 miette handlers, Report). non-trivial = a mutated '
         'document that produced a rendered labelled span or still parsed and ran a downstream stage; distinct by family+bytes. Request lines = '
         '`like` boundary cases (all patterns over {a,b,*} up to length 4 x all texts up to length 4, plus random) against the index-form mirror '
         'whose reply carries `panic:<site>` / `fuel` outcomes, and datetime() strings (fixed boundary list + 1-2 char mutations incl. multi-byte '
         'chars) against the panic-site-explicit mirror of parse_datetime; `np-set` lines = <Set as FromIterator<Value>>::from_iter on 0..7 values '
         '(literals, extension values, nested sets/records, repeats) against the mirror with the unreachable!() arm explicit (reply = fast/slow + '
         'size; Set::new must agree); `np-binop` lines = the public helpers binary_relation / binary_arith called directly with ALL 12 operators '
         '(reply (ok v)/(err class)/panic - a panic for an operator outside the helper\'s documented contract is the expected answer and must '
         'match the mirror; inside the contract it is a failure); `np-unescape` lines = to_unescaped_string + Display of every returned error '
         '(concatenations and truncations of an escape-atom dictionary incl. multi-byte chars) against the range-explicit mirror of '
         'Unescape::unescape (reply = the slices shown)',
 'theorems': ['no_panic_wildcard',
              'wmIdx_eq_M',
              'no_panic_contains_at_least_two',
              'contains_at_least_two_spec',
              'no_panic_datetime_captures',
              'capture_parses_u32',
              'slice_after_prefix',
              'offset_timedelta_in_range',
              'no_panic_set_from_iter',
              'set_from_iter_fast_repr',
              'no_panic_record_residual',
              'no_panic_record_residual_of_expr',
              'record_residual_eq_model',
              'expr_record_refuses_duplicate',
              'no_panic_binary_dispatch',
              'binary_dispatch_eq_applyBinary',
              'binary_relation_panics_iff',
              'binary_arith_panics_iff',
              'no_panic_partial_response',
              'no_panic_partial_response_trivial',
              'partial_response_panics_iff',
              'partial_response_panic_reachable',
              'no_panic_policyset_op',
              'no_panic_policyset_history',
              'no_panic_policyset_merge',
              'unescape_ranges_on_boundaries',
              'no_panic_unescape_slices',
              'no_panic_remove_empty_lines',
              'remove_empty_lines_terminates',
              'no_panic_ext_argument_checks',
              'ext_argument_check_index_panics_iff',
              'no_panic_typecheck_extension',
              'no_panic_display_cedarvaluejson',
              'display_cedarvaluejson_prefix_panics'],
 'assumptions': ['theorems cover the mirrored components only (wildcard_match, contains_at_least_two, the datetime capture unwraps/slices, '
                 'FromIterator<Value> for Set, the Record arm\'s Expr::record(..).expect, the binary-operator dispatch, the PartialResponse accessors, '
                 'the PolicySet panic! sites (proved in C08), the unescape ranges/slices, the formatter\'s remove_empty_lines loop, '
                 'typecheck_extension with the four validate_*_string argument checks, display_cedarvaluejson); for '
                 "every other entry point the evidence is 'no panic on the explored inputs', counted per entry point in coverage.distribution "
                 '(ep.<name>.tried/ok/err)',
                 'data-structure invariants used as hypotheses: the keys of a record expression are pairwise distinct (it holds a BTreeMap) for '
                 'no_panic_record_residual; the policy-set invariant (established by every admissible history, C08) for no_panic_policyset_op; '
                 'no residual keeps a template slot for no_panic_partial_response - this one is NOT guaranteed by the implementation (known '
                 'finding C13-residual-slot-panic, reproduced as theorem partial_response_panic_reachable; debug builds only: the expect is under '
                 'cfg(debug_assertions))',
                 'remove_empty_lines: the two regex searches are oracles, not modelled; hypotheses = the regex-crate contract of find_at on a &str '
                 '(a match returned for a search from a char boundary index < len lies at/after index, start <= end, both ends on char '
                 'boundaries of the text) for no_panic_remove_empty_lines, plus "no empty match" (both patterns start with a literal) for '
                 'termination; both shown necessary by examples. typecheck_extension: a variadic ExtensionFunctionType has at least one argument '
                 'type (ExtensionFunction::variadic builds two; ExtensionFunctionType::new is public and does not check it - example reaches '
                 'last().unwrap() without it); the extension constructor called by the argument checks is a parameter (its own sites: groups b, '
                 'c). display_cedarvaluejson: the call-style table is a parameter; scalar arms are atoms. These three mirrors are tied to the '
                 'Rust by reading (file + function named in each mirror header) and by the malformed-input stream, not by a request stream',
                 'binary_relation / binary_arith are public and panic when called directly with an operator outside their documented contract '
                 '(binary_relation_panics_iff, binary_arith_panics_iff; 3183 such calls in the quick stream, all answered `panic` by the mirror '
                 'too); the evaluator never does (no_panic_binary_dispatch). Recorded as a documented precondition of an internal helper, not as a finding',
                 'nesting depth <= 48; level validation is skipped for documents with more than 10 conditionals and FFI format calls with |width| > '
                 '100000 are skipped (both behaviours are reported separately as known findings by dedicated probes)',
                 'aborts (stack overflow, allocation failure) and hangs are detected per child process and attributed to the case via a progress '
                 'file']}

TEXT = ('Lean theorems that the panic sites kept explicit in the mirrors are unreachable for ALL inputs: the index-form mirror of Pattern::wildcard_match '
 '(`pattern[j]`, `text[i]`, fuel) never panics and equals the declarative matcher; `contains_at_least_two` always slices on a char boundary inside '
 'the string; the `unwrap`s after the datetime/duration regex captures (<=4-digit numbers into u32, offset TimeDelta in range, ASCII-prefix slices) '
 'cannot fail; the `unreachable!()` of `FromIterator<Value> for Set` is never taken and the built set satisfies FastRepr; the three '
 '`unreachable!` arms behind the evaluator\'s binary-operator dispatch are never taken (the dispatch equals the one-level table of the C01 model) '
 'while the public helpers binary_relation/binary_arith panic exactly outside their contract; every callback range of Unescape::unescape is '
 'ordered, in bounds and on char boundaries, so `&bytes[range]` in to_pattern and `&input[range]` in Display for UnescapeError cannot panic; the formatter\'s remove_empty_lines '
 'never slices out of range / inverted / inside a char and terminates, for ALL regex oracles satisfying the stated find_at contract (and non-empty '
 'matches); typecheck_extension and the four validate_{ip,decimal,datetime,duration}_string checks it calls even after recording a wrong argument '
 'count cannot panic for ANY argument count (the exprs[0] form would, exactly on []); display_cedarvaluejson reaches neither args[0], &args[1..] '
 'nor the len()-1 underflows for any JSON value (the control flow before /repo commit f169b51 does, on a zero-argument method-style call). Under '
 'a named invariant: `Expr::record(..).expect(..)` in the Record arm of both evaluators (keys of the record expression pairwise distinct); the '
 'PolicySet panic! sites (C08 invariant, cited). PartialResponse: no accessor panics iff no residual keeps a template slot - and that DOES happen '
 '(theorem partial_response_panic_reachable = known finding C13-residual-slot-panic); definitely_satisfied/must_be_determining never panic. '
 'Correspondence: the `like` boundary stream is answered by the compiled index-form mirror (a `panic:`/`fuel` reply would show in the '
 'diff); datetime(), Set::from_iter, binary_relation/binary_arith (all 12 operators, panics included) and to_unescaped_string+Display are '
 'answered by their site-explicit mirrors. Every other text/JSON/bytes entry point (policies, templates, expressions, both schema syntaxes, entities, contexts, EST, protobuf, FFI '
 'JSON) and every pipeline parse -> {print, to_json, format, validate, authorize, link, encode} plus rendering of every error/warning is exercised '
 'by a malformed-input stream in child processes under catch_unwind.',
 'PARTIAL BY DESIGN: the theorems cover only the mirrored components (twelve groups of sites, listed in the header of Thm/C20.lean). For all unmodelled entry points (parser, CST->AST, error rendering, '
 "schema code, EST, protobuf, FFI, formatter, validator, authorizer glue) the evidence is 'no panic on the explored inputs' — a count per entry "
 'point (evidence coverage.distribution: ep.<entry point>.ok / .err, epgroup.<group>.inputs, pipeline.<stage>, render.*), NOT a theorem; nesting '
 'depth <= 48; aborts/hangs are caught per child process')
