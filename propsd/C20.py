"""Configuration of ./check C20: harness streams (name, n_quick, n_thorough), rule text, theorem names; MANIFEST texts."""
PROP = {'streams': [('c20', 30000, 3000000)],
 'definitional': False,
 'rule': 'documents = valid policies/templates/expressions/EST JSON/schemas (both syntaxes)/entities/contexts/FFI calls/protobuf bytes generated '
         'from the C01/C02 generators and fixed schemas, then (6%) left valid, (11%) nested 1..48 deep (parentheses, unary operators, sets, records, '
         'conditionals, calls, JSON arrays/objects, schema types), (8%) random bytes/tokens, (75%) 1-5 stacked byte/char/token/structure-aware '
         'mutations (bit flip, byte insert/delete/replace, chunk delete/dup, truncation, multi-byte char insert, token '
         'delete/dup/swap/replace/insert from a grammar dictionary, splice of another document, nest-wrap, boundary numerals, odd string escapes, '
         'JSON node replacement/key rename/duplicate key); every document goes to all entry points of its family (1 in 12 to ALL entry points), raw '
         'bytes incl. invalid UTF-8 to the *_file and protobuf APIs; whatever parses runs print/to_json/format/validate/authorize/link/encode; every '
         'error and warning is rendered (Display, Debug, help, labels read back, related, 3 miette handlers, Report). non-trivial = a mutated '
         'document that produced a rendered labelled span or still parsed and ran a downstream stage; distinct by family+bytes. Request lines = '
         '`like` boundary cases (all patterns over {a,b,*} up to length 4 x all texts up to length 4, plus random) against the index-form mirror '
         'whose reply carries `panic:<site>` / `fuel` outcomes, and datetime() strings (fixed boundary list + 1-2 char mutations incl. multi-byte '
         'chars) against the panic-site-explicit mirror of parse_datetime',
 'theorems': ['no_panic_wildcard',
              'wmIdx_eq_M',
              'no_panic_contains_at_least_two',
              'contains_at_least_two_spec',
              'no_panic_datetime_captures',
              'capture_parses_u32',
              'slice_after_prefix',
              'offset_timedelta_in_range'],
 'assumptions': ['theorems cover the mirrored components only (wildcard_match, contains_at_least_two, the datetime/duration capture unwraps); for '
                 "every other entry point the evidence is 'no panic on the explored inputs', counted per entry point in coverage.distribution "
                 '(ep.<name>.tried/ok/err)',
                 'nesting depth <= 48; level validation is skipped for documents with more than 10 conditionals and FFI format calls with |width| > '
                 '100000 are skipped (both behaviours are reported separately as known findings by dedicated probes)',
                 'aborts (stack overflow, allocation failure) and hangs are detected per child process and attributed to the case via a progress '
                 'file']}

TEXT = ('Lean theorems that the panic sites kept explicit in the mirrors are unreachable for ALL inputs: the index-form mirror of Pattern::wildcard_match '
 '(`pattern[j]`, `text[i]`, fuel) never panics and equals the declarative matcher; `contains_at_least_two` always slices on a char boundary inside '
 'the string; the `unwrap`s after the datetime/duration regex captures (<=4-digit numbers into u32, offset TimeDelta in range, ASCII-prefix slices) '
 'cannot fail. Correspondence: the `like` boundary stream is answered by the compiled index-form mirror (a `panic:`/`fuel` reply would show in the '
 'diff). Every other text/JSON/bytes entry point (policies, templates, expressions, both schema syntaxes, entities, contexts, EST, protobuf, FFI '
 'JSON) and every pipeline parse -> {print, to_json, format, validate, authorize, link, encode} plus rendering of every error/warning is exercised '
 'by a malformed-input stream in child processes under catch_unwind.',
 'PARTIAL BY DESIGN: the theorems cover only the three mirrored components. For all unmodelled entry points (parser, CST->AST, error rendering, '
 "schema code, EST, protobuf, FFI, formatter, validator, authorizer glue) the evidence is 'no panic on the explored inputs' — a count per entry "
 'point (evidence coverage.distribution: ep.<entry point>.ok / .err, epgroup.<group>.inputs, pipeline.<stage>, render.*), NOT a theorem; nesting '
 'depth <= 48; aborts/hangs are caught per child process')
