"""Configuration of ./check C03: harness streams (name, n_quick, n_thorough), rule text, theorem names; MANIFEST texts."""
PROP = {'streams': [('c03', 250, 20000)],
 'definitional': False,
 'rule': 'one case = one generated schema world (entity types with required/optional attributes, tags, memberOf, enums, action groups, per-action '
         'contexts, namespaces, common types) with a conformant store and 20 schema-directed policies/templates (gen_typed.rs: every scope form, '
         'guarded optional attributes/tags in the documented styles, near-miss guards, strict-only and ill-typed nodes); per policy the '
         'per-environment verdicts of Typechecker::typecheck_by_request_env (strict and permissive) and the impossible flag are diffed with the '
         'model; every strict-accepted policy is evaluated on 10 requests accepted by Request::new(.., schema) against a store accepted by '
         'Entities::from_entities(.., schema): error class, satisfaction vs type False / ImpossiblePolicy, typed AST vs condition, and inhabitation '
         "of every evaluated subexpression's annotated type; non-trivial = distinct (policy, environment, result)",
 'theorems': ['typeOf_sound_partial',
              'typeOf_types_wellformed',
              'accepted_boolean_or_permitted_error',
              'typed_false_never_satisfied',
              'impossible_policy_never_satisfied'],
 'assumptions': ['soundness is PROVED only for the fragment `Cedar.InFragment` named in Thm/C03.lean (literals, variables, && || ! if, unary -, + - '
                 '*, ==, like, is, has and . on records and entities with capabilities); <, in, isEmpty, contains*, tags, set/record literals, '
                 'extension calls, slots are covered by the differential run and the implementation-level soundness search only',
                 'strict_implies_permissive is not proved; it is checked on the implementation for every generated policy',
                 "the resolved ValidatorSchema is taken from Rust (schema construction is C09's subject); SchemaWF (single entity types, no action "
                 'attributes, no entity type named like an action type) is assumed of it',
                 'entity literals of undeclared types / actions and unknowns answer (outside-model)']}

TEXT = ('Lean model `typeOf` mirroring SingleEnvTypechecker::typecheck case by case (strict and permissive mode, capability sets, singleton-bool short '
 'circuits, has/getAttr/tags, in incl. action hierarchy, is, == with strict restrictions, least upper bounds, literals, extension calls, '
 'per-request-environment driver with template linking and the impossible-policy rule). Soundness (`typeOf_sound`: value inhabits the static type or '
 'the error is entity/overflow/extension; capabilities hold when true, and unconditionally when typed True) is PROVED ONLY FOR THE FRAGMENT named in '
 'Thm/C03.lean (`InFragment`: literals, variables, && || ! if, unary -, + - *, ==, like, is, has/. on records and entities with capabilities), with '
 'corollaries accepted => boolean or permitted error, typed False / impossible => never satisfied. The rest of the typechecker is covered by the '
 'differential run (model vs Typechecker::typecheck_by_request_env per policy, environment and mode) and by the implementation-level soundness '
 "search: every strict-accepted generated policy is evaluated on conformant requests/stores (Rust's own schema-based validation) and every evaluated "
 'subexpression of the typed AST must inhabit its annotated type; plus non-vacuity (documented has/hasTag guard idioms accepted) and strict-accepted '
 '=> permissive-accepted on all generated policies.',
 'proof over a hand-written model for a stated fragment only; the remaining constructs are sampled (generators in harness/src/gen_typed.rs, '
 "gen_schema.rs); the resolved schema is serialised from Rust's ValidatorSchema; strict=>permissive is tested, not proved")
