"""Configuration of ./check C03: harness streams (name, n_quick, n_thorough), rule text, theorem names; MANIFEST texts."""
PROP = {'streams': [('c03', 250, 20000)],
 'definitional': False,
 'rule': 'one case = one generated schema world (entity types with required/optional attributes, tags, memberOf, enums, action groups, per-action '
         'contexts, namespaces, common types) with a conformant store and 20 schema-directed policies/templates (gen_typed.rs: every scope form, '
         'guarded optional attributes/tags in the documented styles, near-miss guards, strict-only and ill-typed nodes); per policy the '
         'per-environment verdicts of Typechecker::typecheck_by_request_env (strict and permissive) and the impossible flag are diffed with the '
         'model; every strict-accepted policy is evaluated on 10 requests accepted by Request::new(.., schema) against a store accepted by '
         'Entities::from_entities(.., schema): error class, satisfaction vs type False / ImpossiblePolicy, typed AST vs condition, and inhabitation '
         "of every evaluated subexpression's annotated type; non-trivial = distinct (policy, environment, result)",
 'theorems': ['typeOf_sound_strict',
              'typeOf_sound_partial2',
              'typeOf_sound_partialM',
              'accepted_boolean_or_permitted_errorM',
              'typeOf_types_wellformed2',
              'accepted_boolean_or_permitted_error2',
              'typed_false_never_satisfied2',
              'impossible_policy_never_satisfied2',
              'strict_validation_sound',
              'strict_validation_sound_static',
              'impossible_policy_never_satisfied_static',
              'strict_implies_permissive_strict',
              'strict_implies_permissive_strict_sub',
              'strict_accepted_policy_permissive_accepted',
              'strict_implies_permissive_partial',
              'strict_accepted_implies_permissive_accepted',
              'typeOf_sound_partial',
              'typeOf_types_wellformed',
              'accepted_boolean_or_permitted_error',
              'typed_false_never_satisfied',
              'impossible_policy_never_satisfied',
              'instance_of_lub',
              'typeOf_sound_permissive_partial',
              'accepted_boolean_or_permitted_errorP',
              'typed_false_never_satisfiedP',
              'permissive_validation_sound_partial',
              'permissive_validation_sound_static_partial',
              'impossible_policy_never_satisfied_static_permissive',
              'ex2_schemaWF',
              'ex2_store'],
 'assumptions': ['soundness is PROVED for STRICT mode on the fragment `Cedar.C03.InFragment2` named in Thm/C03.lean: every construct of the model '
                 '(literals, variables, linked slots, && || ! if with arbitrary branches, unary -, + - *, ==, < <= incl. datetime/duration, like, '
                 'is, has and . on records and entities with capabilities, hasTag/getTag, set and record literals, '
                 'contains/containsAll/containsAny/isEmpty, in incl. the descendants-based False and the action-literal special cases, extension '
                 'calls; unknown vacuously); for PERMISSIVE mode on `InFragmentP` (Lemmas/TypecheckPSound.lean; full statement kept as '
                 '`def PermissiveSoundFull`): the constructs of `InFragmentM .permissive` (all of the above, an if having a syntactically flat '
                 'branch and a set literal being non-empty with flat elements) closed under if with ARBITRARY branch types joined by the '
                 'permissive least upper bound (entity-type unions, record joins; the then branch a literal / principal / action / resource / '
                 'slot / flat expression), set literals of such elements of arbitrary types and [] (Set<Never>), and == contains containsAll '
                 'containsAny isEmpty && || ! over such operands; the subtyping lemma `instance_of_lub` (every value of either argument inhabits '
                 'the permissive bound; left argument with distinct record keys) is proved in general. NOT proved: has / . / tags / in / is / < '
                 'applied to an operand typed with an entity-type union or a joined record type (e.g. `(if c then principal else resource).name`), '
                 'joins whose then branch is itself an attribute access / record literal / join, slots in environments without a slot type '
                 '(unreachable: link_request_env types every slot of the policy) and record literals with duplicate keys (not representable in '
                 'Rust) - these are covered by the differential run and the implementation-level soundness search only',
                 'strict_implies_permissive is PROVED (same type and capabilities in both modes; policy level: same verdicts) for every '
                 'expression of the strict fragment under SchemaWF3 (record types declared by the schema are closed with distinct keys; the '
                 'action table is a map); without SchemaWF3 only for expressions whose least upper bounds have a flat side (`SIPFragment`); it '
                 'is also checked on the implementation for every generated policy',
                 "the resolved ValidatorSchema is taken from Rust (schema construction is C09's subject); SchemaWF2 is assumed of it: single "
                 'entity types in attribute/tag/context types, no action attributes, no entity type named like an action type, the entity-type '
                 'table is a map, action uids have an action type, ancestors/descendants of the action hierarchy are inverse (SchemaWF3 adds: declared '
                 'record types closed with distinct keys, action table a map)',
                 'the store is assumed to hold the action entities of the schema (ActionsPresent; Entities::from_entities(.., schema) adds them): '
                 'without it `action in Action::"group"` typed True evaluates to false',
                 'entity literals of undeclared types / actions and unknowns answer (outside-model)']}

TEXT = ('Lean model `typeOf` mirroring SingleEnvTypechecker::typecheck case by case (strict and permissive mode, capability sets, singleton-bool short '
 'circuits, has/getAttr/tags, in incl. action hierarchy, is, == with strict restrictions, least upper bounds, literals, extension calls, '
 'per-request-environment driver with template linking and the impossible-policy rule). Soundness (`typeOf_sound`: value inhabits the static type or '
 'the error is entity/overflow/extension; capabilities hold when true, and unconditionally when typed True) is PROVED FOR STRICT MODE ON THE FRAGMENT '
 '`InFragment2` named in Thm/C03.lean (`typeOf_sound_partial2`): every construct the model types — literals, variables, linked '
 'template slots, && || ! if (arbitrary branches: instances of either branch inhabit the least upper bound), unary -, + - *, ==, < <= (long, '
 'datetime, duration), like, is, has/. on records and entities with capabilities, hasTag/getTag, set literals, contains/containsAll/containsAny/'
 'isEmpty, record literals (distinct keys), in (general rule with the descendants-based False, action-literal special cases True/False), extension '
 'calls — under schema well-formedness SchemaWF2, conformance of request and store, presence of the action entities, bound slots; and for BOTH modes '
 'on `InFragmentM` (`typeOf_sound_partialM`: in permissive mode an if needs a syntactically flat branch, a set literal flat elements), and for PERMISSIVE '
 'mode on the larger `InFragmentP` (`typeOf_sound_permissive_partial`): if with arbitrary branch types joined by the permissive least upper bound '
 '(entity-type unions, record joins with width/depth subtyping and open records - `instance_of_lub`), set literals of mixed entity types and [], and '
 '== contains* isEmpty && || ! over them, with policy-level `permissive_validation_sound_partial` and examples that permissive mode accepts and strict '
 'mode rejects (full permissive statement: `def PermissiveSoundFull`, not proved for attribute/tag access, in, is on union-typed operands). Corollaries for both fragments: accepted => boolean or permitted error, typed False / '
 'impossible => never satisfied, and the policy-level forms over checkPolicy (the environment of a conformant request is among those '
 'typechecked); strict => permissive with identical type, capabilities and per-environment verdicts for every expression of the strict fragment (schemas '
 'with closed, distinct-key record types); a concrete '
 'schema/request/store/policy instantiates every hypothesis (non-vacuity). Permissive typing of the '
 'constructs outside `InFragmentP` is covered by the differential run (model vs Typechecker::typecheck_by_request_env per policy, environment and '
 "mode) and by the implementation-level soundness search: every strict-accepted generated policy is evaluated on conformant requests/stores (Rust's "
 'own schema-based validation) and every evaluated subexpression of the typed AST must inhabit its annotated type; plus non-vacuity (documented '
 'has/hasTag guard idioms accepted) and strict-accepted => permissive-accepted on all generated policies.',
 'proof over a hand-written model: strict mode for all constructs, permissive mode for a stated smaller fragment only; the model is '
 "tied to Rust by sampling (generators in harness/src/gen_typed.rs, gen_schema.rs); the resolved schema is serialised from Rust's ValidatorSchema "
 'and its well-formedness (SchemaWF2) is assumed; strict=>permissive is proved for the strict fragment under a schema well-formedness assumption and tested on the implementation')
