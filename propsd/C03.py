"""Configuration of ./check C03: harness streams (name, n_quick, n_thorough), rule text, theorem names; MANIFEST texts."""
PROP = {'streams': [('c03', 250, 20000)],
 'definitional': False,
 'rule': 'one case = one generated schema world (entity types with required/optional attributes, tags, memberOf, enums, action groups, per-action '
         'contexts, namespaces, common types) with a conformant store and 20 schema-directed policies/templates (gen_typed.rs: every scope form, '
         'guarded optional attributes/tags in the documented styles, near-miss guards, strict-only and ill-typed nodes); per policy the '
         'per-environment verdicts of Typechecker::typecheck_by_request_env (strict and permissive) and the impossible flag are diffed with the '
         'model; every strict-accepted policy is evaluated on 10 requests accepted by Request::new(.., schema) against a store accepted by '
         'Entities::from_entities(.., schema): error class, satisfaction vs type False / ImpossiblePolicy, typed AST vs condition, and inhabitation '
         "of every evaluated subexpression's annotated type; non-trivial = distinct (policy, environment, result)",
 'theorems': ['typeOf_sound_strict',
              'typeOf_sound_partial2',
              'typeOf_sound_partialM',
              'accepted_boolean_or_permitted_errorM',
              'typeOf_types_wellformed2',
              'accepted_boolean_or_permitted_error2',
              'typed_false_never_satisfied2',
              'impossible_policy_never_satisfied2',
              'strict_validation_sound',
              'strict_validation_sound_static',
              'impossible_policy_never_satisfied_static',
              'strict_implies_permissive_strict',
              'strict_implies_permissive_strict_sub',
              'strict_accepted_policy_permissive_accepted',
              'strict_implies_permissive_partial',
              'strict_accepted_implies_permissive_accepted',
              'typeOf_sound_partial',
              'typeOf_types_wellformed',
              'accepted_boolean_or_permitted_error',
              'typed_false_never_satisfied',
              'impossible_policy_never_satisfied',
              'instance_of_lub',
              'typeOf_sound_permissive_partial',
              'accepted_boolean_or_permitted_errorP',
              'typed_false_never_satisfiedP',
              'permissive_validation_sound_partial',
              'permissive_validation_sound_static_partial',
              'impossible_policy_never_satisfied_static_permissive',
              'typeOf_sound_permissive',
              'permissive_sound_full',
              'typeOf_ndTy',
              'typeOf_ndTy_strict',
              'accepted_boolean_or_permitted_error_permissive',
              'typed_false_never_satisfied_permissive',
              'permissive_validation_sound',
              'permissive_validation_sound_static',
              'impossible_policy_never_satisfied_permissive',
              'ex2_schemaND',
              'ex2_schemaWF',
              'ex2_store'],
 'assumptions': ['soundness is PROVED for STRICT mode on the fragment `Cedar.C03.InFragment2` named in Thm/C03.lean: every construct of the model '
                 '(literals, variables, linked slots, && || ! if with arbitrary branches, unary -, + - *, ==, < <= incl. datetime/duration, like, '
                 'is, has and . on records and entities with capabilities, hasTag/getTag, set and record literals, '
                 'contains/containsAll/containsAny/isEmpty, in incl. the descendants-based False and the action-literal special cases, extension '
                 'calls; unknown vacuously); for PERMISSIVE mode the FULL statement `PermissiveSoundFull` is PROVED (`permissive_sound_full`, '
                 '`typeOf_sound_permissive`, Lemmas/TypecheckPFull.lean): every expression with distinct record-literal keys (Rust: '
                 'ExprKind::Record is a map) and slots linked in the environment (link_request_env types every slot of the policy), with NO '
                 'restriction on the static types of sub-expressions - if / set literals joining arbitrary types by the permissive least upper '
                 'bound (entity-type unions, AnyEntity, record joins, Set<Never>), and has / . / hasTag / getTag / in / is / < on operands typed '
                 'with an entity-type union, AnyEntity or a joined (open) record type; it needs the additional premise SchemaND (see below). '
                 'NOT covered: a slot in an environment without a slot type (typed AnyEntity by Rust; unreachable), record literals with '
                 'duplicate keys (not representable in Rust), unknown (outside the model)',
                 'SchemaND: every record type the resolved schema declares (entity shapes, tag types, action contexts, nested) has distinct '
                 'keys - true of every schema Rust constructs (`Attributes` is a BTreeMap); without it the permissive bound of the MODEL '
                 '(attribute lists) may keep an entry that lookup does not see',
                 'strict_implies_permissive is PROVED (same type and capabilities in both modes; policy level: same verdicts) for every '
                 'expression of the strict fragment under SchemaWF3 (record types declared by the schema are closed with distinct keys; the '
                 'action table is a map); without SchemaWF3 only for expressions whose least upper bounds have a flat side (`SIPFragment`); it '
                 'is also checked on the implementation for every generated policy',
                 "the resolved ValidatorSchema is taken from Rust (schema construction is C09's subject); SchemaWF2 is assumed of it: single "
                 'entity types in attribute/tag/context types, no action attributes, no entity type named like an action type, the entity-type '
                 'table is a map, action uids have an action type, ancestors/descendants of the action hierarchy are inverse (SchemaWF3 adds: declared '
                 'record types closed with distinct keys, action table a map)',
                 'the store is assumed to hold the action entities of the schema (ActionsPresent; Entities::from_entities(.., schema) adds them): '
                 'without it `action in Action::"group"` typed True evaluates to false',
                 'entity literals of undeclared types / actions and unknowns answer (outside-model)']}

TEXT = ('Lean model `typeOf` mirroring SingleEnvTypechecker::typecheck case by case (strict and permissive mode, capability sets, singleton-bool short '
 'circuits, has/getAttr/tags, in incl. action hierarchy, is, == with strict restrictions, least upper bounds, literals, extension calls, '
 'per-request-environment driver with template linking and the impossible-policy rule). Soundness (`typeOf_sound`: value inhabits the static type or '
 'the error is entity/overflow/extension; capabilities hold when true, and unconditionally when typed True) is PROVED FOR STRICT MODE ON THE FRAGMENT '
 '`InFragment2` named in Thm/C03.lean (`typeOf_sound_partial2`): every construct the model types — literals, variables, linked '
 'template slots, && || ! if (arbitrary branches: instances of either branch inhabit the least upper bound), unary -, + - *, ==, < <= (long, '
 'datetime, duration), like, is, has/. on records and entities with capabilities, hasTag/getTag, set literals, contains/containsAll/containsAny/'
 'isEmpty, record literals (distinct keys), in (general rule with the descendants-based False, action-literal special cases True/False), extension '
 'calls — under schema well-formedness SchemaWF2, conformance of request and store, presence of the action entities, bound slots; and for BOTH modes '
 'on `InFragmentM` (`typeOf_sound_partialM`), and IN FULL FOR PERMISSIVE MODE (`permissive_sound_full : PermissiveSoundFull`, '
 '`typeOf_sound_permissive`): every expression with distinct record-literal keys and linked slots, under the extra premise SchemaND (schema record '
 'types have distinct keys - BTreeMap in Rust) - if / set literals with arbitrary branch / element types joined by the permissive least upper bound '
 '(entity-type unions, AnyEntity, record joins with width/depth subtyping and open records, Set<Never>; `instance_of_lub`), and has / . / hasTag / '
 'getTag / in / is / < on union-typed operands (`lubAttrs` / `tagTypes` / `anyDescendantOf` of a union related to conformant stores: an entity of ANY '
 'member type respects the attribute / tag type computed for the union); type invariant `typeOf_ndTy` (types produced have distinct record keys, '
 'Never only as a set element type); policy level `permissive_validation_sound` (no fragment), with examples that permissive mode accepts, strict '
 'mode rejects and the previous fragment did not contain. Corollaries: accepted => boolean or permitted error, typed False / '
 'impossible => never satisfied, and the policy-level forms over checkPolicy (the environment of a conformant request is among those '
 'typechecked); strict => permissive with identical type, capabilities and per-environment verdicts for every expression of the strict fragment (schemas '
 'with closed, distinct-key record types); a concrete '
 'schema/request/store/policy instantiates every hypothesis (non-vacuity). The model itself is tied to Rust '
 'by the differential run (model vs Typechecker::typecheck_by_request_env per policy, environment and '
 "mode) and by the implementation-level soundness search: every strict-accepted generated policy is evaluated on conformant requests/stores (Rust's "
 'own schema-based validation) and every evaluated subexpression of the typed AST must inhabit its annotated type; plus non-vacuity (documented '
 'has/hasTag guard idioms accepted) and strict-accepted => permissive-accepted on all generated policies.',
 'proof over a hand-written model: strict and permissive mode for all constructs (distinct record keys, linked slots; schema well-formedness SchemaWF2 + SchemaND assumed); the model is '
 "tied to Rust by sampling (generators in harness/src/gen_typed.rs, gen_schema.rs); the resolved schema is serialised from Rust's ValidatorSchema "
 'and its well-formedness (SchemaWF2) is assumed; strict=>permissive is proved for the strict fragment under a schema well-formedness assumption and tested on the implementation')
