"""Configuration of ./check C08: harness streams (name, n_quick, n_thorough), rule text, theorem names; MANIFEST texts."""
PROP = {'streams': [('c08', 1200, 300000)],
 'definitional': False,
 'rule': '(a) random histories of 1-12 operations (add, add_static, add_template, link, unlink, remove_static, remove_template, merge with/without '
         'renaming, add of a template-linked policy) with ids from a pool of 5 (incl. policy0/policy1, the ids merge generates) over two registers, '
         'through cedar_policy_core::ast::PolicySet and the public cedar_policy::PolicySet; templates with every ==/in/is..in slot form, '
         'exact/missing/extra bindings; after each op: ok/error kind, renaming, sorted listing from policies()/templates()/get_linked_policies(), '
         'authorization on 2 requests. (b) linked policy vs Rust parse of the textually substituted static policy on random worlds. (c) all '
         'histories of length <=2 (quick) / <=3 (thorough) over 2 ids and a 24-letter op alphabet, merge partner fixed. non-trivial = history with '
         '>=1 failed op and >=1 successful link, or a linkeq case; distinct by request text',
 'theorems': ['link_eq_subst',
              'link_outcome_eq_subst',
              'link_ok_iff',
              'pset_link_ok_iff',
              'op_inv',
              'op_fail_unchanged',
              'no_panic',
              'history_inv',
              'authorize_considers_exactly_links',
              'api_add_is_add_static',
              'api_op_inv',
              'api_history_inv',
              'refines_spec_partial',
              'refines_spec',
              'op_refines_spec',
              'history_refines_spec',
              'api_op_proj',
              'api_projection',
              'api_op_refines_spec',
              'api_history_refines_spec',
              'mergeInv_false',
              'merge_inv',
              'merge_no_panic_fail_unchanged',
              'merge_renaming_ok',
              'api_history_strict',
              'merge_inv_api_histories',
              'api_merge_inv',
              'api_reachable_inv'],
 'assumptions': ["merge_policyset: the core merge is proved (merge_inv, for arguments satisfying the invariant of API-built sets; the statement with "
                 "well-formedness only is refuted by mergeInv_false, a core-only slot-less-template counterexample); the API layer's merge is proved too (api_merge_inv, api_reachable_inv); a "
                 "specification-level merge (the abstract Spec has no merge operation) is covered by the correspondence and the harness oracle only",
                 "core-only histories outside the public API's envelope (core link on a static policy's id, core add of a template-linked Policy, "
                 "slot-less template) are compared with the model but excluded from the statement's checks; they can break the invariant and reach "
                 'the panic in unlink',
                 'source locations and the lossless (text/EST/PST) copies kept by the API layer are not modelled']}

TEXT = ('Lean theorems over mirrors of Template::link/check_binding/condition, of ast::PolicySet (templates, links, template_to_links_map; add_static, '
 'add_template, link, unlink, remove_static, remove_template, merge_policyset) and of the public cedar_policy::PolicySet layer: link_eq_subst '
 '(evaluating a linked policy = evaluating the substituted static policy, by induction over expressions), link_ok_iff, the representation invariant '
 'and its preservation by every non-merge operation, failed operations change nothing, panic sites unreachable, histories, authorization = '
 'authorization over the substituted static policies; refines_spec / history_refines_spec / api_history_refines_spec (every non-merge operation, '
 'core and API, commutes with the abstraction to the abstract specification: after any history the set contains exactly the statics, templates and '
 'links the successful operations imply); api_projection (the API maps are exact projections of the core maps in every reachable state); merge_inv '
 '(merge_policyset preserves the invariant of API-built sets, its unwrap is unreachable, a failed merge changes nothing; merge_renaming_ok: exactly '
 'the conflicting ids are renamed, to fresh distinct ids); api_merge_inv / api_reachable_inv (the merge of the API layer keeps the invariant and the '
 'projections, its unwraps are unreachable; invariant and projections hold in every state reachable by the six operations and merges); tied to the code by a differential run over operation histories (both layers) plus an '
 'abstract-specification oracle evaluated on the implementation.',
 'proof over a hand-written model; a specification-level merge (what a merged set contains, abstractly) is checked only by the sampled/exhaustive-small-scope '
 'correspondence and the harness oracle; merge_inv needs the API envelope (no slot-less bare template): without it mergeInv_false is a counterexample')
