"""Configuration of ./check C08: harness streams (name, n_quick, n_thorough), rule text, theorem names; MANIFEST texts."""
PROP = {'streams': [('c08', 1200, 300000)],
 'definitional': False,
 'rule': '(a) random histories of 1-12 operations (add, add_static, add_template, link, unlink, remove_static, remove_template, merge with/without '
         'renaming, add of a template-linked policy) with ids from a pool of 5 (incl. policy0/policy1, the ids merge generates) over two registers, '
         'through cedar_policy_core::ast::PolicySet and the public cedar_policy::PolicySet; templates with every ==/in/is..in slot form, '
         'exact/missing/extra bindings; after each op: ok/error kind, renaming, sorted listing from policies()/templates()/get_linked_policies(), '
         'authorization on 2 requests. (b) linked policy vs Rust parse of the textually substituted static policy on random worlds. (c) all '
         'histories of length <=2 (quick) / <=3 (thorough) over 2 ids and a 24-letter op alphabet, merge partner fixed. non-trivial = history with '
         '>=1 failed op and >=1 successful link, or a linkeq case; distinct by request text',
 'theorems': ['link_eq_subst',
              'link_outcome_eq_subst',
              'link_ok_iff',
              'pset_link_ok_iff',
              'op_inv',
              'op_fail_unchanged',
              'no_panic',
              'history_inv',
              'authorize_considers_exactly_links',
              'api_add_is_add_static',
              'api_op_inv',
              'api_history_inv',
              'refines_spec_partial'],
 'assumptions': ['merge_policyset is covered by the correspondence and the harness oracle only (MergeInv, RefinesSpec, ApiProjection are stated as '
                 '`def : Prop`, not proved)',
                 "core-only histories outside the public API's envelope (core link on a static policy's id, core add of a template-linked Policy, "
                 "slot-less template) are compared with the model but excluded from the statement's checks; they can break the invariant and reach "
                 'the panic in unlink',
                 'source locations and the lossless (text/EST/PST) copies kept by the API layer are not modelled']}

TEXT = ('Lean theorems over mirrors of Template::link/check_binding/condition, of ast::PolicySet (templates, links, template_to_links_map; add_static, '
 'add_template, link, unlink, remove_static, remove_template, merge_policyset) and of the public cedar_policy::PolicySet layer: link_eq_subst '
 '(evaluating a linked policy = evaluating the substituted static policy, by induction over expressions), link_ok_iff, the representation invariant '
 'and its preservation by every non-merge operation, failed operations change nothing, panic sites unreachable, histories, authorization = '
 'authorization over the substituted static policies; tied to the code by a differential run over operation histories (both layers) plus an '
 'abstract-specification oracle evaluated on the implementation.',
 "proof over a hand-written model; merge_policyset's invariant preservation and the refinement of the abstract specification are stated but checked "
 'only by the sampled/exhaustive-small-scope correspondence and the harness oracle')
