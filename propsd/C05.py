"""Configuration of ./check C05: harness streams (name, n_quick, n_thorough), rule text, theorem names; MANIFEST texts."""
PROP = {'streams': [('c05', 4000, 250000)],
 'definitional': False,
 'rule': 'expression texts from a grammar-level generator with minimal / full / redundant parenthesisation (depth <= 8), the exhaustive operator x '
         'operator grid (43 operator templates x every child position x 43 children x naked/parenthesised/doubly parenthesised), negative-literal '
         'and i64-boundary forms in every operand position, reserved words / non-identifiers as attribute names and record keys, escape-heavy '
         'strings, entity ids, patterns and annotation values, ASTs built from arbitrary Unicode strings, policies/templates (all scope forms, '
         'slots, annotations, 0-3 when/unless clauses) and policy sets of 5; each accepted text: print, reparse, eq_shape/==, evaluate on random '
         'worlds, both printers (AST Display, EST Display) for policies, sets as multisets modulo ids; policy-level model lines: Parse_model(lex t) = parse_impl t as a whole policy/template AST (annotations, effect, scope constraints, folded when/unless condition; accepts and rejects) for generated policy texts AND for t = Display(policy), Print_model(policy) ~ lex(Display(policy)) token for token; expression-level model lines: Parse_model(lex t) = parse_impl '
         't (accept and reject), Print_model e ~ lex(print_impl e), parse_impl(render(Print_model e)) = e via the driver sub-process, unescape_model '
         '= to_unescaped_string / like-pattern; non-trivial = accepted expression with >= 3 sub-expressions or an accepted policy (distinct by '
         'canonical AST) or a distinct raw literal',
 'theorems': ['policy_parse_print', 'annotation_round_trip', 'policy_round_trip_text', 'unescape_escape', 'unescape_escape_pattern', 'parse_print_full', 'parse_image', 'parse_print_parse', 'round_trip_meaning', 'round_trip_meaning_text', 'parse_print_partial3',
              'parse_print_partial', 'inFrag3_parserImage', 'parserImage_inFrag3', 'inFrag2_inFrag3'],
 'assumptions': ['PolicyParseImage (the model policy parser only returns PolicyImage objects) is stated, not proved; multi-clause when/unless forms enter the theorems through their folded image, the fold itself is checked by the polparse lines',
                 'the harness tokenizer (token classes of grammar.lalrpop) is trusted',
                 "escape_debug's Unicode tables are not modelled: the theorems quantify over an arbitrary mustEscape predicate",
                 'the LALRPOP-generated tables are tied to the model parser by the (parse ...) correspondence lines, accepts and rejects']}

TEXT = ('Lean theorems over a token-level model of the printer (mirror of est/expr.rs Display / maybe_with_parens) and of the parser (recursive descent for '
 "grammar.lalrpop composed with the cst_to_ast lowerings): unescape(escape s) = s for strings and patterns for every choice of escape_debug's "
 'tables; the full expression-level statement parse_print_full: Parse(Print e) = e for EVERY AST in the parser image (literals incl. entity '
 'uids, slots, member access, like, is, method and extension calls, sets, records, all operators and unparenthesised chains); parse_image: on '
 'well-formed tokens the parser only returns ASTs of that image; parse_print_parse: every accepted token list re-parses to the same AST after '
 'printing (includes a proof of intercalate/splitOn inverse laws for the legacy byte-position String.splitOn); the policy-level statement '
 'policy_parse_print: parsePolicy(printPolicy p) = p for EVERY policy/template in the parser image (annotations with arbitrary values, effect, all scope-constraint forms incl. '
 'slots and is..in, action ==/in [..], no or one folded condition without slots), model = token-level mirror of Display for TemplateBody and of grammar Policy/Annotation/VariableDef/Cond '
 'composed with cst_to_ast (to_policy_template, to_ref_or_refs, construct_template_policy). '
 'Tied to the code by cross-composition runs '
 "(model parser on the real printer's output and on arbitrary generated texts incl. rejects, real parser on the model printer's output) and the "
 'statement itself checked on the implementation for expressions, policies, templates and policy sets with evaluation on random requests.',
 'proof over a hand-written model (expression level and policy/template level complete for print-then-parse; soundness of the policy image predicate, the lexer, policy sets and the EST printer are covered by runs only); correspondence sampled + an exhaustive operator-pair grid; the harness '
 'tokenizer is trusted')
