"""Configuration of ./check C05: harness streams (name, n_quick, n_thorough), rule text, theorem names; MANIFEST texts."""
PROP = {'streams': [('c05', 4000, 250000)],
 'definitional': False,
 'rule': 'expression texts from a grammar-level generator with minimal / full / redundant parenthesisation (depth <= 8), the exhaustive operator x '
         'operator grid (43 operator templates x every child position x 43 children x naked/parenthesised/doubly parenthesised), negative-literal '
         'and i64-boundary forms in every operand position, reserved words / non-identifiers as attribute names and record keys, escape-heavy '
         'strings, entity ids, patterns and annotation values, ASTs built from arbitrary Unicode strings, policies/templates (all scope forms, '
         'slots, annotations, 0-3 when/unless clauses) and policy sets of 5; each accepted text: print, reparse, eq_shape/==, evaluate on random '
         'worlds, both printers (AST Display, EST Display) for policies, sets as multisets modulo ids; lexer lines: lex_model(t) = harness tokenizer(t) token for token (or both report a lexical error) and parsePolicy_model(lex_model(t)) = parse_impl(t) on the raw text, for every generated policy text, every Display output, and 2 noisy re-renderings of each text (token separators drawn from: none, blanks incl. NBSP/EM SPACE/IDEOGRAPHIC SPACE/VT/FF/NEL, CR LF, // comments with quotes and backslashes inside; spliced odd pieces 007 1a ?principalx <== ::: and malformed pieces: unterminated string, backslash-newline in a string, lone ? & | # apostrophe backtick BOM ZWSP); policy-level model lines: Parse_model(lex t) = parse_impl t as a whole policy/template AST (annotations, effect, scope constraints, folded when/unless condition; accepts and rejects) for generated policy texts AND for t = Display(policy), Print_model(policy) ~ lex(Display(policy)) token for token; expression-level model lines: Parse_model(lex t) = parse_impl '
         't (accept and reject), Print_model e ~ lex(print_impl e), parse_impl(render(Print_model e)) = e via the driver sub-process, unescape_model '
         '= to_unescaped_string / like-pattern; non-trivial = accepted expression with >= 3 sub-expressions or an accepted policy (distinct by '
         'canonical AST) or a distinct raw literal',
 'theorems': ['policy_parse_print', 'policy_parse_image', 'policy_round_trip_text_full', 'policy_round_trip_chars', 'lex_print', 'lex_tokWF', 'annotation_round_trip', 'policy_round_trip_text', 'unescape_escape', 'unescape_escape_pattern', 'parse_print_full', 'parse_image', 'parse_print_parse', 'round_trip_meaning', 'round_trip_meaning_text', 'parse_print_partial3',
              'parse_print_partial', 'inFrag3_parserImage', 'parserImage_inFrag3', 'inFrag2_inFrag3'],
 'assumptions': ['the model lexer is tied to the LALRPOP-generated lexer by the (lexpolparse id text) lines (model lex + model parser vs the real parse_policy_or_template on the raw text, no harness tokenizer in between) and to the harness tokenizer by the (lex text) lines; the real lexer\'s token stream itself is not reachable through the public API',
                 'lex_print is stated for single-space rendering and TokOK tokens; that the model printers only emit TokOK tokens is not proved (Display\'s own spacing is covered by the lex / lexpolparse lines on Display output)',
                 'the harness tokenizer (token classes of grammar.lalrpop) is still used for the (parse …)/(polparse …)/(print-check …) lines; it is now itself cross-checked against the model lexer',
                 "escape_debug's Unicode tables are not modelled: the theorems quantify over an arbitrary mustEscape predicate",
                 'the LALRPOP-generated tables are tied to the model parser by the (parse ...) correspondence lines, accepts and rejects']}

TEXT = ('Lean theorems over a token-level model of the printer (mirror of est/expr.rs Display / maybe_with_parens) and of the parser (recursive descent for '
 "grammar.lalrpop composed with the cst_to_ast lowerings): unescape(escape s) = s for strings and patterns for every choice of escape_debug's "
 'tables; the full expression-level statement parse_print_full: Parse(Print e) = e for EVERY AST in the parser image (literals incl. entity '
 'uids, slots, member access, like, is, method and extension calls, sets, records, all operators and unparenthesised chains); parse_image: on '
 'well-formed tokens the parser only returns ASTs of that image; parse_print_parse: every accepted token list re-parses to the same AST after '
 'printing (includes a proof of intercalate/splitOn inverse laws for the legacy byte-position String.splitOn); the policy-level statement '
 'policy_parse_image: the model policy parser only returns objects of the policy image (so policy_round_trip_text_full needs no image hypothesis: any accepted token list, incl. several when/unless clauses, re-parses to the same object after printing); lex_print: the model lexer (mirror of the grammar.lalrpop match block) inverts single-space rendering on every list of lexer-producible tokens; policy_parse_print: parsePolicy(printPolicy p) = p for EVERY policy/template in the parser image (annotations with arbitrary values, effect, all scope-constraint forms incl. '
 'slots and is..in, action ==/in [..], no or one folded condition without slots), model = token-level mirror of Display for TemplateBody and of grammar Policy/Annotation/VariableDef/Cond '
 'composed with cst_to_ast (to_policy_template, to_ref_or_refs, construct_template_policy). '
 'Tied to the code by cross-composition runs '
 "(model parser on the real printer's output and on arbitrary generated texts incl. rejects, real parser on the model printer's output) and the "
 'statement itself checked on the implementation for expressions, policies, templates and policy sets with evaluation on random requests.',
 'proof over a hand-written model (expression level and policy/template level complete for print-then-parse; policy image soundness proved; lexer modelled with lex(render ts) = ts proved for single-space rendering; Display spacing, policy sets and the EST printer are covered by runs only); correspondence sampled + an exhaustive operator-pair grid; the harness '
 'tokenizer is cross-checked against the model lexer, the model lexer + parser against the real parser on raw text')
