"""Configuration of ./check C07: harness streams (name, n_quick, n_thorough), rule text, theorem names; MANIFEST texts."""
PROP = {'streams': [('c07', 6000, 600000)],
 'definitional': True,
 'rule': 'constructor strings from fixed boundary/near-miss lists, grammar-based generators and single-character mutations; every method on pairs of '
         'parsed values incl. i64 extremes; non-trivial = every request (distinct by request text)',
 'theorems': ['offset_exact_or_overflow',
              'durationSince_exact_or_overflow',
              'ext_eq_by_value',
              'decimal_parse_exact',
              'decimal_parse_tooManyDigits',
              'decimal_parse_some_iff',
              'decimal_parse_none_of_not_lang',
              'duration_parse_exact',
              'duration_parse_some_iff',
              'duration_parse_none_of_not_lang',
              'duration_parse_component_overflow',
              'toDate_floor',
              'toTime_range',
              'toDate_add_toTime',
              'toX_truncating',
              'daysFromCivil_epoch',
              'daysFromCivil_consecutive',
              'daysFromCivil_strictMono',
              'network_le_addr_le_broadcast',
              'block_eq_interval',
              'isInRange_spec',
              'network_broadcast_bitmask',
              'isInRange_iff_prefix',
              'loopback_spec',
              'multicast_spec',
              'datetime_parse_exact_date',
              'datetime_parse_exact'],
 'assumptions': ['extension values are read from the Debug form of the private structs (Decimal{value}, IPAddr{addr,prefix}, DateTime{epoch}, '
                 'Duration{ms})']}

TEXT = ('Lean theorems over mirrors of the decimal/ip/datetime/duration parsers and operations (written-out recognisers + checked arithmetic); the model is '
 "the definition of 'exact': any disagreement with the real extension functions on generated strings/values is a failing input.",
 'proof over a hand-written model; std::net / chrono / regex are inside the implementation under check and are re-defined in the model')
