#!/usr/bin/env python3
"""Regenerates MANIFEST.json from props.py (claimed properties) — run after editing props.py."""
import json, os
from props import PROPS, TEXT
ROOT = os.path.dirname(os.path.abspath(__file__))
ALL = [f"C{i:02d}" for i in range(1, 21)]
checks = []
import re
def has_theorems(pid):
    f = os.path.join(ROOT, "lean", "CedarVerif", "Thm", f"{pid}.lean")
    return os.path.exists(f) and re.search(r"^theorem\s", open(f).read(), re.M) is not None
CLAIMED = [p for p in ALL if p in PROPS and p in TEXT and has_theorems(p)]
for pid in ALL:
    if pid not in CLAIMED:
        continue
    text, note = TEXT[pid]
    checks.append({
        "property_id": pid,
        "quick_cmd": f"./check {pid} --tier quick",
        "thorough_cmd": f"./check {pid} --tier thorough",
        "evidence_file": f"/verif/evidence/{pid}.json",
        "replay_cmd_template": f"./check {pid} --replay {{path}}",
        "engine": "lean4-model+rust-differential",
        "level_claimed": {"category": "proof", "text": text, "design_ref": f"DESIGN.md §6 {pid}"},
        "level_note": note + "; trusted base: Lean 4.33 kernel, axioms {propext, Classical.choice, Quot.sound}, Lean compiler for the driver, the Rust harness (generators, serialiser, diff)",
        "technique": "Lean 4 theorems about a hand-written executable model + checked correspondence (differential run of model vs implementation)",
    })
na = [{"property_id": p, "reason": "check not built yet in this round (model and theorems planned in DESIGN.md §6/§7); not claimed until its proof + correspondence run exists"}
      for p in ALL if p not in CLAIMED]
m = {
    "version": 1,
    "setup_cmd": "./setup.sh",
    "hooks": {"guard": "cedar_verif", "enable": "no source hooks are used: the harness links /repo's crates as path dependencies and uses only pub items (RUSTFLAGS='--cfg cedar_verif' reserved)",
              "baseline_off_cmd": "cd /repo && cargo test --workspace --no-fail-fast --offline", "source_commits": [], "add_only": True},
    "engines": [{"name": "lean4-model+rust-differential", "path": "/verif/check", "serves_properties": [c["property_id"] for c in checks],
                 "kind_free_text": "Lean 4 model + theorems (lean/), line-protocol driver (lean_exe), Rust harness linking /repo (harness/), python orchestrator (check)"}],
    "checks": checks,
    "not_applicable": na,
    "notes": "See DESIGN.md. Every check rebuilds the harness against /repo's working tree (cargo build --offline) and re-checks its theorems with lake.",
}
json.dump(m, open(os.path.join(ROOT, "MANIFEST.json"), "w"), indent=1)
print("claimed:", [c["property_id"] for c in checks])
