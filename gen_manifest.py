#!/usr/bin/env python3
"""Regenerates MANIFEST.json from props.py (claimed properties) — run after editing props.py."""
import json, os
from props import PROPS
ROOT = os.path.dirname(os.path.abspath(__file__))
ALL = [f"C{i:02d}" for i in range(1, 21)]
TEXT = {
 "C01": ("Lean theorems over the mirror of the authorizer's bucket loop + Response conversion (allow_iff, deny_otherwise, errors_exact, reasons_exact, "
         "perm_invariant, erroring_not_satisfied) for arbitrary policy lists/requests/stores; tied to the code by a differential run of the compiled model "
         "against Authorizer::is_authorized, plus the statement checked on the implementation under permutation, id respelling, store order and call history.",
         "proof over a hand-written model; correspondence is sampled (generators in harness/src/c01.rs); per-policy evaluation relies on C02's model"),
 "C02": ("Lean theorems over the mirror of the evaluator's value paths (short-circuiting, left-to-right, checked arithmetic, total ==, beq is an equivalence, "
         "set construction order/duplicate-insensitive, contains/containsAll/containsAny/isEmpty, in/has/getAttr/is, like = declarative matcher for all patterns "
         "and strings); the model is the definition: any disagreement with Evaluator::interpret on the generated stream is a failing input.",
         "proof over a hand-written model; correspondence sampled through 6 routes (text, AST, EST, eval_expression, when, unless); error classes only"),
 "C19": ("Lean theorems over the mirror of the FFI's stateful layer (two name->parsed-document caches, preparse_policy_set / preparse_schema insert on parse success only, "
         "stateful_is_authorized = lookup, missing name => Failure, then the stateless tail), with the document parsers and the authorization tail as arbitrary parameters: "
         "cache_refines_latest (after any call history a stateful call answers what the stateless call answers on the latest successfully registered documents; induction over "
         "the history against a 'last acknowledged write' spec), every_reply_refines_latest, failed_preparse_changes_nothing, reregistration_overwrites, "
         "stateful_calls_change_nothing, and the CLI exit-code table (exit_code_table, authorize_exit_reflects_response, validate_exit_table). That the FFI and the CLI "
         "assemble their inputs as the Rust API does (decision, determining policies, erroring ids, validation error ids, converted documents, in every input shape) is NOT a "
         "model theorem: it is checked by the differential run only (ffi vs API, stateful vs stateless, cedar binary vs API), and cache histories are diffed against the model.",
         "proof covers the cache/lookup refinement and the exit-code table only; input assembly vs the API is sampled differential testing (harness/src/c19.rs); "
         "cedar-wasm glue not executable here; CLI built with default features"),
 "C07": ("Lean theorems over mirrors of the decimal/ip/datetime/duration parsers and operations (written-out recognisers + checked arithmetic); the model is the "
         "definition of 'exact': any disagreement with the real extension functions on generated strings/values is a failing input.",
         "proof over a hand-written model; std::net / chrono / regex are inside the implementation under check and are re-defined in the model"),
}
checks = []
for pid in ALL:
    if pid not in PROPS:
        continue
    text, note = TEXT[pid]
    checks.append({
        "property_id": pid,
        "quick_cmd": f"./check {pid} --tier quick",
        "thorough_cmd": f"./check {pid} --tier thorough",
        "evidence_file": f"/verif/evidence/{pid}.json",
        "replay_cmd_template": f"./check {pid} --replay {{path}}",
        "engine": "lean4-model+rust-differential",
        "level_claimed": {"category": "proof", "text": text, "design_ref": f"DESIGN.md §6 {pid}"},
        "level_note": note + "; trusted base: Lean 4.33 kernel, axioms {propext, Classical.choice, Quot.sound}, Lean compiler for the driver, the Rust harness (generators, serialiser, diff)",
        "technique": "Lean 4 theorems about a hand-written executable model + checked correspondence (differential run of model vs implementation)",
    })
na = [{"property_id": p, "reason": "check not built yet in this round (model and theorems planned in DESIGN.md §6/§7); not claimed until its proof + correspondence run exists"}
      for p in ALL if p not in PROPS]
m = {
    "version": 1,
    "setup_cmd": "./setup.sh",
    "hooks": {"guard": "cedar_verif", "enable": "no source hooks are used: the harness links /repo's crates as path dependencies and uses only pub items (RUSTFLAGS='--cfg cedar_verif' reserved)",
              "baseline_off_cmd": "cd /repo && cargo test --workspace --no-fail-fast --offline", "source_commits": [], "add_only": True},
    "engines": [{"name": "lean4-model+rust-differential", "path": "/verif/check", "serves_properties": [c["property_id"] for c in checks],
                 "kind_free_text": "Lean 4 model + theorems (lean/), line-protocol driver (lean_exe), Rust harness linking /repo (harness/), python orchestrator (check)"}],
    "checks": checks,
    "not_applicable": na,
    "notes": "See DESIGN.md. Every check rebuilds the harness against /repo's working tree (cargo build --offline) and re-checks its theorems with lake.",
}
json.dump(m, open(os.path.join(ROOT, "MANIFEST.json"), "w"), indent=1)
print("claimed:", [c["property_id"] for c in checks])
