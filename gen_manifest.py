#!/usr/bin/env python3
"""Regenerates MANIFEST.json from props.py (claimed properties) — run after editing props.py."""
import json, os
from props import PROPS
ROOT = os.path.dirname(os.path.abspath(__file__))
ALL = [f"C{i:02d}" for i in range(1, 21)]
TEXT = {
 "C01": ("Lean theorems over the mirror of the authorizer's bucket loop + Response conversion (allow_iff, deny_otherwise, errors_exact, reasons_exact, "
         "perm_invariant, erroring_not_satisfied) for arbitrary policy lists/requests/stores; tied to the code by a differential run of the compiled model "
         "against Authorizer::is_authorized, plus the statement checked on the implementation under permutation, id respelling, store order and call history.",
         "proof over a hand-written model; correspondence is sampled (generators in harness/src/c01.rs); per-policy evaluation relies on C02's model"),
 "C02": ("Lean theorems over the mirror of the evaluator's value paths (short-circuiting, left-to-right, checked arithmetic, total ==, beq is an equivalence, "
         "set construction order/duplicate-insensitive, contains/containsAll/containsAny/isEmpty, in/has/getAttr/is, like = declarative matcher for all patterns "
         "and strings); the model is the definition: any disagreement with Evaluator::interpret on the generated stream is a failing input.",
         "proof over a hand-written model; correspondence sampled through 6 routes (text, AST, EST, eval_expression, when, unless); error classes only"),
 "C07": ("Lean theorems over mirrors of the decimal/ip/datetime/duration parsers and operations (written-out recognisers + checked arithmetic); the model is the "
         "definition of 'exact': any disagreement with the real extension functions on generated strings/values is a failing input.",
         "proof over a hand-written model; std::net / chrono / regex are inside the implementation under check and are re-defined in the model"),
 "C11": ("Lean theorems over mirrors of the schema-conformance checkers (typecheck_restricted_expr_against_schematype, Type::typecheck_restricted_expr, "
         "validate_entity with attributes/ancestors/tags/enum ids/actions, validate_request with scope variables and context): each checker accepts exactly "
         "the data satisfying a declarative specification (InstanceOfType, ConformsEntity, ConformsContext, ConformsRequest), and every single-fault class of "
         "the statement falsifies the specification; tied to the code by a differential run over generated schemas, conformant data and single-fault mutations "
         "through all 16 schema-taking entry points, which are also compared with each other.",
         "proof over a hand-written model of the checkers on concrete values; the resolved schema is serialised from Rust's ValidatorSchema (schema "
         "construction not modelled); correspondence is sampled (generators in harness/src/gen_schema.rs)"),
 "C09": ("Lean theorems over a thin model of schema TYPE EXPRESSIONS and NAME RESOLUTION only: the parser of the Cedar type grammar inverts the printer of fmt.rs "
         "(type_roundtrip, incl. attribute names that need quoting), JSON -> Cedar -> JSON maps an expression to its entity-or-common form (type_roundtrip_json), and on "
         "declaration environments without common/entity clashes and without shadowing of empty-namespace definitions that form resolves every reference to the same "
         "declaration (resolve_stable; both hypotheses shown necessary). Declarations (entities, actions, appliesTo, memberOf, enums, tags, annotations, namespaces) and "
         "everything else are NOT modelled: they are covered by the four-way differential run on the implementation (JSON -> schema vs JSON -> to_cedarschema -> schema, "
         "Cedar -> schema vs Cedar -> to_json_value -> schema, one further hop each, equality of ValidatorSchema plus identical policy/request/entity validation verdicts).",
         "proof over a hand-written model of type expressions and name resolution; the full statement (FullStatement) is not proved and is in fact violated by the "
         "implementation in three recorded corner cases (known_findings.jsonl: kinded references rebinding after translation, half-empty appliesTo dropped); "
         "correspondence is sampled (generators in harness/src/gen_schema.rs, gen_schema_text.rs)"),
}
checks = []
import re
def has_theorems(pid):
    f = os.path.join(ROOT, "lean", "CedarVerif", "Thm", f"{pid}.lean")
    return os.path.exists(f) and re.search(r"^theorem\s", open(f).read(), re.M) is not None
CLAIMED = [p for p in ALL if p in PROPS and p in TEXT and has_theorems(p)]
for pid in ALL:
    if pid not in CLAIMED:
        continue
    text, note = TEXT[pid]
    checks.append({
        "property_id": pid,
        "quick_cmd": f"./check {pid} --tier quick",
        "thorough_cmd": f"./check {pid} --tier thorough",
        "evidence_file": f"/verif/evidence/{pid}.json",
        "replay_cmd_template": f"./check {pid} --replay {{path}}",
        "engine": "lean4-model+rust-differential",
        "level_claimed": {"category": "proof", "text": text, "design_ref": f"DESIGN.md §6 {pid}"},
        "level_note": note + "; trusted base: Lean 4.33 kernel, axioms {propext, Classical.choice, Quot.sound}, Lean compiler for the driver, the Rust harness (generators, serialiser, diff)",
        "technique": "Lean 4 theorems about a hand-written executable model + checked correspondence (differential run of model vs implementation)",
    })
na = [{"property_id": p, "reason": "check not built yet in this round (model and theorems planned in DESIGN.md §6/§7); not claimed until its proof + correspondence run exists"}
      for p in ALL if p not in CLAIMED]
m = {
    "version": 1,
    "setup_cmd": "./setup.sh",
    "hooks": {"guard": "cedar_verif", "enable": "no source hooks are used: the harness links /repo's crates as path dependencies and uses only pub items (RUSTFLAGS='--cfg cedar_verif' reserved)",
              "baseline_off_cmd": "cd /repo && cargo test --workspace --no-fail-fast --offline", "source_commits": [], "add_only": True},
    "engines": [{"name": "lean4-model+rust-differential", "path": "/verif/check", "serves_properties": [c["property_id"] for c in checks],
                 "kind_free_text": "Lean 4 model + theorems (lean/), line-protocol driver (lean_exe), Rust harness linking /repo (harness/), python orchestrator (check)"}],
    "checks": checks,
    "not_applicable": na,
    "notes": "See DESIGN.md. Every check rebuilds the harness against /repo's working tree (cargo build --offline) and re-checks its theorems with lake.",
}
json.dump(m, open(os.path.join(ROOT, "MANIFEST.json"), "w"), indent=1)
print("claimed:", [c["property_id"] for c in checks])
