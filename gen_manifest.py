#!/usr/bin/env python3
"""Regenerates MANIFEST.json from props.py (claimed properties) — run after editing props.py."""
import json, os
from props import PROPS
ROOT = os.path.dirname(os.path.abspath(__file__))
ALL = [f"C{i:02d}" for i in range(1, 21)]
TEXT = {
 "C01": ("Lean theorems over the mirror of the authorizer's bucket loop + Response conversion (allow_iff, deny_otherwise, errors_exact, reasons_exact, "
         "perm_invariant, erroring_not_satisfied) for arbitrary policy lists/requests/stores; tied to the code by a differential run of the compiled model "
         "against Authorizer::is_authorized, plus the statement checked on the implementation under permutation, id respelling, store order and call history.",
         "proof over a hand-written model; correspondence is sampled (generators in harness/src/c01.rs); per-policy evaluation relies on C02's model"),
 "C02": ("Lean theorems over the mirror of the evaluator's value paths (short-circuiting, left-to-right, checked arithmetic, total ==, beq is an equivalence, "
         "set construction order/duplicate-insensitive, contains/containsAll/containsAny/isEmpty, in/has/getAttr/is, like = declarative matcher for all patterns "
         "and strings); the model is the definition: any disagreement with Evaluator::interpret on the generated stream is a failing input.",
         "proof over a hand-written model; correspondence sampled through 6 routes (text, AST, EST, eval_expression, when, unless); error classes only"),
 "C20": ("Lean theorems that the panic sites kept explicit in the mirrors are unreachable for ALL inputs: the index-form mirror of Pattern::wildcard_match "
         "(`pattern[j]`, `text[i]`, fuel) never panics and equals the declarative matcher; `contains_at_least_two` always slices on a char boundary inside the "
         "string; the `unwrap`s after the datetime/duration regex captures (<=4-digit numbers into u32, offset TimeDelta in range, ASCII-prefix slices) cannot "
         "fail. Correspondence: the `like` boundary stream is answered by the compiled index-form mirror (a `panic:`/`fuel` reply would show in the diff). "
         "Every other text/JSON/bytes entry point (policies, templates, expressions, both schema syntaxes, entities, contexts, EST, protobuf, FFI JSON) and "
         "every pipeline parse -> {print, to_json, format, validate, authorize, link, encode} plus rendering of every error/warning is exercised by a "
         "malformed-input stream in child processes under catch_unwind.",
         "PARTIAL BY DESIGN: the theorems cover only the three mirrored components. For all unmodelled entry points (parser, CST->AST, error rendering, schema "
         "code, EST, protobuf, FFI, formatter, validator, authorizer glue) the evidence is 'no panic on the explored inputs' — a count per entry point "
         "(evidence coverage.distribution: ep.<entry point>.ok / .err, epgroup.<group>.inputs, pipeline.<stage>, render.*), NOT a theorem; nesting depth <= 48; "
         "aborts/hangs are caught per child process"),
 "C07": ("Lean theorems over mirrors of the decimal/ip/datetime/duration parsers and operations (written-out recognisers + checked arithmetic); the model is the "
         "definition of 'exact': any disagreement with the real extension functions on generated strings/values is a failing input.",
         "proof over a hand-written model; std::net / chrono / regex are inside the implementation under check and are re-defined in the model"),
}
checks = []
for pid in ALL:
    if pid not in PROPS:
        continue
    text, note = TEXT[pid]
    checks.append({
        "property_id": pid,
        "quick_cmd": f"./check {pid} --tier quick",
        "thorough_cmd": f"./check {pid} --tier thorough",
        "evidence_file": f"/verif/evidence/{pid}.json",
        "replay_cmd_template": f"./check {pid} --replay {{path}}",
        "engine": "lean4-model+rust-differential",
        "level_claimed": {"category": "proof", "text": text, "design_ref": f"DESIGN.md §6 {pid}"},
        "level_note": note + "; trusted base: Lean 4.33 kernel, axioms {propext, Classical.choice, Quot.sound}, Lean compiler for the driver, the Rust harness (generators, serialiser, diff)",
        "technique": "Lean 4 theorems about a hand-written executable model + checked correspondence (differential run of model vs implementation)",
    })
na = [{"property_id": p, "reason": "check not built yet in this round (model and theorems planned in DESIGN.md §6/§7); not claimed until its proof + correspondence run exists"}
      for p in ALL if p not in PROPS]
m = {
    "version": 1,
    "setup_cmd": "./setup.sh",
    "hooks": {"guard": "cedar_verif", "enable": "no source hooks are used: the harness links /repo's crates as path dependencies and uses only pub items (RUSTFLAGS='--cfg cedar_verif' reserved)",
              "baseline_off_cmd": "cd /repo && cargo test --workspace --no-fail-fast --offline", "source_commits": [], "add_only": True},
    "engines": [{"name": "lean4-model+rust-differential", "path": "/verif/check", "serves_properties": [c["property_id"] for c in checks],
                 "kind_free_text": "Lean 4 model + theorems (lean/), line-protocol driver (lean_exe), Rust harness linking /repo (harness/), python orchestrator (check)"}],
    "checks": checks,
    "not_applicable": na,
    "notes": "See DESIGN.md. Every check rebuilds the harness against /repo's working tree (cargo build --offline) and re-checks its theorems with lake.",
}
json.dump(m, open(os.path.join(ROOT, "MANIFEST.json"), "w"), indent=1)
print("claimed:", [c["property_id"] for c in checks])
