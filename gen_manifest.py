#!/usr/bin/env python3
"""Regenerates MANIFEST.json from props.py (claimed properties) — run after editing props.py."""
import json, os
from props import PROPS
ROOT = os.path.dirname(os.path.abspath(__file__))
ALL = [f"C{i:02d}" for i in range(1, 21)]
TEXT = {
 "C01": ("Lean theorems over the mirror of the authorizer's bucket loop + Response conversion (allow_iff, deny_otherwise, errors_exact, reasons_exact, "
         "perm_invariant, erroring_not_satisfied) for arbitrary policy lists/requests/stores; tied to the code by a differential run of the compiled model "
         "against Authorizer::is_authorized, plus the statement checked on the implementation under permutation, id respelling, store order and call history.",
         "proof over a hand-written model; correspondence is sampled (generators in harness/src/c01.rs); per-policy evaluation relies on C02's model"),
 "C02": ("Lean theorems over the mirror of the evaluator's value paths (short-circuiting, left-to-right, checked arithmetic, total ==, beq is an equivalence, "
         "set construction order/duplicate-insensitive, contains/containsAll/containsAny/isEmpty, in/has/getAttr/is, like = declarative matcher for all patterns "
         "and strings); the model is the definition: any disagreement with Evaluator::interpret on the generated stream is a failing input.",
         "proof over a hand-written model; correspondence sampled through 6 routes (text, AST, EST, eval_expression, when, unless); error classes only"),
 "C04": ("Lean theorems over the mirror of the entity store's hierarchy maintenance (from/add/upsert/remove_entities with the three TCComputation modes, "
         "update_entity_map/deep_eq, the touched-set bookkeeping and stale-edge stripping, repair_tc + add_ancestors DFS, enforce_tc_and_dag): enforce_exact, "
         "repair_tc exact on acyclic graphs and rejecting only real cycles, the store invariant (ancestors = Reach+ over direct-parent links, acyclic, "
         "parents/indirect disjoint) preserved by the operations, history induction, `in` = reflexive reachability; the model+spec define reachability: any "
         "disagreement with Entities::{from,add,upsert,remove}_entities on generated histories (random + exhaustive small scope) is a failing input.",
         "proof over a hand-written model; remove_entities is proved at full strength (any uid list), add_entities for any batch and upsert_entities for "
         "one-entity batches on acyclic results plus soundness of rejection; cyclic_tc's SCC internals are modelled by contract; completeness of cycle "
         "detection, multi-entity upsert batches and the compute_tc contract are stated in full (defs ...Full / named residual hypotheses of "
         "history_inv_partial) but only checked by the correspondence; correspondence is sampled + exhaustive on <=3 uids"),
 "C05": ("Lean theorems over a token-level model of the printer (mirror of est/expr.rs Display / maybe_with_parens) and of the parser (recursive descent for "
         "grammar.lalrpop composed with the cst_to_ast lowerings): unescape(escape s) = s for strings and patterns for every choice of escape_debug's tables; "
         "Parse(Print e) = e on a stated fragment (parse_print_partial, full statement kept as a def). Tied to the code by cross-composition runs "
         "(model parser on the real printer's output and on arbitrary generated texts incl. rejects, real parser on the model printer's output) and the "
         "statement itself checked on the implementation for expressions, policies, templates and policy sets with evaluation on random requests.",
         "proof over a hand-written model; parse_print proved for a fragment only; correspondence sampled + an exhaustive operator-pair grid; the harness tokenizer is trusted"),
 "C06": ("Lean theorems over a mirror of the JSON policy format (est/expr.rs, est.rs, scope_constraints.rs, entities/json/value.rs): est_roundtrip "
         "(toExpr (ofExpr e) = e for every well-formed expression), est_policy_roundtrip (policies/templates and link records), est_eval (an accepted JSON policy "
         "evaluates as the expression it denotes), pst/proto round trips on message-tree models; the property itself (JSON via CST->EST and AST->EST, PST, protobuf, "
         "policy sets with links, equal responses, printed-text re-parse) is checked on the implementation for generated text and hand-built JSON policies, and the "
         "compiled model is compared with from_json/to_json by cross-composition.",
         "proof over a hand-written model; prost's byte encoding and serde/serde_json are NOT modelled: only their round trip is sampled; PST/protobuf theorems are about tree models"),
 "C07": ("Lean theorems over mirrors of the decimal/ip/datetime/duration parsers and operations (written-out recognisers + checked arithmetic); the model is the "
         "definition of 'exact': any disagreement with the real extension functions on generated strings/values is a failing input.",
         "proof over a hand-written model; std::net / chrono / regex are inside the implementation under check and are re-defined in the model"),
 "C11": ("Lean theorems over mirrors of the schema-conformance checkers (typecheck_restricted_expr_against_schematype, Type::typecheck_restricted_expr, "
         "validate_entity with attributes/ancestors/tags/enum ids/actions, validate_request with scope variables and context): each checker accepts exactly "
         "the data satisfying a declarative specification (InstanceOfType, ConformsEntity, ConformsContext, ConformsRequest), and every single-fault class of "
         "the statement falsifies the specification; tied to the code by a differential run over generated schemas, conformant data and single-fault mutations "
         "through all 16 schema-taking entry points, which are also compared with each other.",
         "proof over a hand-written model of the checkers on concrete values; the resolved schema is serialised from Rust's ValidatorSchema (schema "
         "construction not modelled); correspondence is sampled (generators in harness/src/gen_schema.rs)"),
 "C08": ("Lean theorems over mirrors of Template::link/check_binding/condition, of ast::PolicySet (templates, links, template_to_links_map; add_static, "
         "add_template, link, unlink, remove_static, remove_template, merge_policyset) and of the public cedar_policy::PolicySet layer: link_eq_subst (evaluating a "
         "linked policy = evaluating the substituted static policy, by induction over expressions), link_ok_iff, the representation invariant and its preservation "
         "by every non-merge operation, failed operations change nothing, panic sites unreachable, histories, authorization = authorization over the substituted "
         "static policies; tied to the code by a differential run over operation histories (both layers) plus an abstract-specification oracle evaluated on the implementation.",
         "proof over a hand-written model; merge_policyset's invariant preservation and the refinement of the abstract specification are stated but checked only by the "
         "sampled/exhaustive-small-scope correspondence and the harness oracle"),
}
checks = []
import re
def has_theorems(pid):
    f = os.path.join(ROOT, "lean", "CedarVerif", "Thm", f"{pid}.lean")
    return os.path.exists(f) and re.search(r"^theorem\s", open(f).read(), re.M) is not None
CLAIMED = [p for p in ALL if p in PROPS and p in TEXT and has_theorems(p)]
for pid in ALL:
    if pid not in CLAIMED:
        continue
    text, note = TEXT[pid]
    checks.append({
        "property_id": pid,
        "quick_cmd": f"./check {pid} --tier quick",
        "thorough_cmd": f"./check {pid} --tier thorough",
        "evidence_file": f"/verif/evidence/{pid}.json",
        "replay_cmd_template": f"./check {pid} --replay {{path}}",
        "engine": "lean4-model+rust-differential",
        "level_claimed": {"category": "proof", "text": text, "design_ref": f"DESIGN.md §6 {pid}"},
        "level_note": note + "; trusted base: Lean 4.33 kernel, axioms {propext, Classical.choice, Quot.sound}, Lean compiler for the driver, the Rust harness (generators, serialiser, diff)",
        "technique": "Lean 4 theorems about a hand-written executable model + checked correspondence (differential run of model vs implementation)",
    })
na = [{"property_id": p, "reason": "check not built yet in this round (model and theorems planned in DESIGN.md §6/§7); not claimed until its proof + correspondence run exists"}
      for p in ALL if p not in CLAIMED]
m = {
    "version": 1,
    "setup_cmd": "./setup.sh",
    "hooks": {"guard": "cedar_verif", "enable": "no source hooks are used: the harness links /repo's crates as path dependencies and uses only pub items (RUSTFLAGS='--cfg cedar_verif' reserved)",
              "baseline_off_cmd": "cd /repo && cargo test --workspace --no-fail-fast --offline", "source_commits": [], "add_only": True},
    "engines": [{"name": "lean4-model+rust-differential", "path": "/verif/check", "serves_properties": [c["property_id"] for c in checks],
                 "kind_free_text": "Lean 4 model + theorems (lean/), line-protocol driver (lean_exe), Rust harness linking /repo (harness/), python orchestrator (check)"}],
    "checks": checks,
    "not_applicable": na,
    "notes": "See DESIGN.md. Every check rebuilds the harness against /repo's working tree (cargo build --offline) and re-checks its theorems with lake.",
}
json.dump(m, open(os.path.join(ROOT, "MANIFEST.json"), "w"), indent=1)
print("claimed:", [c["property_id"] for c in checks])
