#!/bin/sh
# seedrun.sh <patch.diff> <PROP>... : run checks against a scratch copy of /repo with a seeded change applied,
# WITHOUT touching /repo (used while other work builds against /repo). The registered checks themselves always
# run against /repo; this is only a test bench for the machinery.
set -e
patch="$1"; shift
SR=/work/seedrepo${SEEDSUFFIX:-}; SV=/work/seedverif${SEEDSUFFIX:-}
if [ ! -d $SR ]; then git -C /repo worktree add -q --detach $SR HEAD; fi
git -C $SR checkout -q -- . && git -C $SR clean -fdq -e target
git -C $SR checkout -q --detach "$(git -C /repo rev-parse HEAD)"
git -C $SR apply "$patch"
mkdir -p $SV
rsync -a --delete --exclude harness/target --exclude work --exclude .git --exclude replay --exclude evidence /verif/ $SV/
sed -i "s#/repo/#$SR/#g" $SV/harness/Cargo.toml
if [ ! -d $SV/harness/target ]; then cp -r /verif/harness/target $SV/harness/target; fi
cd $SV
rc=0
for p in "$@"; do ./check $p || rc=1; done
git -C $SR checkout -q -- .
exit $rc
