"""Per-property configuration of ./check. streams = (harness stream, n quick, n thorough)."""
PROPS = {
    "C01": {
        "streams": [("c01", 1500, 60000)],
        "definitional": False,
        "rule": "policy sets of 0-8 policies (permit/forbid x satisfied/unsatisfied/erroring x static/template-linked), "
                "all 6^n effect-outcome vectors n<=4 plus random sets; each run under 2 permutations, 2 id respellings, reversed entity "
                "insertion order, reused and fresh Authorizer; non-trivial = has >=1 erroring policy and both effects; distinct by canonical text",
        "theorems": ["allow_iff", "deny_otherwise", "errors_exact", "reasons_exact", "perm_invariant", "erroring_not_satisfied"],
        "assumptions": ["per-policy evaluation is tied to the code by C02's correspondence"],
    },
    "C02": {
        "streams": [("c02", 3000, 400000)],
        "definitional": True,
        "rule": "operator x operand-kind grid (every unary/binary operator on every pair of ~35 operand kinds) plus typed random "
                "expressions with 6% ill-typed nodes; each evaluated via text parse, generated AST, EST JSON, eval_expression, when- and "
                "unless-clause through is_authorized; non-trivial = >=4 subexpressions; distinct by canonical text+result",
        "theorems": ["like_correct", "and_short", "or_short", "arith_checked", "eq_total", "set_order_dup_insensitive"],
        "assumptions": ["error classes, not messages, are compared", "stored ancestor sets are taken from the store as built (closure is C04's subject)"],
    },
    "C07": {
        "streams": [("c07", 6000, 600000)],
        "definitional": True,
        "rule": "constructor strings from fixed boundary/near-miss lists, grammar-based generators and single-character mutations; every "
                "method on pairs of parsed values incl. i64 extremes; non-trivial = every request (distinct by request text)",
        "theorems": ["offset_exact_or_overflow", "durationSince_exact_or_overflow", "ext_eq_by_value"],
        "assumptions": ["extension values are read from the Debug form of the private structs (Decimal{value}, IPAddr{addr,prefix}, DateTime{epoch}, Duration{ms})"],
    },
    "C12": {
        "streams": [("c12", 12, 1200)],
        "definitional": False,
        "rule": "policy-set texts: 28 hand-written surface-syntax policies (trailing commas at every Comma<E> site, templates, annotations, "
                "every operator, nested unary ops, keywords as keys, long lines, multi-line strings) + generated programs of 1-4 policies (c01 policy "
                "generator, gen.rs expressions via Display, annotations, parse-validated surface mutations: trailing commas, parentheses, blank lines/CRLF/tabs); "
                "per program: comment-free text on the full grid line_width {1,20,40,80,120} x indent {0,2,4,8} with idempotence; one comment injected at EACH token "
                "boundary in turn in 3 styles (trailing, own line, two lines with blank line) with configs rotating over the grid (full grid on 2 corpus programs in "
                "quick, on all in thorough); comments at all boundaries at once; every output re-formatted under the same and another config; "
                "predicates: no error/panic, parse(output) structurally identical (ids, effect, annotations + order, scope, eq_shape; templates included), "
                "comments preserved in order (independent scanner), fmt(fmt(x))==fmt(x) on comment-free text, token sequence unchanged up to trailing commas; "
                "model lines: token stream + comment attachment of the formatter's lexer vs the Lean mirror on inputs and outputs; "
                "non-trivial = program with >=25 tokens (distinct by text)",
        "theorems": ["render_tokens", "render_comment_safe", "toDoc_tokens_partial", "toDoc_comments_partial", "toDocFixed_comments", "toDoc_safe", "pipeline_correct"],
        "assumptions": ["theorems cover the abstract layout algebra and the expression-CST core with resolved tokens; the `pretty` crate, the span lookups of utils.rs, "
                        "Policy/VariableDef/Cond/Annotation docs, remove_empty_lines and the string-level re-lexing of outputs are covered by the differential/property run only",
                        "comment identity = trimmed text of the comment line"],
    },
}
