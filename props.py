"""Per-property configuration of ./check. streams = (harness stream, n quick, n thorough)."""
PROPS = {
    "C01": {
        "streams": [("c01", 1500, 60000)],
        "definitional": False,
        "rule": "policy sets of 0-8 policies (permit/forbid x satisfied/unsatisfied/erroring x static/template-linked), "
                "all 6^n effect-outcome vectors n<=4 plus random sets; each run under 2 permutations, 2 id respellings, reversed entity "
                "insertion order, reused and fresh Authorizer; non-trivial = has >=1 erroring policy and both effects; distinct by canonical text",
        "theorems": ["allow_iff", "deny_otherwise", "errors_exact", "reasons_exact", "perm_invariant", "erroring_not_satisfied"],
        "assumptions": ["per-policy evaluation is tied to the code by C02's correspondence"],
    },
    "C02": {
        "streams": [("c02", 3000, 400000)],
        "definitional": True,
        "rule": "operator x operand-kind grid (every unary/binary operator on every pair of ~35 operand kinds) plus typed random "
                "expressions with 6% ill-typed nodes; each evaluated via text parse, generated AST, EST JSON, eval_expression, when- and "
                "unless-clause through is_authorized; non-trivial = >=4 subexpressions; distinct by canonical text+result",
        "theorems": ["like_correct", "and_short", "or_short", "arith_checked", "eq_total", "set_order_dup_insensitive"],
        "assumptions": ["error classes, not messages, are compared", "stored ancestor sets are taken from the store as built (closure is C04's subject)"],
    },
    "C07": {
        "streams": [("c07", 6000, 600000)],
        "definitional": True,
        "rule": "constructor strings from fixed boundary/near-miss lists, grammar-based generators and single-character mutations; every "
                "method on pairs of parsed values incl. i64 extremes; non-trivial = every request (distinct by request text)",
        "theorems": ["offset_exact_or_overflow", "durationSince_exact_or_overflow", "ext_eq_by_value"],
        "assumptions": ["extension values are read from the Debug form of the private structs (Decimal{value}, IPAddr{addr,prefix}, DateTime{epoch}, Duration{ms})"],
    },
    "C20": {
        "streams": [("c20", 30000, 3000000)],
        "definitional": False,
        "rule": "documents = valid policies/templates/expressions/EST JSON/schemas (both syntaxes)/entities/contexts/FFI calls/protobuf bytes "
                "generated from the C01/C02 generators and fixed schemas, then (6%) left valid, (11%) nested 1..48 deep (parentheses, unary operators, "
                "sets, records, conditionals, calls, JSON arrays/objects, schema types), (8%) random bytes/tokens, (75%) 1-5 stacked byte/char/token/"
                "structure-aware mutations (bit flip, byte insert/delete/replace, chunk delete/dup, truncation, multi-byte char insert, token delete/dup/"
                "swap/replace/insert from a grammar dictionary, splice of another document, nest-wrap, boundary numerals, odd string escapes, JSON node "
                "replacement/key rename/duplicate key); every document goes to all entry points of its family (1 in 12 to ALL entry points), raw bytes "
                "incl. invalid UTF-8 to the *_file and protobuf APIs; whatever parses runs print/to_json/format/validate/authorize/link/encode; every "
                "error and warning is rendered (Display, Debug, help, labels read back, related, 3 miette handlers, Report). non-trivial = a mutated "
                "document that produced a rendered labelled span or still parsed and ran a downstream stage; distinct by family+bytes. "
                "Request lines = `like` boundary cases (all patterns over {a,b,*} up to length 4 x all texts up to length 4, plus random) against "
                "the index-form mirror whose reply carries `panic:<site>` / `fuel` outcomes, and datetime() strings (fixed boundary list + 1-2 char "
                "mutations incl. multi-byte chars) against the panic-site-explicit mirror of parse_datetime",
        "theorems": ["no_panic_wildcard", "wmIdx_eq_M", "no_panic_contains_at_least_two", "contains_at_least_two_spec", "no_panic_datetime_captures", "capture_parses_u32", "slice_after_prefix", "offset_timedelta_in_range"],
        "assumptions": [
            "theorems cover the mirrored components only (wildcard_match, contains_at_least_two, the datetime/duration capture unwraps); for every "
            "other entry point the evidence is 'no panic on the explored inputs', counted per entry point in coverage.distribution (ep.<name>.tried/ok/err)",
            "nesting depth <= 48; level validation is skipped for documents with more than 10 conditionals and FFI format calls with |width| > 100000 "
            "are skipped (both behaviours are reported separately as known findings by dedicated probes)",
            "aborts (stack overflow, allocation failure) and hangs are detected per child process and attributed to the case via a progress file",
        ],
    },
}
