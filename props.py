"""Per-property configuration of ./check. streams = (harness stream, n quick, n thorough)."""
PROPS = {
    "C01": {
        "streams": [("c01", 1500, 60000)],
        "definitional": False,
        "rule": "policy sets of 0-8 policies (permit/forbid x satisfied/unsatisfied/erroring x static/template-linked), "
                "all 6^n effect-outcome vectors n<=4 plus random sets; each run under 2 permutations, 2 id respellings, reversed entity "
                "insertion order, reused and fresh Authorizer; non-trivial = has >=1 erroring policy and both effects; distinct by canonical text",
        "theorems": ["allow_iff", "deny_otherwise", "errors_exact", "reasons_exact", "perm_invariant", "erroring_not_satisfied"],
        "assumptions": ["per-policy evaluation is tied to the code by C02's correspondence"],
    },
    "C02": {
        "streams": [("c02", 3000, 400000)],
        "definitional": True,
        "rule": "operator x operand-kind grid (every unary/binary operator on every pair of ~35 operand kinds) plus typed random "
                "expressions with 6% ill-typed nodes; each evaluated via text parse, generated AST, EST JSON, eval_expression, when- and "
                "unless-clause through is_authorized; non-trivial = >=4 subexpressions; distinct by canonical text+result",
        "theorems": ["like_correct", "and_short", "or_short", "arith_checked", "eq_total", "set_order_dup_insensitive"],
        "assumptions": ["error classes, not messages, are compared", "stored ancestor sets are taken from the store as built (closure is C04's subject)"],
    },
    "C07": {
        "streams": [("c07", 6000, 600000)],
        "definitional": True,
        "rule": "constructor strings from fixed boundary/near-miss lists, grammar-based generators and single-character mutations; every "
                "method on pairs of parsed values incl. i64 extremes; non-trivial = every request (distinct by request text)",
        "theorems": ["offset_exact_or_overflow", "durationSince_exact_or_overflow", "ext_eq_by_value"],
        "assumptions": ["extension values are read from the Debug form of the private structs (Decimal{value}, IPAddr{addr,prefix}, DateTime{epoch}, Duration{ms})"],
    },
    "C08": {
        "streams": [("c08", 1200, 300000)],
        "definitional": False,
        "rule": "(a) random histories of 1-12 operations (add, add_static, add_template, link, unlink, remove_static, remove_template, merge with/without "
                "renaming, add of a template-linked policy) with ids from a pool of 5 (incl. policy0/policy1, the ids merge generates) over two registers, through "
                "cedar_policy_core::ast::PolicySet and the public cedar_policy::PolicySet; templates with every ==/in/is..in slot form, exact/missing/extra bindings; "
                "after each op: ok/error kind, renaming, sorted listing from policies()/templates()/get_linked_policies(), authorization on 2 requests. "
                "(b) linked policy vs Rust parse of the textually substituted static policy on random worlds. (c) all histories of length <=2 (quick) / <=3 (thorough) "
                "over 2 ids and a 24-letter op alphabet, merge partner fixed. non-trivial = history with >=1 failed op and >=1 successful link, or a linkeq case; "
                "distinct by request text",
        "theorems": ["link_eq_subst", "link_outcome_eq_subst", "link_ok_iff", "pset_link_ok_iff", "op_inv", "op_fail_unchanged", "no_panic", "history_inv", "authorize_considers_exactly_links", "api_add_is_add_static", "api_op_inv", "api_history_inv", "refines_spec_partial"],
        "assumptions": ["merge_policyset is covered by the correspondence and the harness oracle only (MergeInv, RefinesSpec, ApiProjection are stated as `def : Prop`, not proved)",
                        "core-only histories outside the public API's envelope (core link on a static policy's id, core add of a template-linked Policy, slot-less template) are compared with the model but excluded from the statement's checks; they can break the invariant and reach the panic in unlink",
                        "source locations and the lossless (text/EST/PST) copies kept by the API layer are not modelled"],
    },
}
