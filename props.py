"""Per-property configuration of ./check, one file per property under propsd/ (PROP dict + TEXT for the manifest)."""
import importlib.util, os, glob
PROPS, TEXT = {}, {}
for _f in sorted(glob.glob(os.path.join(os.path.dirname(os.path.abspath(__file__)), "propsd", "C*.py"))):
    _spec = importlib.util.spec_from_file_location("propsd_" + os.path.basename(_f)[:-3], _f)
    _m = importlib.util.module_from_spec(_spec); _spec.loader.exec_module(_m)
    PROPS[os.path.basename(_f)[:-3]] = _m.PROP
    TEXT[os.path.basename(_f)[:-3]] = _m.TEXT
