"""Per-property configuration of ./check. streams = (harness stream, n quick, n thorough)."""
PROPS = {
    "C01": {
        "streams": [("c01", 1500, 60000)],
        "definitional": False,
        "rule": "policy sets of 0-8 policies (permit/forbid x satisfied/unsatisfied/erroring x static/template-linked), "
                "all 6^n effect-outcome vectors n<=4 plus random sets; each run under 2 permutations, 2 id respellings, reversed entity "
                "insertion order, reused and fresh Authorizer; non-trivial = has >=1 erroring policy and both effects; distinct by canonical text",
        "theorems": ["allow_iff", "deny_otherwise", "errors_exact", "reasons_exact", "perm_invariant", "erroring_not_satisfied"],
        "assumptions": ["per-policy evaluation is tied to the code by C02's correspondence"],
    },
    "C02": {
        "streams": [("c02", 3000, 400000)],
        "definitional": True,
        "rule": "operator x operand-kind grid (every unary/binary operator on every pair of ~35 operand kinds) plus typed random "
                "expressions with 6% ill-typed nodes; each evaluated via text parse, generated AST, EST JSON, eval_expression, when- and "
                "unless-clause through is_authorized; non-trivial = >=4 subexpressions; distinct by canonical text+result",
        "theorems": ["like_correct", "and_short", "or_short", "arith_checked", "eq_total", "set_order_dup_insensitive"],
        "assumptions": ["error classes, not messages, are compared", "stored ancestor sets are taken from the store as built (closure is C04's subject)"],
    },
    "C07": {
        "streams": [("c07", 6000, 600000)],
        "definitional": True,
        "rule": "constructor strings from fixed boundary/near-miss lists, grammar-based generators and single-character mutations; every "
                "method on pairs of parsed values incl. i64 extremes; non-trivial = every request (distinct by request text)",
        "theorems": ["offset_exact_or_overflow", "durationSince_exact_or_overflow", "ext_eq_by_value"],
        "assumptions": ["extension values are read from the Debug form of the private structs (Decimal{value}, IPAddr{addr,prefix}, DateTime{epoch}, Duration{ms})"],
    },
    "C13": {
        "streams": [("c13", 2000, 60000)],
        "definitional": False,
        "rule": "1-6 policies from c01's generator (scope forms incl. is/==/in, template links, forced sat/unsat/error and random typed conditions) x "
                "requests with every subset of {principal, resource, context} unknown (typed/untyped entries, missing context, context attributes that are "
                "Unknown nodes, unknown(\"x\") calls, unknowns nested in sets/records/constructor calls) x entity attributes/tags with unknowns x complete and "
                ".partial() stores; per case 3 (quick) / 8 (thorough) substitutions of values of the declared kinds; each substitution: reauthorize (store with "
                "unknown attributes kept, and substituted) vs fresh concrete is_authorized vs model; non-trivial = at least one residual policy; distinct by canonical request+policies",
        "theorems": ["table_sound", "pinterp_sound_partial", "reauthorize_eq_fresh", "reauthorize_eq_fresh_frag"],
        "assumptions": ["error classes are not compared between residual evaluation and concrete evaluation (the property says 'errors')",
                        "unknowns created by a partial store for missing entities are substituted by the entity itself; the completed store is the full store",
                        "an unknown nested inside an entity attribute value is only discovered by the reauthorize round that first dereferences the entity "
                        "(documented as 'undiscovered unknowns' in Expr::substitute); a second round with the same substitution is allowed before comparing",
                        "policies calling unknown(\"x\") themselves are only diffed against the model (no concrete counterpart exists)"],
    },
}
