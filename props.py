"""Per-property configuration of ./check. streams = (harness stream, n quick, n thorough)."""
PROPS = {
    "C01": {
        "streams": [("c01", 1500, 60000)],
        "definitional": False,
        "rule": "policy sets of 0-8 policies (permit/forbid x satisfied/unsatisfied/erroring x static/template-linked), "
                "all 6^n effect-outcome vectors n<=4 plus random sets; each run under 2 permutations, 2 id respellings, reversed entity "
                "insertion order, reused and fresh Authorizer; non-trivial = has >=1 erroring policy and both effects; distinct by canonical text",
        "theorems": ["allow_iff", "deny_otherwise", "errors_exact", "reasons_exact", "perm_invariant", "erroring_not_satisfied"],
        "assumptions": ["per-policy evaluation is tied to the code by C02's correspondence"],
    },
    "C02": {
        "streams": [("c02", 3000, 400000)],
        "definitional": True,
        "rule": "operator x operand-kind grid (every unary/binary operator on every pair of ~35 operand kinds) plus typed random "
                "expressions with 6% ill-typed nodes; each evaluated via text parse, generated AST, EST JSON, eval_expression, when- and "
                "unless-clause through is_authorized; non-trivial = >=4 subexpressions; distinct by canonical text+result",
        "theorems": ["like_correct", "and_short", "or_short", "arith_checked", "eq_total", "set_order_dup_insensitive"],
        "assumptions": ["error classes, not messages, are compared", "stored ancestor sets are taken from the store as built (closure is C04's subject)"],
    },
    "C05": {
        "streams": [("c05", 4000, 250000)],
        "definitional": False,
        "rule": "expression texts from a grammar-level generator with minimal / full / redundant parenthesisation (depth <= 8), the exhaustive "
                "operator x operator grid (43 operator templates x every child position x 43 children x naked/parenthesised/doubly parenthesised), "
                "negative-literal and i64-boundary forms in every operand position, reserved words / non-identifiers as attribute names and record keys, "
                "escape-heavy strings, entity ids, patterns and annotation values, ASTs built from arbitrary Unicode strings, policies/templates (all scope "
                "forms, slots, annotations, 0-3 when/unless clauses) and policy sets of 5; each accepted text: print, reparse, eq_shape/==, evaluate on "
                "random worlds, both printers (AST Display, EST Display) for policies, sets as multisets modulo ids; model lines: Parse_model(lex t) = "
                "parse_impl t (accept and reject), Print_model e ~ lex(print_impl e), parse_impl(render(Print_model e)) = e via the driver sub-process, "
                "unescape_model = to_unescaped_string / like-pattern; non-trivial = accepted expression with >= 3 sub-expressions or an accepted policy "
                "(distinct by canonical AST) or a distinct raw literal",
        "theorems": ["unescape_escape", "unescape_escape_pattern", "parse_print_partial"],
        "assumptions": ["the harness tokenizer (token classes of grammar.lalrpop) is trusted",
                        "escape_debug's Unicode tables are not modelled: the theorems quantify over an arbitrary mustEscape predicate",
                        "the LALRPOP-generated tables are tied to the model parser by the (parse ...) correspondence lines, accepts and rejects"],
    },
    "C07": {
        "streams": [("c07", 6000, 600000)],
        "definitional": True,
        "rule": "constructor strings from fixed boundary/near-miss lists, grammar-based generators and single-character mutations; every "
                "method on pairs of parsed values incl. i64 extremes; non-trivial = every request (distinct by request text)",
        "theorems": ["offset_exact_or_overflow", "durationSince_exact_or_overflow", "ext_eq_by_value"],
        "assumptions": ["extension values are read from the Debug form of the private structs (Decimal{value}, IPAddr{addr,prefix}, DateTime{epoch}, Duration{ms})"],
    },
}
