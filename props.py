"""Per-property configuration of ./check. streams = (harness stream, n quick, n thorough)."""
PROPS = {
    "C01": {
        "streams": [("c01", 1500, 60000)],
        "definitional": False,
        "rule": "policy sets of 0-8 policies (permit/forbid x satisfied/unsatisfied/erroring x static/template-linked), "
                "all 6^n effect-outcome vectors n<=4 plus random sets; each run under 2 permutations, 2 id respellings, reversed entity "
                "insertion order, reused and fresh Authorizer; non-trivial = has >=1 erroring policy and both effects; distinct by canonical text",
        "theorems": ["allow_iff", "deny_otherwise", "errors_exact", "reasons_exact", "perm_invariant", "erroring_not_satisfied", "store_extensional", "rename_equivariant", "mirror_eq_spec"],
        "assumptions": ["per-policy evaluation is tied to the code by C02's correspondence"],
    },
    "C02": {
        "streams": [("c02", 3000, 400000)],
        "definitional": True,
        "rule": "operator x operand-kind grid (every unary/binary operator on every pair of ~35 operand kinds) plus typed random "
                "expressions with 6% ill-typed nodes; each evaluated via text parse, generated AST, EST JSON, eval_expression, when- and "
                "unless-clause through is_authorized; non-trivial = >=4 subexpressions; distinct by canonical text+result",
        "theorems": ["like_correct", "and_short", "or_short", "arith_checked", "eq_total", "set_order_dup_insensitive"],
        "assumptions": ["error classes, not messages, are compared", "stored ancestor sets are taken from the store as built (closure is C04's subject)"],
    },
    "C04": {
        "streams": [("c04", 4000, 400000)],
        "definitional": True,
        "rule": "histories of 1-8 operations (from_entities / add_entities / upsert_entities / remove_entities; ComputeNow, some "
                "EnforceAlreadyComputed on closed and unclosed inputs, AssumeAlreadyComputed only as last op) over a pool of 4-8 uids: random DAGs, "
                "diamonds, dangling parents, cycles of length 1-5, identical and conflicting duplicates inside one batch, alternative paths around a "
                "removed/replaced node, several nodes of one chain replaced/removed in one batch; plus exhaustively every parent graph on <=3 uids "
                "(each uid absent or present with any parent subset, 729 graphs) x every single add/upsert/remove (thorough: half of all 2-op histories "
                "on 3 uids and single ops on 4 uids); after each op: ok/error kind, every record's sorted parents and ancestors (model vs impl), and on "
                "the implementation alone ancestors / is_descendant_of / `e in a` via the evaluator / is_ancestor_of / `principal in X` via "
                "is_authorized on all pairs against a reachability oracle over a harness-maintained spec parent graph, rejected <=> cyclic or "
                "conflicting duplicate, enforce-accepted => closed and acyclic; non-trivial = >=2 ops and >=1 accepted; distinct by request text",
        "theorems": ["enforce_exact", "enforce_reach", "from_enforce_closed", "closure_correct_partial", "repair_correct_partial",
                     "repair_rejects_only_cycles", "add_inv_partial", "remove_inv", "upsert_inv_partial", "op_preserves_partial",
                     "history_inv_partial", "in_iff_reach", "in_iff_reach_history"],
        "assumptions": ["compute_tc's SCC internals (cyclic_tc) are modelled by their contract (saturation to a fixpoint), not mirrored",
                        "HashMap/HashSet iteration order is modelled by list order; observables are compared sorted",
                        "the wrapped TcError is private: its kind is read from the Debug form (HasCycle / MissingTcEdge)",
                        "is_ancestor_of(a, a) is false for a present entity although documented 'same semantics as b in a' (counted, not failed: "
                        "the reflexive case is only checked for `in`)"],
    "C05": {
        "streams": [("c05", 4000, 250000)],
        "definitional": False,
        "rule": "expression texts from a grammar-level generator with minimal / full / redundant parenthesisation (depth <= 8), the exhaustive "
                "operator x operator grid (43 operator templates x every child position x 43 children x naked/parenthesised/doubly parenthesised), "
                "negative-literal and i64-boundary forms in every operand position, reserved words / non-identifiers as attribute names and record keys, "
                "escape-heavy strings, entity ids, patterns and annotation values, ASTs built from arbitrary Unicode strings, policies/templates (all scope "
                "forms, slots, annotations, 0-3 when/unless clauses) and policy sets of 5; each accepted text: print, reparse, eq_shape/==, evaluate on "
                "random worlds, both printers (AST Display, EST Display) for policies, sets as multisets modulo ids; model lines: Parse_model(lex t) = "
                "parse_impl t (accept and reject), Print_model e ~ lex(print_impl e), parse_impl(render(Print_model e)) = e via the driver sub-process, "
                "unescape_model = to_unescaped_string / like-pattern; non-trivial = accepted expression with >= 3 sub-expressions or an accepted policy "
                "(distinct by canonical AST) or a distinct raw literal",
        "theorems": ["unescape_escape", "unescape_escape_pattern", "parse_print_partial"],
        "assumptions": ["the harness tokenizer (token classes of grammar.lalrpop) is trusted",
                        "escape_debug's Unicode tables are not modelled: the theorems quantify over an arbitrary mustEscape predicate",
                        "the LALRPOP-generated tables are tied to the model parser by the (parse ...) correspondence lines, accepts and rejects"],
    "C06": {
        "streams": [("c06", 6000, 500000)],
        "definitional": False,
        "rule": "generated Cedar text policies/templates (all operators, extension calls incl. wrong arity, has-chains, is-in, != > >=, 0-3 when/unless "
                "clauses, annotations with escapes, both slots) and policy sets of 1-4 of them with 1-2 links per template, plus hand-built EST JSON "
                "policies (every operator key, Value escapes, odd-but-accepted and rejected shapes); per policy: JSON via CST->EST and AST->EST, "
                "to_json/from_json, PST, protobuf, responses on 3 worlds, printed-text re-parse; model lines: (est to)=from_json, (est of)=to_json, "
                "(estpol to)=policy-level from_json; non-trivial = condition with >=4 subexpressions, every hand-built JSON policy, every set with links",
        "theorems": ["est_roundtrip", "est_policy_roundtrip", "est_eval", "pst_roundtrip_partial", "proto_roundtrip_partial"],
        "assumptions": ["serde / serde_json (text <-> JSON value) and prost's byte encoding are not modelled: only their round trips are sampled",
                        "PST and protobuf are modelled as message trees (structure-preserving maps), their Rust conversions are tied to the code only by the sampled round trips",
                        "JSON numbers are integers; duplicate object members cannot be expressed through serde_json::Value and are not sampled"],
    },
    "C07": {
        "streams": [("c07", 6000, 600000)],
        "definitional": True,
        "rule": "constructor strings from fixed boundary/near-miss lists, grammar-based generators and single-character mutations; every "
                "method on pairs of parsed values incl. i64 extremes; non-trivial = every request (distinct by request text)",
        "theorems": ["offset_exact_or_overflow", "durationSince_exact_or_overflow", "ext_eq_by_value",
                     "decimal_parse_exact", "decimal_parse_tooManyDigits", "decimal_parse_some_iff",
                     "decimal_parse_none_of_not_lang",
                     "duration_parse_exact", "duration_parse_some_iff", "duration_parse_none_of_not_lang",
                     "duration_parse_component_overflow",
                     "toDate_floor", "toTime_range", "toDate_add_toTime", "toX_truncating",
                     "daysFromCivil_epoch", "daysFromCivil_consecutive", "daysFromCivil_strictMono",
                     "network_le_addr_le_broadcast", "block_eq_interval", "isInRange_spec",
                     "network_broadcast_bitmask", "isInRange_iff_prefix", "loopback_spec", "multicast_spec",
                     "datetime_parse_exact_date", "datetime_parse_exact"],
        "assumptions": ["extension values are read from the Debug form of the private structs (Decimal{value}, IPAddr{addr,prefix}, DateTime{epoch}, Duration{ms})"],
    },
    "C11": {
        "streams": [("c11", 1000, 60000)],
        "definitional": False,
        "rule": "one case = one generated schema (2-5 entity types incl. enumerated ones, memberOfTypes DAG, tags, 2-5 actions + groups, "
                "0-2 namespaces, common types) loaded by the real ValidatorSchema, its conformant store and requests, and ~20 single-fault "
                "mutations (wrong type / missing required / undeclared attr at any depth in attrs, tags, context; undeclared tag; ancestor of "
                "non-permitted type; bad enum id as uid, nested, parent, principal, resource; undeclared type; undeclared / mismatching action; "
                "principal / resource type not applicable), each through every schema-taking entry point (16 of them, core and public API); "
                "non-trivial = every datum, distinct by fault tag + verdict + datum JSON",
        "theorems": [],
        "assumptions": ["the resolved ValidatorSchema is taken from Rust (schema parsing/resolution is C09's subject)",
                        "values are concrete: the unknown/residual branches of the Rust checkers accept unconditionally and are outside C11",
                        "an extension value is identified with the call of its constructor (its return type is its own extension type)"],
    "C08": {
        "streams": [("c08", 1200, 300000)],
        "definitional": False,
        "rule": "(a) random histories of 1-12 operations (add, add_static, add_template, link, unlink, remove_static, remove_template, merge with/without "
                "renaming, add of a template-linked policy) with ids from a pool of 5 (incl. policy0/policy1, the ids merge generates) over two registers, through "
                "cedar_policy_core::ast::PolicySet and the public cedar_policy::PolicySet; templates with every ==/in/is..in slot form, exact/missing/extra bindings; "
                "after each op: ok/error kind, renaming, sorted listing from policies()/templates()/get_linked_policies(), authorization on 2 requests. "
                "(b) linked policy vs Rust parse of the textually substituted static policy on random worlds. (c) all histories of length <=2 (quick) / <=3 (thorough) "
                "over 2 ids and a 24-letter op alphabet, merge partner fixed. non-trivial = history with >=1 failed op and >=1 successful link, or a linkeq case; "
                "distinct by request text",
        "theorems": ["link_eq_subst", "link_outcome_eq_subst", "link_ok_iff", "pset_link_ok_iff", "op_inv", "op_fail_unchanged", "no_panic", "history_inv", "authorize_considers_exactly_links", "api_add_is_add_static", "api_op_inv", "api_history_inv", "refines_spec_partial"],
        "assumptions": ["merge_policyset is covered by the correspondence and the harness oracle only (MergeInv, RefinesSpec, ApiProjection are stated as `def : Prop`, not proved)",
                        "core-only histories outside the public API's envelope (core link on a static policy's id, core add of a template-linked Policy, slot-less template) are compared with the model but excluded from the statement's checks; they can break the invariant and reach the panic in unlink",
                        "source locations and the lossless (text/EST/PST) copies kept by the API layer are not modelled"],
    },
}
