"""Per-property configuration of ./check. streams = (harness stream, n quick, n thorough)."""
PROPS = {
    "C01": {
        "streams": [("c01", 1500, 60000)],
        "definitional": False,
        "rule": "policy sets of 0-8 policies (permit/forbid x satisfied/unsatisfied/erroring x static/template-linked), "
                "all 6^n effect-outcome vectors n<=4 plus random sets; each run under 2 permutations, 2 id respellings, reversed entity "
                "insertion order, reused and fresh Authorizer; non-trivial = has >=1 erroring policy and both effects; distinct by canonical text",
        "theorems": ["allow_iff", "deny_otherwise", "errors_exact", "reasons_exact", "perm_invariant", "erroring_not_satisfied"],
        "assumptions": ["per-policy evaluation is tied to the code by C02's correspondence"],
    },
    "C02": {
        "streams": [("c02", 3000, 400000)],
        "definitional": True,
        "rule": "operator x operand-kind grid (every unary/binary operator on every pair of ~35 operand kinds) plus typed random "
                "expressions with 6% ill-typed nodes; each evaluated via text parse, generated AST, EST JSON, eval_expression, when- and "
                "unless-clause through is_authorized; non-trivial = >=4 subexpressions; distinct by canonical text+result",
        "theorems": ["like_correct", "and_short", "or_short", "arith_checked", "eq_total", "set_order_dup_insensitive"],
        "assumptions": ["error classes, not messages, are compared", "stored ancestor sets are taken from the store as built (closure is C04's subject)"],
    },
    "C07": {
        "streams": [("c07", 6000, 600000)],
        "definitional": True,
        "rule": "constructor strings from fixed boundary/near-miss lists, grammar-based generators and single-character mutations; every "
                "method on pairs of parsed values incl. i64 extremes; non-trivial = every request (distinct by request text)",
        "theorems": ["offset_exact_or_overflow", "durationSince_exact_or_overflow", "ext_eq_by_value"],
        "assumptions": ["extension values are read from the Debug form of the private structs (Decimal{value}, IPAddr{addr,prefix}, DateTime{epoch}, Duration{ms})"],
    },
    "C10": {
        "streams": [("c10", 500, 20000)],
        "definitional": False,
        "rule": "per world: gen.rs store + context (all value shapes), a conforming store for a hand-written validator schema, 6 untyped values "
                "(nested sets/records, entity refs, 4 extension types in constructor and canonical spellings, strings needing escapes, non-BMP, i64 "
                "extremes, empty sets, record keys that look like escapes), 5 (type, instance) pairs each rendered explicit and 2x with a random "
                "implicit/explicit choice per node, single-point mutations of every document, fixed probe documents at entity/extension positions, "
                "open/closed record types; non-trivial = round-tripped value / document with >=1 implicit form (distinct by canonical text)",
        "theorems": ["json_roundtrip", "json_roundtrip_with", "json_roundtrip_noIp", "toJson_refuses_iff", "toJson_error_is_reserved",
                     "typed_agrees_explicit_scalar_partial", "typed_agrees_explicit_entity_partial", "typed_agrees_explicit_ext_partial",
                     "entity_roundtrip", "store_roundtrip", "extRoundTrip_decimal", "extRoundTrip_duration", "extRoundTrip_datetime"],
        "assumptions": ["extension values are compared by represented value; the implementation serialises the constructor call it stored, the model the canonical_repr (the harness re-renders values canonically for the `to` comparison and parses the implementation's own spelling for `of`)",
                        "ExtRoundTrip for ipaddr (Display of std::net addresses parses back) is a hypothesis of json_roundtrip, checked on the stream; it is false for IPv4-mapped IPv6 addresses, whose canonical_repr is not on the JSON path",
                        "error classes, not messages; object member order and set element order are canonicalised on both sides",
                        "typed_agrees_explicit is proved in parts (scalar types on all documents; entity types; single-argument extension constructors in bare / implicit / explicit form); the full statement `TypedAgreesExplicit` (all nesting depths, closed record types) is a visible `def`, covered by the correspondence stream (implicit/explicit chosen per node) but not proved",
                        "transitive closure of the parsed parents is C04's subject: store_roundtrip is stated on the parent lists written (= all ancestors)"],
    },
}
