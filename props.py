"""Per-property configuration of ./check. streams = (harness stream, n quick, n thorough)."""
PROPS = {
    "C01": {
        "streams": [("c01", 1500, 60000)],
        "definitional": False,
        "rule": "policy sets of 0-8 policies (permit/forbid x satisfied/unsatisfied/erroring x static/template-linked), "
                "all 6^n effect-outcome vectors n<=4 plus random sets; each run under 2 permutations, 2 id respellings, reversed entity "
                "insertion order, reused and fresh Authorizer; non-trivial = has >=1 erroring policy and both effects; distinct by canonical text",
        "theorems": ["allow_iff", "deny_otherwise", "errors_exact", "reasons_exact", "perm_invariant", "erroring_not_satisfied", "store_extensional", "rename_equivariant", "mirror_eq_spec"],
        "assumptions": ["per-policy evaluation is tied to the code by C02's correspondence"],
    },
    "C02": {
        "streams": [("c02", 3000, 400000)],
        "definitional": True,
        "rule": "operator x operand-kind grid (every unary/binary operator on every pair of ~35 operand kinds) plus typed random "
                "expressions with 6% ill-typed nodes; each evaluated via text parse, generated AST, EST JSON, eval_expression, when- and "
                "unless-clause through is_authorized; non-trivial = >=4 subexpressions; distinct by canonical text+result",
        "theorems": ["like_correct", "and_short", "or_short", "arith_checked", "eq_total", "set_order_dup_insensitive"],
        "assumptions": ["error classes, not messages, are compared", "stored ancestor sets are taken from the store as built (closure is C04's subject)"],
    },
    "C07": {
        "streams": [("c07", 6000, 600000)],
        "definitional": True,
        "rule": "constructor strings from fixed boundary/near-miss lists, grammar-based generators and single-character mutations; every "
                "method on pairs of parsed values incl. i64 extremes; non-trivial = every request (distinct by request text)",
        "theorems": ["offset_exact_or_overflow", "durationSince_exact_or_overflow", "ext_eq_by_value"],
        "assumptions": ["extension values are read from the Debug form of the private structs (Decimal{value}, IPAddr{addr,prefix}, DateTime{epoch}, Duration{ms})"],
    },
    "C11": {
        "streams": [("c11", 1000, 60000)],
        "definitional": False,
        "rule": "one case = one generated schema (2-5 entity types incl. enumerated ones, memberOfTypes DAG, tags, 2-5 actions + groups, "
                "0-2 namespaces, common types) loaded by the real ValidatorSchema, its conformant store and requests, and ~20 single-fault "
                "mutations (wrong type / missing required / undeclared attr at any depth in attrs, tags, context; undeclared tag; ancestor of "
                "non-permitted type; bad enum id as uid, nested, parent, principal, resource; undeclared type; undeclared / mismatching action; "
                "principal / resource type not applicable), each through every schema-taking entry point (16 of them, core and public API); "
                "non-trivial = every datum, distinct by fault tag + verdict + datum JSON",
        "theorems": [],
        "assumptions": ["the resolved ValidatorSchema is taken from Rust (schema parsing/resolution is C09's subject)",
                        "values are concrete: the unknown/residual branches of the Rust checkers accept unconditionally and are outside C11",
                        "an extension value is identified with the call of its constructor (its return type is its own extension type)"],
    },
    "C03": {
        "streams": [("c03", 250, 20000)],
        "definitional": False,
        "rule": "one case = one generated schema world (entity types with required/optional attributes, tags, memberOf, enums, action groups, "
                "per-action contexts, namespaces, common types) with a conformant store and 20 schema-directed policies/templates (gen_typed.rs: "
                "every scope form, guarded optional attributes/tags in the documented styles, near-miss guards, strict-only and ill-typed nodes); "
                "per policy the per-environment verdicts of Typechecker::typecheck_by_request_env (strict and permissive) and the impossible flag are "
                "diffed with the model; every strict-accepted policy is evaluated on 10 requests accepted by Request::new(.., schema) against a store "
                "accepted by Entities::from_entities(.., schema): error class, satisfaction vs type False / ImpossiblePolicy, typed AST vs condition, "
                "and inhabitation of every evaluated subexpression's annotated type; non-trivial = distinct (policy, environment, result)",
        "theorems": ["typeOf_sound_partial", "typeOf_types_wellformed", "accepted_boolean_or_permitted_error", "typed_false_never_satisfied",
                     "impossible_policy_never_satisfied"],
        "assumptions": ["soundness is PROVED only for the fragment `Cedar.InFragment` named in Thm/C03.lean (literals, variables, && || ! if, unary -, + - *, ==, like, is, has and . "
                        "on records and entities with capabilities); <, in, isEmpty, contains*, tags, set/record literals, extension calls, slots are "
                        "covered by the differential run and the implementation-level soundness search only",
                        "strict_implies_permissive is not proved; it is checked on the implementation for every generated policy",
                        "the resolved ValidatorSchema is taken from Rust (schema construction is C09's subject); SchemaWF (single entity types, no action "
                        "attributes, no entity type named like an action type) is assumed of it",
                        "entity literals of undeclared types / actions and unknowns answer (outside-model)"],
    },
}
