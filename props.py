"""Per-property configuration of ./check. streams = (harness stream, n quick, n thorough)."""
PROPS = {
    "C01": {
        "streams": [("c01", 1500, 60000)],
        "definitional": False,
        "rule": "policy sets of 0-8 policies (permit/forbid x satisfied/unsatisfied/erroring x static/template-linked), "
                "all 6^n effect-outcome vectors n<=4 plus random sets; each run under 2 permutations, 2 id respellings, reversed entity "
                "insertion order, reused and fresh Authorizer; non-trivial = has >=1 erroring policy and both effects; distinct by canonical text",
        "theorems": ["allow_iff", "deny_otherwise", "errors_exact", "reasons_exact", "perm_invariant", "erroring_not_satisfied", "store_extensional", "rename_equivariant", "mirror_eq_spec"],
        "assumptions": ["per-policy evaluation is tied to the code by C02's correspondence"],
    },
    "C02": {
        "streams": [("c02", 3000, 400000)],
        "definitional": True,
        "rule": "operator x operand-kind grid (every unary/binary operator on every pair of ~35 operand kinds) plus typed random "
                "expressions with 6% ill-typed nodes; each evaluated via text parse, generated AST, EST JSON, eval_expression, when- and "
                "unless-clause through is_authorized; non-trivial = >=4 subexpressions; distinct by canonical text+result",
        "theorems": ["like_correct", "and_short", "or_short", "arith_checked", "eq_total", "set_order_dup_insensitive"],
        "assumptions": ["error classes, not messages, are compared", "stored ancestor sets are taken from the store as built (closure is C04's subject)"],
    },
    "C07": {
        "streams": [("c07", 6000, 600000)],
        "definitional": True,
        "rule": "constructor strings from fixed boundary/near-miss lists, grammar-based generators and single-character mutations; every "
                "method on pairs of parsed values incl. i64 extremes; non-trivial = every request (distinct by request text)",
        "theorems": ["offset_exact_or_overflow", "durationSince_exact_or_overflow", "ext_eq_by_value"],
        "assumptions": ["extension values are read from the Debug form of the private structs (Decimal{value}, IPAddr{addr,prefix}, DateTime{epoch}, Duration{ms})"],
    },
    "C11": {
        "streams": [("c11", 1000, 60000)],
        "definitional": False,
        "rule": "one case = one generated schema (2-5 entity types incl. enumerated ones, memberOfTypes DAG, tags, 2-5 actions + groups, "
                "0-2 namespaces, common types) loaded by the real ValidatorSchema, its conformant store and requests, and ~20 single-fault "
                "mutations (wrong type / missing required / undeclared attr at any depth in attrs, tags, context; undeclared tag; ancestor of "
                "non-permitted type; bad enum id as uid, nested, parent, principal, resource; undeclared type; undeclared / mismatching action; "
                "principal / resource type not applicable), each through every schema-taking entry point (16 of them, core and public API); "
                "non-trivial = every datum, distinct by fault tag + verdict + datum JSON",
        "theorems": [],
        "assumptions": ["the resolved ValidatorSchema is taken from Rust (schema parsing/resolution is C09's subject)",
                        "values are concrete: the unknown/residual branches of the Rust checkers accept unconditionally and are outside C11",
                        "an extension value is identified with the call of its constructor (its return type is its own extension type)"],
    },
    "C09": {
        "streams": [("c09", 2000, 200000)],
        "definitional": False,
        "rule": "one case = one generated schema: 1/3 plain gen_schema.rs worlds (JSON, fully qualified; also their library rendering as a Cedar-syntax input), "
                "2/3 gen_schema_text.rs specs rendered by the harness's own printers as JSON and as Cedar text (1-3 namespaces incl. keywords as names, unqualified "
                "references needing RFC 24/70 resolution, entity types named like primitives/extension types, common types named like extension types, __cedar:: escapes, "
                "common types referencing common types, common/entity name clashes, attribute names / action ids / enum ids needing quotes, annotations, multi-name "
                "declarations, cross-namespace memberOf/appliesTo, optional x nested records, tags, enums, empty namespaces, half-empty appliesTo, shape-by-common-type), "
                "plus 18 fixed probes; per accepted input the four-way comparison A=B=A2 / C=D=C2 (PartialEq and canonical serialisation), core vs public API, 5 policies and "
                ">=6 data items (conformant + single-fault) validated under original and translated schema, annotations compared on the fragments; model lines: the printer on "
                "every type expression, the parser on printed / generated / single-token-mutated type expressions, name resolution probed end-to-end through a synthetic "
                "schema with the same declared names; non-trivial = every model line, policy and datum, distinct by text",
        "theorems": ["type_roundtrip", "type_roundtrip_json", "type_roundtrip_cedar_form", "resolve_stable", "envOK_needed_clash", "envOK_needed_shadow", "translation_preserves_types_partial"],
        "assumptions": ["theorems cover type expressions and name resolution only; declarations, annotations, lexing/escapes, fmt.rs collision checks and ValidatorSchema construction are covered by the four-way differential run",
                        "the model's tokens are produced from Rust's printed text by the harness's lexer (string literals unescaped by the real to_unescaped_string)",
                        "resolution is observed end to end: the reply is read off the resolved type of a probe attribute in a synthetic schema"],
    },
}
