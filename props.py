"""Per-property configuration of ./check. streams = (harness stream, n quick, n thorough)."""
PROPS = {
    "C01": {
        "streams": [("c01", 1500, 60000)],
        "definitional": False,
        "rule": "policy sets of 0-8 policies (permit/forbid x satisfied/unsatisfied/erroring x static/template-linked), "
                "all 6^n effect-outcome vectors n<=4 plus random sets; each run under 2 permutations, 2 id respellings, reversed entity "
                "insertion order, reused and fresh Authorizer; non-trivial = has >=1 erroring policy and both effects; distinct by canonical text",
        "theorems": ["allow_iff", "deny_otherwise", "errors_exact", "reasons_exact", "perm_invariant", "erroring_not_satisfied"],
        "assumptions": ["per-policy evaluation is tied to the code by C02's correspondence"],
    },
    "C02": {
        "streams": [("c02", 3000, 400000)],
        "definitional": True,
        "rule": "operator x operand-kind grid (every unary/binary operator on every pair of ~35 operand kinds) plus typed random "
                "expressions with 6% ill-typed nodes; each evaluated via text parse, generated AST, EST JSON, eval_expression, when- and "
                "unless-clause through is_authorized; non-trivial = >=4 subexpressions; distinct by canonical text+result",
        "theorems": ["like_correct", "and_short", "or_short", "arith_checked", "eq_total", "set_order_dup_insensitive"],
        "assumptions": ["error classes, not messages, are compared", "stored ancestor sets are taken from the store as built (closure is C04's subject)"],
    },
    "C07": {
        "streams": [("c07", 6000, 600000)],
        "definitional": True,
        "rule": "constructor strings from fixed boundary/near-miss lists, grammar-based generators and single-character mutations; every "
                "method on pairs of parsed values incl. i64 extremes; non-trivial = every request (distinct by request text)",
        "theorems": ["offset_exact_or_overflow", "durationSince_exact_or_overflow", "ext_eq_by_value"],
        "assumptions": ["extension values are read from the Debug form of the private structs (Decimal{value}, IPAddr{addr,prefix}, DateTime{epoch}, Duration{ms})"],
    },
    "C19": {
        "streams": [("c19", 2000, 100000), ("c19h", 500, 20000), ("c19cli", 200, 5000)],
        "cli": True,   # ./check (re)builds /repo's cedar-policy-cli into harness/target/cli before running the streams
        "definitional": False,
        "rule": "c19: stateless ffi::is_authorized (typed, _json, _json_str) vs Authorizer::is_authorized on API-parsed inputs, per case validate_request on and off, "
                "policies as one text | array | map id->text | EST JSON, templates + links, schema none | JSON | Cedar, conformant and 6 kinds of non-conformant "
                "requests, 5 kinds of corrupted policy documents; every 4th case also ffi validate / check_parse_{policy_set,schema,entities,scope_variables,context} / format / "
                "policy,template,policy-set-parts,schema (incl. resolved types) conversions vs the API (converted documents compared after re-parsing). c19h: histories of 1-10 preparse_policy_set / "
                "preparse_schema (30% invalid documents, 2-3 + 2 names, re-registration) / stateful_is_authorized calls; each stateful answer vs the stateless FFI "
                "and the API on the latest successfully registered documents, and the whole history vs the Lean model (used document tags read off probe "
                "policies' erroring ids). c19cli: the cedar binary built from /repo: authorize (cedar|json policies, links file, schema cedar|json, request-json|flags, "
                "request-validation on/off, -v reasons), validate, check-parse, translate-policy, translate-schema, format: exit status + printed decision/output vs API. "
                "non-trivial = successful authorizations (c19, distinct by policies+context+flag), histories with a stateful read after a re-registration or a "
                "failed preparse over an existing entry (c19h), every CLI run (c19cli)",
        "theorems": ["cache_refines_latest", "every_reply_refines_latest", "failed_preparse_changes_nothing", "reregistration_overwrites",
                     "stateful_calls_change_nothing", "exit_code_table", "authorize_exit_reflects_response", "validate_exit_table"],
        "assumptions": ["the theorems are about the cache/lookup layer with the two document parsers and the common authorization tail as opaque parameters; "
                        "agreement of input assembly (policy-id assignment, template links, schema-directed parsing, request validation, validation error ids, "
                        "formatting, conversions) with the Rust API is checked by the differential run only",
                        "cedar-wasm glue (wasm-bindgen/tsify wrappers) is not executable here; the Rust functions it wraps are what is run",
                        "the caches are thread-local: histories are single-threaded, one fresh name prefix per history"],
        "trusted": ["/repo's cedar-policy-cli built with default features (no partial-eval/tpe: exit code 4 'Unknown' is in the table but not exercised)"],
    },
}
