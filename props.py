"""Per-property configuration of ./check. streams = (harness stream, n quick, n thorough)."""
PROPS = {
    "C01": {
        "streams": [("c01", 1500, 60000)],
        "definitional": False,
        "rule": "policy sets of 0-8 policies (permit/forbid x satisfied/unsatisfied/erroring x static/template-linked), "
                "all 6^n effect-outcome vectors n<=4 plus random sets; each run under 2 permutations, 2 id respellings, reversed entity "
                "insertion order, reused and fresh Authorizer; non-trivial = has >=1 erroring policy and both effects; distinct by canonical text",
        "theorems": ["allow_iff", "deny_otherwise", "errors_exact", "reasons_exact", "perm_invariant", "erroring_not_satisfied"],
        "assumptions": ["per-policy evaluation is tied to the code by C02's correspondence"],
    },
    "C02": {
        "streams": [("c02", 3000, 400000)],
        "definitional": True,
        "rule": "operator x operand-kind grid (every unary/binary operator on every pair of ~35 operand kinds) plus typed random "
                "expressions with 6% ill-typed nodes; each evaluated via text parse, generated AST, EST JSON, eval_expression, when- and "
                "unless-clause through is_authorized; non-trivial = >=4 subexpressions; distinct by canonical text+result",
        "theorems": ["like_correct", "and_short", "or_short", "arith_checked", "eq_total", "set_order_dup_insensitive"],
        "assumptions": ["error classes, not messages, are compared", "stored ancestor sets are taken from the store as built (closure is C04's subject)"],
    },
    "C06": {
        "streams": [("c06", 6000, 500000)],
        "definitional": False,
        "rule": "generated Cedar text policies/templates (all operators, extension calls incl. wrong arity, has-chains, is-in, != > >=, 0-3 when/unless "
                "clauses, annotations with escapes, both slots) and policy sets of 1-4 of them with 1-2 links per template, plus hand-built EST JSON "
                "policies (every operator key, Value escapes, odd-but-accepted and rejected shapes); per policy: JSON via CST->EST and AST->EST, "
                "to_json/from_json, PST, protobuf, responses on 3 worlds, printed-text re-parse; model lines: (est to)=from_json, (est of)=to_json, "
                "(estpol to)=policy-level from_json; non-trivial = condition with >=4 subexpressions, every hand-built JSON policy, every set with links",
        "theorems": ["est_roundtrip", "est_policy_roundtrip", "est_eval", "pst_roundtrip_partial", "proto_roundtrip_partial"],
        "assumptions": ["serde / serde_json (text <-> JSON value) and prost's byte encoding are not modelled: only their round trips are sampled",
                        "PST and protobuf are modelled as message trees (structure-preserving maps), their Rust conversions are tied to the code only by the sampled round trips",
                        "JSON numbers are integers; duplicate object members cannot be expressed through serde_json::Value and are not sampled"],
    },
    "C07": {
        "streams": [("c07", 6000, 600000)],
        "definitional": True,
        "rule": "constructor strings from fixed boundary/near-miss lists, grammar-based generators and single-character mutations; every "
                "method on pairs of parsed values incl. i64 extremes; non-trivial = every request (distinct by request text)",
        "theorems": ["offset_exact_or_overflow", "durationSince_exact_or_overflow", "ext_eq_by_value"],
        "assumptions": ["extension values are read from the Debug form of the private structs (Decimal{value}, IPAddr{addr,prefix}, DateTime{epoch}, Duration{ms})"],
    },
}
