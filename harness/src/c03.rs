//! C03: strict validation is sound (and not vacuous).
//! One case = one generated schema world (gen_schema.rs) with a conformant store and ~20 schema-directed policies
//! (gen_typed.rs).  Per policy:
//!   K  (correspondence) the per-request-environment verdicts of `Typechecker::typecheck_by_request_env` in strict and
//!      permissive mode, and the impossible-policy flag, against the model's `typeOf` (request line `(tyck …)`);
//!   S  (the property on the implementation, `propfail`):
//!      * non-vacuity: a policy written the documented way is accepted by `Validator::validate(.., Strict)`;
//!      * strict-accepted ⇒ permissive-accepted;
//!      * for every strict-accepted policy (templates: with links accepted by `validate`) and requests/stores accepted by
//!        Rust's own schema-based validation (`Request::new(.., Some(schema))`, `Entities::from_entities(.., Some(schema))`):
//!        the evaluation is a boolean or fails with entity / overflow / extension-execution only; a policy typed `False`
//!        in the request's environment, or flagged `ImpossiblePolicy`, is not satisfied; the typed AST evaluates like the
//!        policy condition; and every subexpression of the typed AST *that is evaluated* yields a value inhabiting its
//!        annotated type (checked here by `inhabits`, and for a sample by the model's `typecheckValue` via `(inst v τ)`).
use crate::gen_schema::{self as gs, SchemaWorld};
use crate::gen_typed::{self as gt, GenOpts, GenPolicy, Intent};
use crate::out::Out;
use crate::rng::Rng;
use crate::sx;
use crate::sx_schema;
use crate::Args;
use cedar_policy_core::ast::{self, EntityUID, Expr, ExprKind, Literal, PolicyID, PolicySet, SlotId, Template, Value, ValueKind};
use cedar_policy_core::entities::{Entities, TCComputation};
use cedar_policy_core::evaluator::{EvaluationError, Evaluator};
use cedar_policy_core::extensions::Extensions;
use cedar_policy_core::parser;
use cedar_policy_core::validator::typecheck::{PolicyCheck, Typechecker};
use cedar_policy_core::validator::types::{BoolType, EntityKind, OpenTag, RequestEnv, Type};
use cedar_policy_core::validator::{CoreSchema, ValidationMode, ValidationWarning, Validator, ValidatorSchema};
use std::collections::{BTreeMap, HashMap};
use std::panic::{catch_unwind, AssertUnwindSafe};

type TExpr = Expr<Option<Type>>;

fn mode_name(m: ValidationMode) -> &'static str {
    match m {
        ValidationMode::Strict => "strict",
        _ => "permissive",
    }
}

fn opt_ty(t: &Option<ast::EntityType>) -> String {
    match t {
        Some(t) => sx::qs(&t.to_string()),
        None => "-".into(),
    }
}

/// canonical key of a (linked) request environment
fn env_key(e: &RequestEnv<'_>) -> Option<String> {
    match e {
        RequestEnv::DeclaredAction { principal, action, resource, principal_slot, resource_slot, .. } => Some(format!(
            "({} {} {} {} {})",
            sx::qs(&principal.to_string()),
            sx::uid(action),
            sx::qs(&resource.to_string()),
            opt_ty(principal_slot),
            opt_ty(resource_slot)
        )),
        RequestEnv::UndeclaredAction => None,
    }
}

fn verdict(c: &PolicyCheck) -> &'static str {
    match c {
        PolicyCheck::Success(e) => match e.data() {
            Some(Type::Bool(BoolType::True)) => "tt",
            Some(Type::Bool(BoolType::False)) => "ff",
            Some(Type::Bool(BoolType::AnyBool)) => "bool",
            _ => "nonbool",
        },
        PolicyCheck::Irrelevant(errs, _) => if errs.is_empty() { "ff" } else { "fail" },
        PolicyCheck::Fail(_) => "fail",
    }
}

/// scope-constraint kind as `possible_slot_links` sees it
fn constraint_kind(t: &Template, slot: SlotId, c: &ast::PrincipalOrResourceConstraint) -> &'static str {
    if !t.slots().any(|s| s.id == slot) {
        return "none";
    }
    match c {
        ast::PrincipalOrResourceConstraint::Eq(_) => "eq",
        ast::PrincipalOrResourceConstraint::In(_) | ast::PrincipalOrResourceConstraint::IsIn(_, _) => "in",
        _ => "other",
    }
}

struct EnvResult {
    verdict: &'static str,
    typed: Option<TExpr>,
}

/// all (env, check) of one mode, keyed canonically
fn typecheck_all(schema: &ValidatorSchema, t: &Template, mode: ValidationMode) -> Result<BTreeMap<String, EnvResult>, String> {
    catch_unwind(AssertUnwindSafe(|| {
        let tc = Typechecker::new(schema, mode);
        let mut m = BTreeMap::new();
        for (env, check) in tc.typecheck_by_request_env(t) {
            let Some(k) = env_key(&env) else { continue };
            let v = verdict(&check);
            let typed = match check {
                PolicyCheck::Success(e) => Some(e),
                PolicyCheck::Irrelevant(errs, e) if errs.is_empty() => Some(e),
                _ => None,
            };
            m.insert(k, EnvResult { verdict: v, typed });
        }
        m
    }))
    .map_err(crate::c02::panic_msg)
}

fn impl_reply(m: &BTreeMap<String, EnvResult>) -> String {
    let any_fail = m.values().any(|r| r.verdict == "fail" || r.verdict == "nonbool");
    let imp = if any_fail { "n/a" } else if m.values().all(|r| r.verdict == "ff") { "impossible" } else { "possible" };
    let mut o = String::from("(tyck (envs");
    for (k, r) in m {
        o.push_str(&format!(" ({k} {})", r.verdict));
    }
    o.push_str(&format!(") {imp})"));
    o
}

/// does `v` inhabit `t` (the harness' own reading of the type language; cross-checked with the model on a sample)
fn inhabits(v: &Value, t: &Type) -> bool {
    match (&v.value, t) {
        (_, Type::Never) => false,
        (ValueKind::Lit(Literal::Bool(b)), Type::Bool(bt)) => match bt {
            BoolType::AnyBool => true,
            BoolType::True => *b,
            BoolType::False => !*b,
        },
        (ValueKind::Lit(Literal::Long(_)), Type::Long) => true,
        (ValueKind::Lit(Literal::String(_)), Type::String) => true,
        (ValueKind::Lit(Literal::EntityUID(u)), Type::Entity(EntityKind::AnyEntity)) => { let _ = u; true }
        (ValueKind::Lit(Literal::EntityUID(u)), Type::Entity(EntityKind::Entity(lub))) => match lub.get_single_entity() {
            Some(e) => e == u.entity_type(),
            None => {
                let s = t.to_string();
                let inner = s.trim_start_matches("__cedar::internal::Union<").trim_end_matches('>');
                inner.split(", ").any(|n| n == u.entity_type().to_string())
            }
        },
        (ValueKind::Set(_), Type::Set { element_type: None }) => true,
        (ValueKind::Set(s), Type::Set { element_type: Some(e) }) => s.iter().all(|x| inhabits(x, e)),
        (ValueKind::Record(r), Type::Record { attrs, open_attributes }) => {
            r.iter().all(|(k, x)| match attrs.get_attr(k) {
                Some(a) => inhabits(x, &a.attr_type),
                None => *open_attributes == OpenTag::OpenAttributes,
            }) && attrs.iter().all(|(k, a)| !a.is_required || r.get(k).is_some())
        }
        (ValueKind::ExtensionValue(ev), Type::ExtensionType { name }) => ev.typename() == *name,
        _ => false,
    }
}

/// error classes a validated policy may raise
fn permitted(e: &EvaluationError) -> bool {
    matches!(e, EvaluationError::EntityDoesNotExist(_) | EvaluationError::IntegerOverflow(_) | EvaluationError::FailedExtensionFunctionExecution(_))
}

fn err_name(e: &EvaluationError) -> &'static str {
    match e {
        EvaluationError::FailedExtensionFunctionLookup(_) => "ext-lookup",
        EvaluationError::WrongNumArguments(_) => "ext-arity",
        EvaluationError::FailedExtensionFunctionExecution(_) => "ext-exec",
        e => sx::err_class(e),
    }
}

fn as_bool(v: &Value) -> Option<bool> {
    match &v.value {
        ValueKind::Lit(Literal::Bool(b)) => Some(*b),
        _ => None,
    }
}

struct Walk<'a> {
    ev: &'a Evaluator<'a>,
    slots: &'a HashMap<SlotId, EntityUID>,
    nodes: u64,
    failures: Vec<String>,
    inst_lines: Vec<(String, String)>,
}

impl Walk<'_> {
    fn eval(&self, te: &TExpr) -> Result<Value, EvaluationError> {
        let e: Expr = te.clone().into_expr::<ast::ExprBuilder<()>>();
        self.ev.interpret(&e, self.slots)
    }

    /// check this node, then the children that the evaluator actually evaluates
    fn node(&mut self, te: &TExpr) -> Result<Value, EvaluationError> {
        let res = self.eval(te);
        self.nodes += 1;
        match &res {
            Ok(v) => match te.data() {
                Some(t) => {
                    if !inhabits(v, t) {
                        self.failures.push(format!("subexpression `{}` evaluates to {} which does not inhabit its static type {}", untyped(te), sx::value(v), sx_schema::ty(t)));
                    }
                    if self.inst_lines.len() < 12 {
                        self.inst_lines.push((sx::value(v), sx_schema::ty(t)));
                    }
                }
                None => self.failures.push(format!("evaluated subexpression `{}` of an accepted policy has no type annotation", untyped(te))),
            },
            Err(e) => {
                if !permitted(e) {
                    self.failures.push(format!("subexpression `{}` fails with {}", untyped(te), err_name(e)));
                }
            }
        }
        match te.expr_kind() {
            ExprKind::And { left, right } => {
                if let Ok(v) = self.node(left) {
                    if as_bool(&v) == Some(true) {
                        let _ = self.node(right);
                    }
                }
            }
            ExprKind::Or { left, right } => {
                if let Ok(v) = self.node(left) {
                    if as_bool(&v) == Some(false) {
                        let _ = self.node(right);
                    }
                }
            }
            ExprKind::If { test_expr, then_expr, else_expr } => {
                if let Ok(v) = self.node(test_expr) {
                    match as_bool(&v) {
                        Some(true) => { let _ = self.node(then_expr); }
                        Some(false) => { let _ = self.node(else_expr); }
                        None => {}
                    }
                }
            }
            ExprKind::UnaryApp { arg, .. } => { let _ = self.node(arg); }
            ExprKind::BinaryApp { arg1, arg2, .. } => {
                if self.node(arg1).is_ok() {
                    let _ = self.node(arg2);
                }
            }
            ExprKind::ExtensionFunctionApp { args, .. } => {
                for a in args.iter() {
                    if self.node(a).is_err() {
                        break;
                    }
                }
            }
            ExprKind::GetAttr { expr, .. } | ExprKind::HasAttr { expr, .. } | ExprKind::Like { expr, .. } | ExprKind::Is { expr, .. } => { let _ = self.node(expr); }
            ExprKind::Set(xs) => {
                for a in xs.iter() {
                    if self.node(a).is_err() {
                        break;
                    }
                }
            }
            ExprKind::Record(m) => {
                for (_, a) in m.iter() {
                    if self.node(a).is_err() {
                        break;
                    }
                }
            }
            _ => {}
        }
        res
    }
}

fn untyped(te: &TExpr) -> String {
    let e: Expr = te.clone().into_expr::<ast::ExprBuilder<()>>();
    e.to_string()
}

fn res_canon(r: &Result<Value, EvaluationError>) -> String {
    match r {
        Ok(v) => format!("(ok {})", sx::value(v)),
        Err(e) => format!("(err {})", err_name(e)),
    }
}

struct StoreCtx {
    entities: Entities,
    json: String,
}

fn build_store(w: &SchemaWorld, r: &mut Rng, out: &mut Out) -> Option<StoreCtx> {
    let store = gs::gen_store(r, &w.spec);
    let ents: Result<Vec<ast::Entity>, String> = store.entities.iter().map(|e| e.to_entity()).collect();
    let ents = ents.ok()?;
    let core = CoreSchema::new(&w.schema);
    let json = serde_json::Value::Array(store.entities.iter().map(|e| e.to_json()).collect()).to_string();
    match catch_unwind(AssertUnwindSafe(|| Entities::from_entities(ents, Some(&core), TCComputation::ComputeNow, Extensions::all_available()))) {
        Ok(Ok(entities)) => Some(StoreCtx { entities, json }),
        _ => {
            out.count("store_rejected_by_rust_validation");
            None
        }
    }
}

fn has_impossible_warning(res: &cedar_policy_core::validator::ValidationResult) -> bool {
    res.validation_warnings().any(|w| matches!(w, ValidationWarning::ImpossiblePolicy(_)))
}

/// the model request line for one policy and mode
fn tyck_line(ssx: &str, mode: ValidationMode, t: &Template) -> Option<String> {
    let cond = sx::expr(&t.condition())?;
    let pc = constraint_kind(t, SlotId::principal(), t.principal_constraint().as_inner());
    let rc = constraint_kind(t, SlotId::resource(), t.resource_constraint().as_inner());
    Some(format!("(tyck {ssx} {} all (tpl {pc} {rc}) {cond})", mode_name(mode)))
}

#[allow(clippy::too_many_arguments)]
fn soundness_search(out: &mut Out, w: &SchemaWorld, st: &StoreCtx, r: &mut Rng, gp: &GenPolicy, t: &Template, strict_envs: &BTreeMap<String, EnvResult>, impossible: bool, cname: &str, n_requests: usize) {
    let ext = Extensions::all_available();
    let cond = t.condition();
    for k in 0..n_requests {
        // slot values (templates): must be accepted by validation of the link
        let (lp, lr) = gt::gen_link_values(r, &w.spec, gp);
        let mut slots: HashMap<SlotId, EntityUID> = HashMap::new();
        if let Some(u) = &lp { slots.insert(SlotId::principal(), gs::mk_uid(u)); }
        if let Some(u) = &lr { slots.insert(SlotId::resource(), gs::mk_uid(u)); }
        if gp.is_template {
            let mut ps = PolicySet::new();
            if ps.add_template(t.clone()).is_err() { continue; }
            if ps.link(t.id().clone(), PolicyID::from_string("link0"), slots.clone()).is_err() {
                out.count("link_failed");
                continue;
            }
            let res = Validator::new(w.schema.clone()).validate(&ps, ValidationMode::Strict);
            if !res.validation_passed() {
                out.count("link_rejected_by_validation");
                continue;
            }
            out.count("link_accepted");
        }
        let q = if k % 10 < 7 { gt::gen_request_for(r, &w.spec, gp.target.1, &gp.target.0, &gp.target.2) } else { gs::gen_request(r, &w.spec) };
        let (pu, au, ru) = (gs::mk_uid(&q.principal), gs::mk_uid(&q.action), gs::mk_uid(&q.resource));
        let req = match catch_unwind(AssertUnwindSafe(|| ast::Request::new((pu.clone(), None), (au.clone(), None), (ru.clone(), None), q.to_context(), Some(&w.schema), ext))) {
            Ok(Ok(req)) => req,
            _ => {
                out.count("request_rejected_by_rust_validation");
                continue;
            }
        };
        out.count("evaluations");
        let describe = || format!(
            "{cname} policy=`{}` link=({:?},{:?}) request: p={} a={} r={} ctx={} store={} schema={}",
            gp.text, lp, lr, gt::uid_text(&q.principal), gt::uid_text(&q.action), gt::uid_text(&q.resource), q.context_json(), st.json, w.json
        );
        let ev = Evaluator::new(req, &st.entities, ext);
        let res = match catch_unwind(AssertUnwindSafe(|| ev.interpret(&cond, &slots))) {
            Ok(x) => x,
            Err(p) => {
                out.propfail("panic evaluating a validated policy", &describe(), &crate::c02::panic_msg(p));
                continue;
            }
        };
        out.count(&format!("eval:{}", match &res { Ok(v) => match as_bool(v) { Some(true) => "true", Some(false) => "false", None => "NONBOOL" }, Err(e) => err_name(e) }));
        match &res {
            Ok(v) if as_bool(v).is_none() => out.propfail("validated policy evaluates to a non-boolean", &describe(), &sx::value(v)),
            Err(e) if !permitted(e) => out.propfail("validated policy fails with a forbidden error class", &describe(), err_name(e)),
            _ => {}
        }
        let satisfied = matches!(&res, Ok(v) if as_bool(v) == Some(true));
        if impossible && satisfied {
            out.propfail("policy flagged impossible is satisfied", &describe(), "ImpossiblePolicy warning but the condition evaluates to true");
        }
        // the environment of this request
        let key = format!(
            "({} {} {} {} {})",
            sx::qs(&pu.entity_type().to_string()),
            sx::uid(&au),
            sx::qs(&ru.entity_type().to_string()),
            lp.as_ref().map_or("-".to_string(), |u| sx::qs(&u.0)),
            lr.as_ref().map_or("-".to_string(), |u| sx::qs(&u.0))
        );
        let Some(er) = strict_envs.get(&key) else {
            out.count("request_without_matching_env");
            continue;
        };
        if er.verdict == "ff" && satisfied {
            out.propfail("policy typed False in the request's environment is satisfied", &describe(), &key);
        }
        if er.verdict == "ff" { out.count("eval_in_env_typed_false"); }
        let Some(typed) = &er.typed else { continue };
        let mut wk = Walk { ev: &ev, slots: &slots, nodes: 0, failures: vec![], inst_lines: vec![] };
        let tres = match catch_unwind(AssertUnwindSafe(|| wk.node(typed))) {
            Ok(x) => x,
            Err(p) => {
                out.propfail("panic evaluating the typed AST", &describe(), &crate::c02::panic_msg(p));
                continue;
            }
        };
        out.add("typed_subexpressions_checked", wk.nodes);
        if res_canon(&tres) != res_canon(&res) {
            out.propfail("typed AST evaluates differently from the policy condition", &describe(), &format!("condition: {} typed: {}", res_canon(&res), res_canon(&tres)));
        }
        for f in &wk.failures {
            out.propfail("evaluated subexpression does not inhabit its static type", &describe(), f);
        }
        if k == 0 {
            for (v, ty) in wk.inst_lines.into_iter().rev().take(4) {
                out.line(format!("(inst {v} {ty})"), "true".into(), format!("{cname} inhabitation of an evaluated subexpression of `{}`", gp.text));
                out.count("inst_lines");
            }
        }
        out.nontrivial(&format!("{}|{}|{}", gp.text, key, res_canon(&res)));
    }
}

fn one_policy(out: &mut Out, w: &SchemaWorld, ssx: &str, st: Option<&StoreCtx>, r: &mut Rng, gp: &GenPolicy, cname: &str, n_requests: usize) {
    let intent = gp.intent.name();
    out.count(&format!("policies:{intent}"));
    let t = match parser::parse_policy_or_template(Some(PolicyID::from_string("p0")), &gp.text) {
        Ok(t) => t,
        Err(e) => {
            out.count(&format!("unparsable:{intent}"));
            out.sample(format!("UNPARSABLE {} :: {e}", gp.text));
            return;
        }
    };
    let mut ps = PolicySet::new();
    if ps.add_template(t.clone()).is_err() { return; }
    let val = Validator::new(w.schema.clone());
    let (strict, perm) = match catch_unwind(AssertUnwindSafe(|| (val.validate(&ps, ValidationMode::Strict), val.validate(&ps, ValidationMode::Permissive)))) {
        Ok(x) => x,
        Err(p) => {
            out.propfail("panic in Validator::validate", &format!("{cname} policy=`{}` schema={}", gp.text, w.json), &crate::c02::panic_msg(p));
            return;
        }
    };
    let (sa, pa) = (strict.validation_passed(), perm.validation_passed());
    out.count(&format!("strict:{intent}:{}", if sa { "accepted" } else { "rejected" }));
    out.count(&format!("permissive:{intent}:{}", if pa { "accepted" } else { "rejected" }));
    for i in &gp.idioms {
        out.count(&format!("idiom:{i}:{}", if sa { "accepted" } else { "rejected" }));
    }
    if gp.is_template { out.count(&format!("templates:{}", if sa { "accepted" } else { "rejected" })); }
    let case = format!("{cname} [{intent}] policy=`{}` schema={}", gp.text, w.json);
    if gp.intent == Intent::Documented && !sa {
        let errs: Vec<String> = strict.validation_errors().map(|e| e.to_string()).collect();
        out.propfail("documented-way policy rejected by strict validation", &case, &errs.join(" | "));
    }
    if sa && !pa {
        let errs: Vec<String> = perm.validation_errors().map(|e| e.to_string()).collect();
        out.propfail("strict-accepted policy rejected in permissive mode", &case, &errs.join(" | "));
    }
    if gp.intent == Intent::StrictOnly && pa && !sa { out.count("strict_only_confirmed"); }
    let impossible = has_impossible_warning(&strict);
    if sa && impossible { out.count("accepted_and_impossible"); }
    // correspondence: both modes
    let mut strict_envs = None;
    for mode in [ValidationMode::Strict, ValidationMode::Permissive] {
        match typecheck_all(&w.schema, &t, mode) {
            Ok(m) => {
                let reply = impl_reply(&m);
                // the warning must agree with the per-environment verdicts
                if mode == ValidationMode::Strict {
                    let all_ff = m.values().all(|r| matches!(r.verdict, "ff") || (r.verdict == "fail" && false));
                    if sa && all_ff != impossible {
                        out.propfail("ImpossiblePolicy warning disagrees with the per-environment types", &case, &reply);
                    }
                }
                if let Some(line) = tyck_line(ssx, mode, &t) {
                    out.line(line, reply, format!("{cname} [{intent}] {} {}", mode_name(mode), gp.text));
                    out.count(&format!("tyck_lines:{}", mode_name(mode)));
                }
                if mode == ValidationMode::Strict { strict_envs = Some(m); }
            }
            Err(p) => out.propfail("panic in the typechecker", &case, &p),
        }
    }
    out.sample(format!("[{intent}] strict={sa} permissive={pa} {}", gp.text));
    if let (true, Some(st), Some(envs)) = (sa, st, strict_envs.as_ref()) {
        soundness_search(out, w, st, r, gp, &t, envs, impossible, cname, n_requests);
    }
}

pub fn run(args: &Args, out: &mut Out) {
    let mut rng = Rng::new(args.seed);
    probes(out);
    type_grid(out);
    let policies_per_world = 20;
    let requests_per_policy = 10;
    for case in 0..args.n {
        let mut r = rng.fork();
        let sub = r.0;
        let (w, _) = gs::gen_schema_world(&mut r);
        out.cases += 1;
        let ssx = sx_schema::schema(&w.schema);
        let cname = format!("case={case} sub={sub}");
        let st = build_store(&w, &mut r, out);
        let opts = GenOpts::default();
        for _ in 0..policies_per_world {
            let gp = gt::gen_policy(&mut r, &w, &opts);
            one_policy(out, &w, &ssx, st.as_ref(), &mut r, &gp, &cname, requests_per_policy);
        }
    }
}

/// fixed probes: the documented guard idioms (and their near misses) on a fixed schema
fn probes(out: &mut Out) {
    let text = r#"
        entity Group;
        entity User in [Group] { name: String, age?: Long, manager?: User, prefs: { theme?: String, n: Long } } tags Long;
        entity Doc in [Group] { owner: User, labels?: Set<String> };
        action view, edit appliesTo { principal: User, resource: Doc, context: { ip?: ipaddr, level: Long } };
        action readOnly;
        action list in [readOnly] appliesTo { principal: User, resource: Group, context: {} };
    "#;
    let (schema, _) = ValidatorSchema::from_cedarschema_str(text, Extensions::all_available()).expect("probe schema");
    let ssx = sx_schema::schema(&schema);
    let cases: &[(&str, bool)] = &[
        ("permit(principal, action, resource) when { principal has age && principal.age > 18 };", true),
        ("permit(principal, action, resource) when { if principal has age then principal.age > 18 else false };", true),
        ("permit(principal, action, resource) when { principal has manager.age && principal.manager.age > 18 };", true),
        ("permit(principal, action, resource) when { principal.prefs has theme && principal.prefs.theme like \"d*\" };", true),
        ("permit(principal, action, resource) when { principal.hasTag(\"k\") && principal.getTag(\"k\") < 3 };", true),
        ("permit(principal, action == Action::\"view\", resource) when { context has ip && context.ip.isLoopback() };", true),
        ("permit(principal, action == Action::\"view\", resource) when { resource has labels && resource.labels.contains(\"x\") && resource.owner == principal };", true),
        ("permit(principal, action in Action::\"readOnly\", resource) when { principal.name == \"a\" };", true),
        ("permit(principal is User, action, resource is Doc) when { resource.owner.name == principal.name };", true),
        ("permit(principal == ?principal, action, resource in ?resource) when { principal.prefs.n + 1 > 0 };", true),
        ("permit(principal, action, resource) when { principal has age || principal.age > 18 };", false),
        ("permit(principal, action, resource) when { if principal has age then true else principal.age > 18 };", false),
        ("permit(principal, action, resource) when { !(principal has age) && principal.age > 18 };", false),
        ("permit(principal, action, resource) when { principal.age > 18 && principal has age };", false),
        ("permit(principal, action, resource) when { principal has name && principal.age > 18 };", false),
        ("permit(principal, action, resource) when { principal.getTag(\"k\") < 3 };", false),
        ("permit(principal, action, resource) when { principal.hasTag(\"j\") && principal.getTag(\"k\") < 3 };", false),
        ("permit(principal, action, resource) when { principal.nope == 1 };", false),
        ("permit(principal, action, resource) when { principal.name < 3 };", false),
        ("permit(principal, action == Action::\"list\", resource) when { context has ip };", true),
        ("permit(principal, action, resource) when { principal in resource };", true),
        ("permit(principal, action, resource) when { ip(principal.name).isLoopback() };", false),
        ("permit(principal, action == Action::\"view\", resource) when { (true || principal.age > 1) && (context has ip || true) };", true),
    ];
    for (src, expect) in cases {
        let t = parser::parse_policy_or_template(Some(PolicyID::from_string("p0")), src).expect("probe policy parses");
        let mut ps = PolicySet::new();
        ps.add_template(t.clone()).unwrap();
        let res = Validator::new(schema.clone()).validate(&ps, ValidationMode::Strict);
        out.count(&format!("probe:{}", if res.validation_passed() { "accepted" } else { "rejected" }));
        if res.validation_passed() != *expect {
            out.propfail(if *expect { "documented-way policy rejected by strict validation" } else { "near-miss guard accepted by strict validation (probe)" }, &format!("probe policy=`{src}`"), &res.validation_errors().map(|e| e.to_string()).collect::<Vec<_>>().join(" | "));
        }
        for mode in [ValidationMode::Strict, ValidationMode::Permissive] {
            if let (Ok(m), Some(line)) = (typecheck_all(&schema, &t, mode), tyck_line(&ssx, mode, &t)) {
                out.line(line, impl_reply(&m), format!("probe {} {src}", mode_name(mode)));
            }
        }
    }
}

/// TYPE-RELATION GRID (deterministic): one fixed schema whose context has an attribute of every kind of type
/// (primitives, two entity types, extension types, records that share an attribute name with optional / required
/// attributes of different types, the empty record, sets of all those).  For every ordered pair (x, y):
/// `context.x == context.y`, `context.x != context.y || principal.nick like "a*"` (the right operand reads an optional
/// attribute WITHOUT a guard, so the policy is only acceptable when the comparison is typed True), a `contains` and an
/// `if` joining both types — each typechecked in both modes against the model (disjointness / least-upper-bound / strict
/// compatibility tables), and each strict-accepted one evaluated on the request whose context holds the smallest
/// inhabitant of every type (optional attributes absent, sets empty): the verdict True / False must be what evaluation
/// gives and no forbidden error may occur.
fn type_grid(out: &mut Out) {
    use cedar_policy_core::ast::{Context, Entity, RestrictedExpr};
    use std::collections::HashSet;
    use std::str::FromStr;
    const ATTRS: &[(&str, &str, &str)] = &[
        ("l", "Long", "0"), ("s", "String", "\"\""), ("b", "Bool", "false"), ("ea", "A", "A::\"a\""), ("eb", "B", "B::\"b\""),
        ("d", "decimal", "decimal(\"0.0\")"), ("ip", "ipaddr", "ip(\"1.1.1.1\")"),
        ("ra", "{by?: A}", "{}"), ("rb", "{by?: B}", "{}"), ("rra", "{by: A}", "{by: A::\"a\"}"), ("rrb", "{by: B}", "{by: B::\"b\"}"),
        ("rl", "{by?: Long}", "{}"), ("rx", "{other?: A}", "{}"), ("re", "{}", "{}"), ("rn", "{inner?: {by?: A}}", "{}"), ("rm", "{inner?: {by?: B}}", "{}"),
        ("sa", "Set<A>", "[]"), ("sb", "Set<B>", "[]"), ("sl", "Set<Long>", "[]"), ("sra", "Set<{by?: A}>", "[{}]"), ("srb", "Set<{by?: B}>", "[{}]"),
    ];
    let ctx_ty = ATTRS.iter().map(|(n, t, _)| format!("{n}: {t}")).collect::<Vec<_>>().join(", ");
    let text = format!("entity A; entity B; entity U {{ nick?: String }};\naction act appliesTo {{ principal: U, resource: A, context: {{ {ctx_ty} }} }};");
    let (schema, _) = ValidatorSchema::from_cedarschema_str(&text, Extensions::all_available()).expect("grid schema");
    let ssx = sx_schema::schema(&schema);
    let ext = Extensions::all_available();
    let uid = |t: &str, i: &str| EntityUID::with_eid_and_type(t, i).expect("grid uid");
    let mut ents: Vec<Entity> = [("A", "a"), ("B", "b"), ("U", "u")].iter().map(|(t, i)| Entity::new_with_attr_partial_value(uid(t, i), [], HashSet::new(), HashSet::new(), [])).collect();
    ents.extend(schema.action_entities().expect("action entities"));
    let store = Entities::from_entities(ents, Some(&CoreSchema::new(&schema)), TCComputation::ComputeNow, ext).expect("grid store conforms");
    let ctx = Context::from_pairs(ATTRS.iter().map(|(n, _, v)| ((*n).into(), RestrictedExpr::from_str(v).expect("grid value"))), ext).expect("grid context");
    let req = ast::Request::new((uid("U", "u"), None), (uid("Action", "act"), None), (uid("A", "a"), None), ctx, Some(&schema), ext).expect("grid request conforms");
    let ev = Evaluator::new(req, &store, ext);
    for (x, _, _) in ATTRS {
        for (y, _, _) in ATTRS {
            let conds = [
                format!("context.{x} == context.{y}"),
                format!("context.{x} != context.{y} || principal.nick like \"a*\""),
                format!("[context.{x}].contains(context.{y})"),
                format!("(if principal has nick then context.{x} else context.{y}) == context.{y}"),
            ];
            for c in conds {
                let src = format!("permit(principal, action, resource) when {{ {c} }};");
                let t = parser::parse_policy_or_template(Some(PolicyID::from_string("p0")), &src).expect("grid policy parses");
                out.count("grid_policies");
                let mut strict = None;
                for mode in [ValidationMode::Strict, ValidationMode::Permissive] {
                    match typecheck_all(&schema, &t, mode) {
                        Ok(m) => {
                            if let Some(line) = tyck_line(&ssx, mode, &t) {
                                out.line(line, impl_reply(&m), format!("type grid {} {src}", mode_name(mode)));
                                out.count(&format!("tyck_lines:{}", mode_name(mode)));
                            }
                            if mode == ValidationMode::Strict { strict = m.into_values().next(); }
                        }
                        Err(p) => out.propfail("panic in the typechecker", &format!("type grid policy=`{src}` schema={text}"), &p),
                    }
                }
                let Some(er) = strict else { continue };
                out.count(&format!("grid_strict:{}", er.verdict));
                if !matches!(er.verdict, "tt" | "ff" | "bool") { continue; }
                let case = format!("type grid policy=`{src}` schema={text} request: U::\"u\" (no nick), context = smallest inhabitants (optional attributes absent)");
                match catch_unwind(AssertUnwindSafe(|| ev.interpret(&t.condition(), &HashMap::new()))) {
                    Err(p) => out.propfail("panic evaluating a validated policy", &case, &crate::c02::panic_msg(p)),
                    Ok(Err(e)) if !permitted(&e) => out.propfail("validated policy fails with a forbidden error class", &case, err_name(&e)),
                    Ok(Err(_)) => {}
                    Ok(Ok(v)) => match (as_bool(&v), er.verdict) {
                        (None, _) => out.propfail("validated policy evaluates to a non-boolean", &case, &sx::value(&v)),
                        (Some(true), "ff") => out.propfail("policy typed False in the request's environment is satisfied", &case, "typed False, evaluates to true"),
                        (Some(false), "tt") => out.propfail("policy typed True in the request's environment evaluates to false", &case, "typed True, evaluates to false"),
                        _ => {}
                    },
                }
            }
        }
    }
}
