//! C19, stream c19p: the FFI's POLICY-SET ASSEMBLY (`cedar_policy::ffi::PolicySet::parse`, cedar-policy/src/ffi/utils.rs)
//! against its Lean mirror (Cedar/FfiPolicies.lean `assemble`, driver op `ffipols`).
//!
//! Per case: an FFI policy set is generated as JSON —
//!   `staticPolicies`: absent | one concatenated text (0-3 statements, sometimes a template among them, sometimes
//!                     unparsable) | array of 0-3 documents | object id -> document (distinct ids: serde refuses duplicate keys)
//!   `templates`     : object id -> document (0-3)
//!   `templateLinks` : array of {templateId, newId, values} (0-3)
//! where a document is Cedar text or EST JSON of a static policy / of a template (in either position: a template in a static
//! position and a slot-less policy in a template position must be refused), garbage text, garbage JSON, or two policies in
//! one text; ids come from a pool of 6 (so that they collide with each other, with the default ids `policy0` / `JSON policy`
//! and with the numbered ids of a concatenated text) plus fresh link ids; link values fit the template's slots, or miss a
//! slot, or bind an extra one, or contain a value that is not an entity uid; template ids of links may dangle or name a
//! static policy.
//! The JSON is decoded by serde into `ffi::PolicySet` and `.parse()` is called (public). impl line: `(ok <listing>)` with
//! the listing of the resulting `cedar_policy::PolicySet` exactly as the C08 `pset` op prints it, or `(errs E…)`: the
//! sorted classes of the `miette::Report`s (`classify`). Request line: `(ffipols …)` with every document replaced by the
//! real parser's verdict on it (`cedar_policy::Policy::parse/from_json`, `Template::parse/from_json`,
//! `PolicySet::from_str`, `EntityUid::from_json`: the functions `ffi::…::parse` call), `bad` when it is refused.
use crate::c08::{self, Layer};
use crate::gen::{self, ExprGen, World};
use crate::out::Out;
use crate::rng::Rng;
use crate::sx;
use crate::Args;
use cedar_policy as cp;
use cedar_policy::ffi;
use cedar_policy_core::ast::{self, EntityUID};
use serde_json::{json, Map, Value};
use std::panic::{catch_unwind, AssertUnwindSafe};
use std::str::FromStr;

const IDS: &[&str] = &["a", "b", "t", "policy0", "policy1", "JSON policy"];

#[derive(Clone, Debug)]
enum Src { Cedar(String), Json(Value) }

impl Src {
    fn json(&self) -> Value { match self { Src::Cedar(s) => Value::String(s.clone()), Src::Json(v) => v.clone() } }
    fn fmt(&self) -> &'static str { match self { Src::Cedar(_) => "cedar", Src::Json(_) => "json" } }
}

/// the parser's verdict on a document
enum Verdict { Bad, Good(String), Outside }

fn pid(s: &str) -> cp::PolicyId { cp::PolicyId::new(s) }

fn policy_verdict(d: &Src, out: &mut Out) -> Verdict {
    let p = match d {
        Src::Cedar(s) => cp::Policy::parse(Some(pid("x")), s).ok(),
        Src::Json(v) => cp::Policy::from_json(Some(pid("x")), v.clone()).ok(),
    };
    // trusted by the model: the parsers give the policy the id they are handed
    if let Some(p) = &p { if AsRef::<str>::as_ref(p.id()) != "x" { out.propfail("Policy::parse/from_json does not assign the given id", &format!("{d:?}"), &p.id().to_string()); } }
    match p {
        None => Verdict::Bad,
        Some(p) => match c08::body_sx(AsRef::<ast::Policy>::as_ref(&p).template()) { Some(b) => Verdict::Good(b), None => Verdict::Outside },
    }
}

fn template_verdict(d: &Src, out: &mut Out) -> (Verdict, Option<(bool, bool)>) {
    let t = match d {
        Src::Cedar(s) => cp::Template::parse(Some(pid("x")), s).ok(),
        Src::Json(v) => cp::Template::from_json(Some(pid("x")), v.clone()).ok(),
    };
    match t {
        None => (Verdict::Bad, None),
        Some(t) => {
            let slots = (t.slots().any(|s| *s == cp::SlotId::principal()), t.slots().any(|s| *s == cp::SlotId::resource()));
            // trusted by the model (hypothesis TemplatesHaveSlots of assemble_inv / assemble_ids; id assignment)
            if !slots.0 && !slots.1 { out.propfail("Template::parse/from_json accepted a slot-less policy", &format!("{d:?}"), ""); }
            if AsRef::<str>::as_ref(t.id()) != "x" { out.propfail("Template::parse/from_json does not assign the given id", &format!("{d:?}"), &t.id().to_string()); }
            match c08::template_sx(t.as_ref()) { Some(b) => (Verdict::Good(b), Some(slots)), None => (Verdict::Outside, Some(slots)) }
        }
    }
}

/// `(text bad)` | `(text ITEM…)`: the statements of a concatenated text in text order (`PolicySet::from_str` numbers them
/// `policy{n}` by position, templates included)
fn text_verdict(text: &str) -> Option<String> {
    let Ok(ps) = cp::PolicySet::from_str(text) else { return Some("(text bad)".into()) };
    let n = ps.policies().count() + ps.templates().count();
    let mut o = String::from("(text");
    for i in 0..n {
        let id = pid(&format!("policy{i}"));
        if let Some(p) = ps.policy(&id) {
            o.push_str(&format!(" (s {})", c08::body_sx(AsRef::<ast::Policy>::as_ref(p).template())?));
        } else if let Some(t) = ps.template(&id) {
            o.push_str(&format!(" (t {})", c08::template_sx(t.as_ref())?));
        } else { return None; }
    }
    o.push(')');
    Some(o)
}

/// Error classes of the reports of `ffi::PolicySet::parse`, by the message the FFI wraps them in (utils.rs):
///   "failed to parse policies from string"                         StaticPolicySet::parse, Concatenated arm
///   "static policy set includes a template"                        StaticPolicySet::parse, Concatenated arm
///   "failed to parse policy{ with id `ID`} from string" | "… from JSON"     Policy::parse
///   "failed to parse template{ with id `ID`} from string" | "… from JSON"   Template::parse
///   "failed to add template{ with id `ID`} to policy set"          Template::parse_and_add_to_set (source: PolicySetError)
///   "failed to parse link values"                                  TemplateLink::parse_and_add_to_set
///   a bare `PolicySetError`: from `PolicySet::from_policies` (Set / Map arms: `add` can only answer AlreadyDefined) or
///   from `PolicySet::link` (Linking(…) | ExpectedTemplate): told apart by the variant.
fn classify(rep: &miette::Report) -> String {
    let msg = rep.to_string();
    let pse = || rep.chain().find_map(|e| e.downcast_ref::<cp::PolicySetError>());
    let id_of = |rest: &str, tail: &[&str]| -> Option<String> {
        // rest = " with id `ID` <tail>"
        let r = rest.strip_prefix(" with id `")?;
        tail.iter().find_map(|t| r.strip_suffix(&format!("` {t}")).map(|s| s.to_string()))
    };
    if msg == "failed to parse policies from string" { return "parsePolicies".into(); }
    if msg == "static policy set includes a template" { return "templateInStatic".into(); }
    if msg == "failed to parse link values" { return "linkValues".into(); }
    if msg == "failed to parse policy from string" || msg == "failed to parse policy from JSON" { return "(parsePolicy none)".into(); }
    if let Some(rest) = msg.strip_prefix("failed to parse policy") {
        if let Some(id) = id_of(rest, &["from string", "from JSON"]) { return format!("(parsePolicy {})", sx::qs(&id)); }
    }
    if let Some(rest) = msg.strip_prefix("failed to parse template") {
        if let Some(id) = id_of(rest, &["from string", "from JSON"]) { return format!("(parseTemplate {})", sx::qs(&id)); }
    }
    if let Some(rest) = msg.strip_prefix("failed to add template") {
        if let (Some(id), Some(e)) = (id_of(rest, &["to policy set"]), pse()) { return format!("(addTemplate {} {})", sx::qs(&id), c08::api_err_ref(e)); }
    }
    if let Some(e) = rep.downcast_ref::<cp::PolicySetError>() {
        return match e {
            cp::PolicySetError::AlreadyDefined(_) => format!("(fromPolicies {})", c08::api_err_ref(e)),
            _ => format!("(link {})", c08::api_err_ref(e)),
        };
    }
    format!("(unclassified {})", sx::qs(&msg))
}

struct Pools { statics: Vec<Src>, templates: Vec<Src>, garbage: Vec<Src> }

fn gen_docs(r: &mut Rng, g: &mut ExprGen, w: &World) -> Pools {
    let pool = c08::gen_pool(r, g, w, true);
    let mut statics = Vec::new();
    for t in &pool.statics {
        statics.push(Src::Cedar(t.clone()));
        if let Some(j) = cp::Policy::parse(None, t).ok().and_then(|p| p.to_json().ok()) { statics.push(Src::Json(j)); }
    }
    let mut templates = Vec::new();
    for t in &pool.templates {
        templates.push(Src::Cedar(t.clone()));
        if let Some(j) = cp::Template::parse(None, t).ok().and_then(|p| p.to_json().ok()) { templates.push(Src::Json(j)); }
    }
    let two = format!("{}\n{}", pool.statics[0], pool.statics[1]);
    let garbage = vec![
        Src::Cedar("permit(principal, action, resource) when { 1 + };".into()),
        Src::Cedar("permit(principal, action);".into()),
        Src::Cedar(String::new()),
        Src::Cedar(two),
        Src::Json(json!({"effect": "permit"})),
        Src::Json(json!({"effect": "allow", "principal": {"op": "All"}, "action": {"op": "All"}, "resource": {"op": "All"}, "conditions": []})),
        Src::Json(json!(7)),
        Src::Json(json!([])),
    ];
    Pools { statics, templates, garbage }
}

/// a document for a static position (`tpl` = false) or a template position (`tpl` = true)
fn gen_doc(r: &mut Rng, p: &Pools, tpl: bool, clean: bool) -> Src {
    let (right, wrong) = if tpl { (&p.templates, &p.statics) } else { (&p.statics, &p.templates) };
    let k = if clean { 0 } else { r.below(100) };
    if k < 70 { r.pick(right).clone() } else if k < 85 { r.pick(wrong).clone() } else { r.pick(&p.garbage).clone() }
}

fn distinct_ids(r: &mut Rng, n: usize) -> Vec<String> {
    let mut v: Vec<String> = Vec::new();
    while v.len() < n { let i = (*r.pick(IDS)).to_string(); if !v.contains(&i) { v.push(i); } }
    v
}

fn uid_json(r: &mut Rng, u: &EntityUID) -> Value { crate::c19::uid_json(r, u) }

fn one_case(cr: &mut Rng, g: &mut ExprGen, out: &mut Out) {
    let w = gen::gen_world(cr);
    let pools = gen_docs(cr, g, &w);
    let clean = cr.chance(40);
    let mut obj = Map::new();
    let mut shape = String::new();
    let mut ncomp = 0usize;
    let mut outside = false;

    // ----- static policies
    let static_sx = match cr.below(10) {
        0 => { shape.push_str("static=absent"); "(set)".to_string() }
        1..=3 => {
            let n = cr.below(4);
            let mut parts: Vec<String> = Vec::new();
            for _ in 0..n {
                let k = if clean { 0 } else { cr.below(100) };
                let d = if k < 78 { cr.pick(&pools.statics) } else if k < 93 { cr.pick(&pools.templates) } else { cr.pick(&pools.garbage) };
                // a concatenated text takes Cedar text only: render an EST document back to text through the API
                let t = match d {
                    Src::Cedar(s) => s.clone(),
                    Src::Json(v) => cp::Policy::from_json(None, v.clone()).map(|p| p.to_string())
                        .or_else(|_| cp::Template::from_json(None, v.clone()).map(|t| t.to_string()))
                        .unwrap_or_else(|_| "permit(".to_string()),
                };
                parts.push(t);
            }
            let mut text = parts.join(if cr.chance(50) { "\n" } else { " " });
            // sometimes the whole text is damaged (a missing `;`, a stray token)
            if !clean && cr.chance(10) { text = match cr.below(3) { 0 => text.replacen(';', "", 1), 1 => format!("{text} permit"), _ => format!("when {text}") }; }
            ncomp += n;
            shape.push_str(&format!("static=text{n}"));
            obj.insert("staticPolicies".into(), Value::String(text.clone()));
            match text_verdict(&text) { Some(s) => s, None => { outside = true; String::new() } }
        }
        4..=6 => {
            let n = cr.below(4);
            let mut arr = Vec::new();
            let mut o = String::from("(set");
            for _ in 0..n {
                let d = gen_doc(cr, &pools, false, clean);
                arr.push(d.json());
                match policy_verdict(&d, out) {
                    Verdict::Bad => o.push_str(&format!(" ({} bad)", d.fmt())),
                    Verdict::Good(b) => o.push_str(&format!(" ({} {b})", d.fmt())),
                    Verdict::Outside => outside = true,
                }
            }
            o.push(')');
            ncomp += n;
            shape.push_str(&format!("static=set{n}"));
            obj.insert("staticPolicies".into(), Value::Array(arr));
            o
        }
        _ => {
            let n = cr.below(4);
            let ids = distinct_ids(cr, n);
            let mut m = Map::new();
            let mut o = String::from("(map");
            for id in &ids {
                let d = gen_doc(cr, &pools, false, clean);
                m.insert(id.clone(), d.json());
                match policy_verdict(&d, out) {
                    Verdict::Bad => o.push_str(&format!(" ({} ({} bad))", sx::qs(id), d.fmt())),
                    Verdict::Good(b) => o.push_str(&format!(" ({} ({} {b}))", sx::qs(id), d.fmt())),
                    Verdict::Outside => outside = true,
                }
            }
            o.push(')');
            ncomp += n;
            shape.push_str(&format!("static=map{n}"));
            obj.insert("staticPolicies".into(), Value::Object(m));
            o
        }
    };

    // ----- templates
    let nt = if cr.chance(25) { 0 } else { 1 + cr.below(3) };
    let tids = distinct_ids(cr, nt);
    let mut tm = Map::new();
    let mut templates_sx = String::from("(templates");
    let mut tslots: Vec<(String, (bool, bool))> = Vec::new();
    for id in &tids {
        let d = gen_doc(cr, &pools, true, clean);
        tm.insert(id.clone(), d.json());
        let (v, slots) = template_verdict(&d, out);
        if let Some(s) = slots { tslots.push((id.clone(), s)); }
        match v {
            Verdict::Bad => templates_sx.push_str(&format!(" ({} ({} bad))", sx::qs(id), d.fmt())),
            Verdict::Good(b) => templates_sx.push_str(&format!(" ({} ({} {b}))", sx::qs(id), d.fmt())),
            Verdict::Outside => outside = true,
        }
    }
    templates_sx.push(')');
    ncomp += nt;
    shape.push_str(&format!(" templates={nt}"));
    if nt > 0 || cr.chance(50) { obj.insert("templates".into(), Value::Object(tm)); }

    // ----- links
    let nl = if cr.chance(25) { 0 } else { 1 + cr.below(3) };
    let mut la = Vec::new();
    let mut links_sx = String::from("(links");
    for li in 0..nl {
        let tid = if !tids.is_empty() && cr.chance(if clean { 100 } else { 80 }) { cr.pick(&tids).clone() } else { (*cr.pick(IDS)).to_string() };
        let nid = if cr.chance(if clean { 90 } else { 55 }) { format!("l{li}") } else if cr.chance(50) { "l0".to_string() } else { (*cr.pick(IDS)).to_string() };
        let known = tslots.iter().find(|(i, _)| *i == tid).map(|(_, s)| *s);
        let (hp, hr) = match known {
            Some(s) if clean || cr.chance(75) => s,
            _ => (cr.chance(50), cr.chance(50)),
        };
        let pu = if cr.chance(50) { w.principal.clone() } else { gen::gen_uid(cr) };
        let ru = if cr.chance(50) { w.resource.clone() } else { gen::gen_uid(cr) };
        let mut vals = Map::new();
        let mut env: c08::Env = (None, None);
        let mut bad = false;
        let badv = |r: &mut Rng| -> Value { match r.below(3) { 0 => json!({"type": "User"}), 1 => json!("User::\"a\""), _ => json!({"type": "Us er", "id": "a"}) } };
        if hp {
            let v = if !clean && cr.chance(6) { badv(cr) } else { uid_json(cr, &pu) };
            match cp::EntityUid::from_json(v.clone()) { Ok(u) => env.0 = Some(ast::EntityUID::from(u)), Err(_) => bad = true }
            vals.insert("?principal".into(), v);
        }
        if hr {
            let v = if !clean && cr.chance(6) { badv(cr) } else { uid_json(cr, &ru) };
            match cp::EntityUid::from_json(v.clone()) { Ok(u) => env.1 = Some(ast::EntityUID::from(u)), Err(_) => bad = true }
            vals.insert("?resource".into(), v);
        }
        la.push(json!({"templateId": tid, "newId": nid, "values": Value::Object(vals)}));
        links_sx.push_str(&format!(" (link {} {} {})", sx::qs(&tid), sx::qs(&nid), if bad { "bad".to_string() } else { c08::env_sx(&env) }));
    }
    links_sx.push(')');
    ncomp += nl;
    shape.push_str(&format!(" links={nl}"));
    if nl > 0 || cr.chance(50) { obj.insert("templateLinks".into(), Value::Array(la)); }

    if outside { out.count("c19p_outside_protocol"); return; }
    let doc = Value::Object(obj);
    let ffi_set: ffi::PolicySet = match serde_json::from_value(doc.clone()) {
        Ok(s) => s,
        Err(e) => { out.count("c19p_serde_reject"); out.sample(format!("serde refuses {doc}: {e}")); return; }
    };
    let imp = match ffi_set.parse() {
        Ok(ps) => { out.count("c19p_ok"); format!("(ok {})", c08::Api(ps).listing()) }
        Err(reps) => {
            out.count("c19p_errs");
            let mut es: Vec<String> = reps.iter().map(classify).collect();
            for e in &es {
                let k = e.trim_start_matches('(').split(|c: char| c == ' ' || c == ')').next().unwrap_or("").to_string();
                out.count(&format!("c19p_err_{k}"));
            }
            es.sort();
            format!("(errs{})", es.iter().map(|e| format!(" {e}")).collect::<String>())
        }
    };
    let req = format!("(ffipols (static {static_sx}) {templates_sx} {links_sx})");
    out.count(&format!("c19p_shape_{}", shape.split(' ').next().unwrap_or("").trim_end_matches(|c: char| c.is_ascii_digit())));
    if ncomp >= 2 { out.nontrivial(&req); }
    out.line(req, imp, format!("c19p {shape} {}", doc));
}

pub fn run(args: &Args, out: &mut Out) {
    let mut rng = Rng::new(args.seed ^ 0x19_0f);
    let mut g = ExprGen::new(4);
    for _ in 0..args.n {
        let mut cr = rng.fork();
        let before = out.req.len();
        let snapshot = (out.req.len(), out.imp.len(), out.meta.len());
        if catch_unwind(AssertUnwindSafe(|| one_case(&mut cr, &mut g, out))).is_err() {
            out.req.truncate(snapshot.0); out.imp.truncate(snapshot.1); out.meta.truncate(snapshot.2);
            let msg = crate::LAST_PANIC_MSG.lock().map(|g| g.clone()).unwrap_or_default();
            out.propfail("ffi::PolicySet::parse (or a parser it calls) panicked", &format!("c19p case {}", out.cases), &msg);
        }
        let _ = before;
        out.cases += 1;
    }
}
