//! C15: batched (loader-driven) authorization equals ordinary authorization.
//! One case = schema world + 1–5 strictly valid static policies + a conformant request and store (c14's setup; the
//! store generator leaves referenced entities out: dangling parents, attribute values naming absent entities,
//! principals / resources that are not in the store).  `PolicySet::is_authorized_batched` is run for EVERY budget
//! 0..=n+1 (n = number of distinct entity ids occurring in the store, the request and the policies) with three
//! loaders backed by the same `Entities`:
//!   exact      exactly the requested ids (`Some(entity)` / `None`),
//!   over-fresh additionally entities of the store that were never returned before (each entity at most once),
//!   over-again additionally entities of the store, possibly ones that were already returned in an earlier round.
//!   S  (the statement on the implementation, `propfail`): `Ok(d)` ⇒ `d` = `Authorizer::is_authorized` over the store;
//!      a budget that does not suffice gives `InsufficientIterations` (never another error, never a wrong decision);
//!      `Ok(d)` at budget b ⇒ `Ok(d)` at b+1; budget > n ⇒ a decision.
//!   K  `(batch b <req> <entities> (pols …))` against the model's `Batched.run` (exact loader).
use crate::c02::panic_msg;
use crate::c14::{self, Setup};
use crate::gen_schema::{self as gs, DEntity, DRequest};
use crate::out::Out;
use crate::rng::Rng;
use crate::sx;
use crate::Args;
use cedar_policy as api;
use cedar_policy_core::ast::{self, EntityUID, ExprKind, Literal, PartialValue};
use cedar_policy_core::authorizer::{Authorizer, Decision};
use cedar_policy_core::batched_evaluator::err::BatchedEvalError;
use cedar_policy_core::entities::Entities;
use std::collections::{BTreeSet, HashMap, HashSet};
use std::panic::{catch_unwind, AssertUnwindSafe};

#[derive(Clone, Copy, PartialEq, Eq, Debug)]
enum Mode {
    Exact,
    OverFresh,
    OverAgain,
    /// probe: every call additionally returns all of `all`
    OverAgainAll,
}

impl Mode {
    fn name(&self) -> &'static str {
        match self {
            Mode::Exact => "exact",
            Mode::OverFresh => "over-fresh",
            Mode::OverAgain | Mode::OverAgainAll => "over-again",
        }
    }
}

struct StoreLoader<'a> {
    ents: &'a api::Entities,
    all: Vec<api::EntityUid>,
    mode: Mode,
    rng: Rng,
    returned: HashSet<api::EntityUid>,
    calls: u32,
    requested: usize,
    extra: usize,
}

impl api::EntityLoader for StoreLoader<'_> {
    fn load_entities(&mut self, uids: &HashSet<api::EntityUid>) -> HashMap<api::EntityUid, Option<api::Entity>> {
        self.calls += 1;
        self.requested += uids.len();
        let mut m: HashMap<api::EntityUid, Option<api::Entity>> = uids.iter().map(|u| (u.clone(), self.ents.get(u).cloned())).collect();
        if self.mode == Mode::OverAgainAll {
            for u in &self.all {
                if !m.contains_key(u) {
                    self.extra += 1;
                    m.insert(u.clone(), self.ents.get(u).cloned());
                }
            }
        } else if self.mode != Mode::Exact && !self.all.is_empty() {
            for _ in 0..self.rng.below(3) {
                let u = self.rng.pick(&self.all).clone();
                if m.contains_key(&u) {
                    continue;
                }
                if self.mode == Mode::OverFresh && self.returned.contains(&u) {
                    continue;
                }
                self.extra += 1;
                m.insert(u.clone(), self.ents.get(&u).cloned());
            }
        }
        for u in m.keys() {
            self.returned.insert(u.clone());
        }
        m
    }
}

fn value_uids(pv: &PartialValue, acc: &mut BTreeSet<String>) {
    if let PartialValue::Value(v) = pv {
        for u in v.all_literal_uids() {
            acc.insert(u.to_string());
        }
    }
}

/// distinct entity ids occurring in the store, the request and the policies
fn universe(s: &Setup, req: &ast::Request, ents: &Entities) -> BTreeSet<String> {
    let mut acc = BTreeSet::new();
    for e in ents.iter() {
        acc.insert(e.uid().to_string());
        for a in e.ancestors() {
            acc.insert(a.to_string());
        }
        for (_, v) in e.attrs() {
            value_uids(v, &mut acc);
        }
        for (_, v) in e.tags() {
            value_uids(v, &mut acc);
        }
    }
    for u in [req.principal().uid(), req.action().uid(), req.resource().uid()].into_iter().flatten() {
        acc.insert(u.to_string());
    }
    if let Some(ast::Context::Value(m)) = req.context() {
        for v in m.values() {
            for u in v.all_literal_uids() {
                acc.insert(u.to_string());
            }
        }
    }
    for p in s.ps.policies() {
        let cond = p.condition();
        for sub in cond.subexpressions() {
            if let ExprKind::Lit(Literal::EntityUID(u)) = sub.expr_kind() {
                let u: &EntityUID = u;
                acc.insert(u.to_string());
            }
        }
    }
    acc
}

#[derive(Clone, PartialEq, Eq, Debug)]
enum Res {
    Ok(Decision),
    Insufficient,
    Other(String),
}

impl Res {
    fn sx(&self) -> String {
        match self {
            Res::Ok(d) => format!("(ok {})", c14::dec_name(*d)),
            Res::Insufficient => "(insufficient)".into(),
            Res::Other(e) => format!("(error {})", sx::qs(e)),
        }
    }
}

#[allow(clippy::too_many_arguments)]
fn run_batched(s: &Setup, req_pub: &api::Request, ents_pub: &api::Entities, all: &[api::EntityUid], mode: Mode, seed: u64, budget: u32) -> Result<(Res, u32, usize), String> {
    let mut loader = StoreLoader { ents: ents_pub, all: all.to_vec(), mode, rng: Rng(seed), returned: HashSet::new(), calls: 0, requested: 0, extra: 0 };
    let r = catch_unwind(AssertUnwindSafe(|| s.ps_pub.is_authorized_batched(req_pub, &s.schema_pub, &mut loader, budget))).map_err(panic_msg)?;
    let res = match r {
        Ok(api::Decision::Allow) => Res::Ok(Decision::Allow),
        Ok(api::Decision::Deny) => Res::Ok(Decision::Deny),
        Err(BatchedEvalError::InsufficientIterations(_)) => Res::Insufficient,
        Err(e) => Res::Other(e.to_string()),
    };
    Ok((res, loader.calls, loader.extra))
}

/// the set-membership / can-error-analysis family of c14 (policies over a fixed schema whose operands run through
/// entities that may be missing from the store), through the batched loop
fn member_case(out: &mut Out, r: &mut Rng, cname: &str, thorough: bool) {
    let Ok(w) = gs::load(c14::member_spec()) else { return };
    let n_pol = 1 + r.below(3);
    let texts: Vec<(String, usize)> = (0..3 * n_pol).map(|_| c14::member_policy(r)).collect();
    let Some(s) = c14::setup_from(w, texts) else { out.count("no_valid_policies"); return };
    let mut store: Vec<DEntity> = gs::gen_store(r, &s.w.spec).entities;
    for e in store.iter_mut() { c14::shrink_sets(r, &mut e.attrs); }
    let mut q: DRequest = crate::gen_typed::gen_request_for(r, &s.w.spec, 1, "User", "Doc");
    c14::shrink_sets(r, &mut q.context);
    if r.chance(50) && !store.is_empty() {
        let drop = r.below(store.len());
        store.remove(drop);
    }
    out.count("family:set-membership");
    run_case(out, r, &s, store, q, &format!("{cname} family=set-membership"), thorough, &[Mode::Exact, Mode::OverFresh], None);
}

fn one_case(out: &mut Out, r: &mut Rng, cname: &str, thorough: bool) {
    if r.chance(20) {
        return member_case(out, r, cname, thorough);
    }
    let n_pol = 1 + r.below(5);
    let Some(s) = c14::gen_setup(r, n_pol) else { out.count("no_valid_policies"); return };
    let mut store: Vec<DEntity> = gs::gen_store(r, &s.w.spec).entities;
    let q: DRequest = c14::gen_request_near(r, &s);
    // sometimes drop a further entity (missing referenced entities; the generator already leaves ~45% of the ids out)
    if r.chance(30) && !store.is_empty() {
        let drop = r.below(store.len());
        store.remove(drop);
    }
    run_case(out, r, &s, store, q, cname, thorough, &[Mode::Exact, Mode::OverFresh, Mode::OverAgain], None);
}

/// minimal input of the duplicate-entity finding: two loading rounds, and a loader that (as its contract allows)
/// returns more than requested - here the principal again in the second round
fn probes(out: &mut Out, r: &mut Rng) {
    let Some(w) = c14::chain_world() else { return };
    let text = "permit(principal, action == Action::\"view\", resource) when { principal has manager && principal.manager.name like \"*\" };";
    let Some(s) = c14::setup_from(w, vec![(text.to_string(), 1)]) else { return };
    let user = |i: &str, mgr: Option<&str>| DEntity {
        uid: ("User".into(), i.into()),
        attrs: mgr.map(|m| ("manager".to_string(), gs::DVal::Ent("User".into(), m.into()))).into_iter().chain([("name".to_string(), gs::DVal::Str("x".into())), ("level".to_string(), gs::DVal::Long(1)), ("friends".to_string(), gs::DVal::Set(vec![]))]).collect(),
        parents: vec![],
        tags: vec![],
    };
    let store = vec![user("a", Some("b")), user("b", None)];
    let q = DRequest { principal: ("User".into(), "a".into()), action: ("Action".into(), "view".into()), resource: ("Doc".into(), "d".into()), context: vec![("n".into(), gs::DVal::Long(0))] };
    let again: Vec<api::EntityUid> = vec![gs::mk_uid(&("User".to_string(), "a".to_string())).into()];
    run_case(out, r, &s, store, q, "probe=loader-returns-principal-again", true, &[Mode::Exact, Mode::OverAgainAll], Some(again));
}

#[allow(clippy::too_many_arguments)]
fn run_case(out: &mut Out, r: &mut Rng, s: &Setup, store: Vec<DEntity>, q: DRequest, cname: &str, thorough: bool, modes: &[Mode], all_override: Option<Vec<api::EntityUid>>) {
    let Some(ents) = c14::build_entities(&s.w, &store) else { out.count("store_rejected_by_rust_validation"); return };
    let Some(req) = c14::build_request(&s.w, &q, true) else { out.count("request_rejected_by_rust_validation"); return };
    out.cases += 1;
    let ents_pub: api::Entities = ents.clone().into();
    let req_pub: api::Request = req.clone().into();
    let all: Vec<api::EntityUid> = {
        let mut v: Vec<api::EntityUid> = ents.iter().map(|e| e.uid().clone().into()).collect();
        v.sort_by_key(|u| u.to_string());
        v
    };
    let all = all_override.unwrap_or(all);
    let uni = universe(s, &req, &ents);
    let n = uni.len() as u32;
    let missing = {
        let present: BTreeSet<String> = ents.iter().map(|e| e.uid().to_string()).collect();
        uni.iter().filter(|u| !present.contains(*u)).count()
    };
    out.add("universe_uids", n as u64);
    out.add("missing_referenced_uids", missing as u64);
    let case = format!(
        "{cname} policies=[{}] request {} store={} schema={}",
        s.pols.iter().map(|p| format!("{}: {}", p.id, p.text)).collect::<Vec<_>>().join(" "),
        c14::req_text(&q),
        c14::store_json(&store),
        s.w.json
    );
    let ordinary = match catch_unwind(AssertUnwindSafe(|| Authorizer::new().is_authorized(req.clone(), &s.ps, &ents))) {
        Ok(x) => x.decision,
        Err(p) => { out.propfail("panic in is_authorized", &case, &panic_msg(p)); return; }
    };
    out.count(&format!("ordinary:{}", c14::dec_name(ordinary)));
    let (pu, au, ru) = (gs::mk_uid(&q.principal), gs::mk_uid(&q.action), gs::mk_uid(&q.resource));
    let model_prefix = match (c14::typed_conditions(s, &au, pu.entity_type(), ru.entity_type()), sx::entities(&ents)) {
        (Some(tcs), Some(es)) => Some(format!("{} {es} (pols{})", sx::request(&pu, &au, &ru, &c14::ctx_value(&req)), c14::pols_sx(&tcs))),
        _ => None,
    };
    let loader_seed = r.next();
    let mut first_ok_exact: Option<u32> = None;
    for &mode in modes {
        // every budget for the exact loader; for the over-returning ones the small budgets and the top ones
        let budgets: Vec<u32> = if mode == Mode::Exact || thorough { (0..=n + 1).collect() } else { (0..=n + 1).filter(|b| *b <= 5 || *b >= n).collect() };
        let mut prev: Option<(u32, Res)> = None;
        let mut first_ok: Option<u32> = None;
        for b in budgets {
            let (res, calls, extra) = match run_batched(s, &req_pub, &ents_pub, &all, mode, loader_seed, b) {
                Ok(x) => x,
                Err(p) => { out.propfail("panic in is_authorized_batched", &format!("{case} LOADER {} BUDGET {b}", mode.name()), &p); break; }
            };
            out.count("batched_runs");
            out.add("extra_entities_returned", extra as u64);
            let bdesc = format!("{case} LOADER {} BUDGET {b} (n={n})", mode.name());
            if calls > b {
                out.propfail("the loader is called more often than the budget", &bdesc, &format!("{calls} calls"));
            }
            match &res {
                Res::Ok(d) => {
                    if first_ok.is_none() { first_ok = Some(b); }
                    if *d != ordinary {
                        out.propfail("batched authorization returns a decision different from ordinary authorization", &bdesc, &format!("batched={} ordinary={}", c14::dec_name(*d), c14::dec_name(ordinary)));
                    }
                }
                Res::Insufficient => {
                    if b > n {
                        out.propfail("a budget larger than the number of distinct entity ids does not yield a decision", &bdesc, "InsufficientIterations");
                    }
                }
                Res::Other(e) => {
                    out.count(&format!("other_error:{}", mode.name()));
                    out.propfail("batched authorization returns neither a decision nor the insufficient-iterations error", &bdesc, e);
                }
            }
            if let Some((pb, Res::Ok(pd))) = &prev {
                if *pb + 1 == b && res != Res::Ok(*pd) {
                    out.propfail("enlarging the budget changes a decision already obtained", &bdesc, &format!("budget {pb}: {} budget {b}: {}", Res::Ok(*pd).sx(), res.sx()));
                }
            }
            if mode == Mode::Exact {
                if let Some(pfx) = &model_prefix {
                    // all small budgets, the first deciding one and the top ones go to the model
                    if b <= 6 || b >= n || first_ok == Some(b) {
                        out.line(format!("(batch {b} {pfx})"), res.sx(), bdesc.clone());
                        out.count("batch_lines");
                    }
                }
            }
            prev = Some((b, res));
        }
        out.count(&format!("first_deciding_budget:{}:{}", mode.name(), first_ok.map_or("none".to_string(), |b| if b > 6 { "7+".to_string() } else { b.to_string() })));
        if mode == Mode::Exact { first_ok_exact = first_ok; }
    }
    if first_ok_exact.map_or(false, |b| b >= 1) {
        out.nontrivial(&format!("{}|{}|{}", s.pols.iter().map(|p| p.text.clone()).collect::<Vec<_>>().join(";"), c14::req_text(&q), c14::store_json(&store)));
    }
    out.sample(format!("n={n} first deciding budget (exact loader)={first_ok_exact:?} ordinary={} {}", c14::dec_name(ordinary), s.pols.iter().map(|p| p.text.clone()).collect::<Vec<_>>().join(" ")));
}

pub fn run(args: &Args, out: &mut Out) {
    let mut rng = Rng::new(args.seed);
    probes(out, &mut rng.fork());
    for case in 0..args.n {
        let mut r = rng.fork();
        let sub = r.0;
        one_case(out, &mut r, &format!("case={case} sub={sub}"), args.thorough);
    }
}
