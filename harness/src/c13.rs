//! C13: partial authorization with unknowns. Policy sets from c01's generator; requests with every subset of
//! {principal, resource, context} unknown (typed / untyped), contexts and entity attributes / tags containing
//! unknowns, complete and `.partial()` stores. `Authorizer::is_authorized_core` gives the `PartialResponse`;
//! for k substitutions of values of the declared kinds: `reauthorize` vs a fresh concrete `is_authorized`
//! on the substituted request/store vs the model. The statement itself is evaluated on the implementation.
use crate::c01::{self, PolSpec};
use crate::c02::panic_msg;
use crate::gen::{self, ExprGen, Ty, World};
use crate::out::Out;
use crate::rng::Rng;
use crate::sx;
use crate::Args;
use cedar_policy_core::ast::{
    Context, Effect, Entity, EntityType, EntityUID, EntityUIDEntry, PartialValue, PolicySet, Request,
    RequestSchemaAllPass, RestrictedExpr, Type, Unknown, Value, ValueKind,
};
use cedar_policy_core::authorizer::{Authorizer, Decision, ErrorState, PartialResponse, Response};
use cedar_policy_core::entities::{Entities, NoEntitiesSchema, TCComputation};
use cedar_policy_core::evaluator::{Evaluator, RestrictedEvaluator};
use cedar_policy_core::extensions::Extensions;
use smol_str::SmolStr;
use std::collections::{BTreeMap, HashMap, HashSet};
use std::fmt::Write;
use std::panic::{catch_unwind, AssertUnwindSafe};

#[derive(Clone)]
struct Unk {
    name: String,
    ty: Ty,
    ann: Option<Type>,
    /// extension constructor whose argument this unknown is ("" if none)
    hint: &'static str,
}

/// how an unknown sits inside an attribute value
#[derive(Clone)]
enum AttrSpec {
    Conc(RestrictedExpr),
    /// wrap: 0 `Unknown` node, 1 `unknown("name")` extension call, 2 inside a set with `extra`,
    /// 3 inside a record under key "n", 4 argument of the extension constructor named by `ctor`
    Unk { u: usize, wrap: u8, extra: Option<RestrictedExpr>, ctor: &'static str },
}

#[derive(Clone)]
enum EntrySpec {
    Known(EntityUID),
    Unknown(Option<&'static str>),
}

struct EntSpec {
    uid: EntityUID,
    attrs: Vec<(SmolStr, AttrSpec)>,
    tags: Vec<(SmolStr, AttrSpec)>,
    ancestors: HashSet<EntityUID>,
}

struct Case {
    w: World,
    unks: Vec<Unk>,
    p: EntrySpec,
    r: EntrySpec,
    ctx: Option<Vec<(SmolStr, AttrSpec)>>,
    ents: Vec<EntSpec>,
    dropped: HashSet<EntityUID>,
    partial: bool,
    ent_unknowns: bool,
}

type Sigma = HashMap<SmolStr, Value>;

fn ext() -> &'static Extensions<'static> {
    Extensions::all_available()
}

fn ann_for(r: &mut Rng, ty: Ty) -> Type {
    let e = |s: &str| Type::Extension { name: gen::name(s) };
    match ty {
        Ty::Bool => Type::Bool,
        Ty::Long => Type::Long,
        Ty::Str => Type::String,
        Ty::Entity => Type::Entity { ty: EntityType::from(gen::name(*r.pick(gen::TYPES))) },
        Ty::SetLong | Ty::SetEntity | Ty::SetStr => Type::Set,
        Ty::Record => Type::Record,
        Ty::Decimal => e("decimal"),
        Ty::Ip => e("ipaddr"),
        Ty::Datetime => e("datetime"),
        Ty::Duration => e("duration"),
    }
}

fn new_unk(r: &mut Rng, unks: &mut Vec<Unk>, ty: Ty, allow_ann: bool) -> usize {
    // reuse an existing unknown of the same kind now and then (one name at several places)
    if r.chance(10) {
        if let Some(i) = unks.iter().position(|u| u.ty == ty && (allow_ann || u.ann.is_none())) {
            return i;
        }
    }
    let ann = if allow_ann && r.chance(50) { Some(ann_for(r, ty)) } else { None };
    unks.push(Unk { name: format!("u{}", unks.len()), ty, ann, hint: "" });
    unks.len() - 1
}

fn unk_attr(r: &mut Rng, unks: &mut Vec<Unk>, ty: Ty) -> AttrSpec {
    let plain = |r: &mut Rng, unks: &mut Vec<Unk>, ty: Ty| {
        if r.chance(20) {
            AttrSpec::Unk { u: new_unk(r, unks, ty, false), wrap: 1, extra: None, ctor: "" }
        } else {
            AttrSpec::Unk { u: new_unk(r, unks, ty, true), wrap: 0, extra: None, ctor: "" }
        }
    };
    match ty {
        Ty::SetLong | Ty::SetStr | Ty::SetEntity if r.chance(50) => {
            let et = match ty { Ty::SetLong => Ty::Long, Ty::SetStr => Ty::Str, _ => Ty::Entity };
            AttrSpec::Unk { u: new_unk(r, unks, et, true), wrap: 2, extra: Some(gen::gen_rexpr(r, et, 0)), ctor: "" }
        }
        Ty::Record if r.chance(50) => AttrSpec::Unk { u: new_unk(r, unks, Ty::Long, true), wrap: 3, extra: None, ctor: "" },
        Ty::Decimal | Ty::Duration if r.chance(30) => {
            let ctor = if ty == Ty::Decimal { "decimal" } else { "duration" };
            let ann = if r.chance(50) { Some(Type::String) } else { None };
            unks.push(Unk { name: format!("u{}", unks.len()), ty: Ty::Str, ann, hint: ctor });
            AttrSpec::Unk { u: unks.len() - 1, wrap: 4, extra: None, ctor }
        }
        _ => plain(r, unks, ty),
    }
}

fn materialize(spec: &AttrSpec, unks: &[Unk], sigma: Option<&Sigma>) -> RestrictedExpr {
    match spec {
        AttrSpec::Conc(e) => e.clone(),
        AttrSpec::Unk { u, wrap, extra, ctor } => {
            let un = &unks[*u];
            let leaf = match sigma {
                Some(m) => RestrictedExpr::from(m.get(un.name.as_str()).expect("sigma total").clone()),
                None if *wrap == 1 => RestrictedExpr::call_extension_fn(gen::name("unknown"), vec![RestrictedExpr::val(un.name.as_str())]),
                None => RestrictedExpr::unknown(Unknown { name: un.name.as_str().into(), type_annotation: un.ann.clone() }),
            };
            match wrap {
                2 => RestrictedExpr::set(vec![leaf, extra.clone().expect("extra")]),
                3 => RestrictedExpr::record(vec![(SmolStr::from("n"), leaf)]).expect("record"),
                4 => RestrictedExpr::call_extension_fn(gen::name(ctor), vec![leaf]),
                _ => leaf,
            }
        }
    }
}

fn rvalue(e: &RestrictedExpr) -> Option<Value> {
    RestrictedEvaluator::new(ext()).interpret(e.as_borrowed()).ok()
}

fn gen_value_of(r: &mut Rng, ty: Ty) -> Value {
    rvalue(&gen::gen_rexpr(r, ty, 2)).expect("generated restricted expressions evaluate")
}

/// a value of the declared kind of the unknown
fn gen_sigma_value(r: &mut Rng, u: &Unk) -> Value {
    if !u.hint.is_empty() && r.chance(93) {
        return Value::from(if u.hint == "decimal" { *r.pick(gen::DECIMALS_OK) } else { *r.pick(gen::DURATIONS_OK) });
    }
    match &u.ann {
        Some(Type::Entity { ty }) => Value::from(gen::mk_uid(&ty.to_string(), gen::EIDS[r.below(4)])),
        Some(_) => {
            if u.ty == Ty::Str && r.chance(60) {
                // strings feeding extension constructors: mostly parseable
                Value::from(*r.pick(&["1.0", "-1.5", "1s", "1d2h", "0.0001", "x", "5ms"]))
            } else {
                gen_value_of(r, u.ty)
            }
        }
        None => {
            let ty = if r.chance(85) { u.ty } else { *r.pick(gen::ALL_TYS) };
            if ty == Ty::Str && r.chance(60) {
                Value::from(*r.pick(&["1.0", "-1.5", "1s", "1d2h", "0.0001", "x", "5ms"]))
            } else {
                gen_value_of(r, ty)
            }
        }
    }
}

fn gen_entry(r: &mut Rng, known: &EntityUID) -> EntrySpec {
    match r.below(100) {
        0..=44 => EntrySpec::Known(known.clone()),
        45..=69 => EntrySpec::Unknown(None),
        _ => {
            let kt = known.entity_type().to_string();
            let t: &'static str = if r.chance(70) {
                gen::TYPES.iter().find(|t| **t == kt).copied().unwrap_or("User")
            } else {
                *r.pick(gen::TYPES)
            };
            EntrySpec::Unknown(Some(t))
        }
    }
}

fn attr_ty(k: &str, tags: bool) -> Ty {
    let tbl = if tags { gen::TAGS } else { gen::ATTRS };
    tbl.iter().find(|(n, _)| *n == k).map(|(_, t)| *t).unwrap_or(Ty::Long)
}

fn pv_rexpr(pv: &PartialValue) -> RestrictedExpr {
    match pv {
        PartialValue::Value(v) => RestrictedExpr::from(v.clone()),
        PartialValue::Residual(_) => unreachable!("world stores are concrete"),
    }
}

fn gen_case(r: &mut Rng) -> Case {
    let w = gen::gen_world(r);
    let mut unks: Vec<Unk> = Vec::new();
    let p = gen_entry(r, &w.principal);
    let rs = gen_entry(r, &w.resource);
    // context
    let ctx = if r.chance(15) {
        None
    } else {
        let pct = if r.chance(35) { 0 } else { 30 };
        let mut pairs = Vec::new();
        for (k, e) in w.context.clone().into_iter() {
            if r.chance(pct) {
                pairs.push((k.clone(), unk_attr(r, &mut unks, attr_ty(&k, false))));
            } else {
                pairs.push((k, AttrSpec::Conc(e)));
            }
        }
        Some(pairs)
    };
    // entities
    let ent_unknowns = r.chance(50);
    let mut any_ent_unknown = false;
    let mut ents = Vec::new();
    for e in w.entities.iter() {
        let mut attrs = Vec::new();
        for (k, v) in e.attrs() {
            if ent_unknowns && r.chance(12) {
                any_ent_unknown = true;
                attrs.push((k.clone(), unk_attr(r, &mut unks, attr_ty(k, false))));
            } else {
                attrs.push((k.clone(), AttrSpec::Conc(pv_rexpr(v))));
            }
        }
        let mut tags = Vec::new();
        for (k, v) in e.tags() {
            if ent_unknowns && r.chance(12) {
                any_ent_unknown = true;
                tags.push((k.clone(), unk_attr(r, &mut unks, attr_ty(k, true))));
            } else {
                tags.push((k.clone(), AttrSpec::Conc(pv_rexpr(v))));
            }
        }
        ents.push(EntSpec { uid: e.uid().clone(), attrs, tags, ancestors: e.ancestors().cloned().collect() });
    }
    ents.sort_by_key(|e| e.uid.to_string());
    let partial = r.chance(35);
    let mut dropped = HashSet::new();
    if partial {
        for e in &ents {
            if r.chance(30) {
                dropped.insert(e.uid.clone());
            }
        }
    }
    Case { w, unks, p, r: rs, ctx, ents, dropped, partial, ent_unknowns: any_ent_unknown }
}

impl Case {
    fn store(&self, sigma: Option<&Sigma>, include_dropped: bool, partial_mode: bool) -> Result<Entities, String> {
        let mut v = Vec::new();
        for e in &self.ents {
            if !include_dropped && self.dropped.contains(&e.uid) {
                continue;
            }
            let attrs: Vec<(SmolStr, RestrictedExpr)> = e.attrs.iter().map(|(k, s)| (k.clone(), materialize(s, &self.unks, sigma))).collect();
            let tags: Vec<(SmolStr, RestrictedExpr)> = e.tags.iter().map(|(k, s)| (k.clone(), materialize(s, &self.unks, sigma))).collect();
            v.push(Entity::new(e.uid.clone(), attrs, e.ancestors.clone(), HashSet::new(), tags, ext()).map_err(|x| format!("entity: {x}"))?);
        }
        let es = Entities::from_entities(v, None::<&NoEntitiesSchema>, TCComputation::AssumeAlreadyComputed, ext()).map_err(|x| format!("entities: {x}"))?;
        Ok(if partial_mode { es.partial() } else { es })
    }

    fn entry(&self, s: &EntrySpec) -> EntityUIDEntry {
        match s {
            EntrySpec::Known(u) => EntityUIDEntry::known(u.clone(), None),
            EntrySpec::Unknown(None) => EntityUIDEntry::unknown(),
            EntrySpec::Unknown(Some(t)) => EntityUIDEntry::unknown_with_type(EntityType::from(gen::name(t)), None),
        }
    }

    fn partial_request(&self) -> Result<Request, String> {
        let ctx = match &self.ctx {
            None => None,
            Some(pairs) => Some(
                Context::from_pairs(pairs.iter().map(|(k, s)| (k.clone(), materialize(s, &self.unks, None))), ext()).map_err(|e| format!("context: {e}"))?,
            ),
        };
        Request::new_with_unknowns(
            self.entry(&self.p),
            EntityUIDEntry::known(self.w.action.clone(), None),
            self.entry(&self.r),
            ctx,
            None::<&RequestSchemaAllPass>,
            ext(),
        )
        .map_err(|e| format!("request: {e}"))
    }

    fn fresh_request(&self, sigma: &Sigma) -> Result<Request, String> {
        let uid_of = |s: &EntrySpec, key: &str| -> Result<EntityUID, String> {
            match s {
                EntrySpec::Known(u) => Ok(u.clone()),
                EntrySpec::Unknown(_) => match &sigma.get(key).ok_or("sigma lacks var")?.value {
                    ValueKind::Lit(cedar_policy_core::ast::Literal::EntityUID(u)) => Ok(u.as_ref().clone()),
                    _ => Err("sigma var not an entity".into()),
                },
            }
        };
        let ctx = match &self.ctx {
            None => match &sigma.get("context").ok_or("sigma lacks context")?.value {
                ValueKind::Record(m) => Context::Value(m.clone()),
                _ => return Err("sigma context not a record".into()),
            },
            Some(pairs) => Context::from_pairs(pairs.iter().map(|(k, s)| (k.clone(), materialize(s, &self.unks, Some(sigma)))), ext())
                .map_err(|e| format!("context: {e}"))?,
        };
        Request::new(
            (uid_of(&self.p, "principal")?, None),
            (self.w.action.clone(), None),
            (uid_of(&self.r, "resource")?, None),
            ctx,
            None::<&RequestSchemaAllPass>,
            ext(),
        )
        .map_err(|e| format!("request: {e}"))
    }

    /// all uids a partial store may be asked about (names of the unknowns it creates): (rust name, model name, uid)
    fn candidate_uids(&self) -> Vec<EntityUID> {
        let mut v = Vec::new();
        for t in gen::TYPES {
            for e in gen::EIDS {
                v.push(gen::mk_uid(t, e));
            }
        }
        v.push(gen::mk_uid("Group", "zz"));
        v
    }

    fn gen_sigma(&self, r: &mut Rng, discovered: &[EntityUID]) -> (Sigma, Vec<(String, Value)>) {
        let mut m: Sigma = HashMap::new();
        let mut model: Vec<(String, Value)> = Vec::new();
        let put = |m: &mut Sigma, model: &mut Vec<(String, Value)>, k: &str, v: Value| {
            m.insert(k.into(), v.clone());
            model.push((k.to_string(), v));
        };
        for (s, key, known) in [(&self.p, "principal", &self.w.principal), (&self.r, "resource", &self.w.resource)] {
            match s {
                EntrySpec::Known(_) => {}
                EntrySpec::Unknown(None) => {
                    let u = if r.chance(70) { known.clone() } else { gen::gen_uid(r) };
                    put(&mut m, &mut model, key, Value::from(u));
                }
                EntrySpec::Unknown(Some(t)) => {
                    let u = if r.chance(60) && known.entity_type().to_string() == *t { known.clone() } else { gen::mk_uid(t, gen::EIDS[r.below(4)]) };
                    put(&mut m, &mut model, key, Value::from(u));
                }
            }
        }
        if self.ctx.is_none() {
            let v = if r.chance(60) {
                match PartialValue::from(self.w.context.clone()) {
                    PartialValue::Value(v) => v,
                    _ => unreachable!(),
                }
            } else {
                gen_value_of(r, Ty::Record)
            };
            put(&mut m, &mut model, "context", v);
        }
        for u in &self.unks {
            let v = gen_sigma_value(r, u);
            put(&mut m, &mut model, &u.name, v);
        }
        if self.partial {
            let mut cands = self.candidate_uids();
            for u in discovered {
                if !cands.contains(u) { cands.push(u.clone()); }
            }
            for u in cands {
                let eid: &str = u.eid().as_ref();
                m.insert(u.to_string().into(), Value::from(u.clone()));
                model.push((format!("{}::\"{}\"", u.entity_type(), eid), Value::from(u.clone())));
            }
        }
        model.sort_by(|a, b| a.0.cmp(&b.0));
        (m, model)
    }
}

/* ---------- serialisation of partial objects ---------- */

fn pv_sx(pv: &PartialValue) -> Option<String> {
    Some(match pv {
        PartialValue::Value(v) => format!("(v {})", sx::value(v)),
        PartialValue::Residual(e) => format!("(r {})", sx::expr(e)?),
    })
}

fn pentities_sx(es: &Entities) -> Option<String> {
    let mut ents: Vec<(String, String)> = Vec::new();
    for e in es.iter() {
        let mut o = format!("(ent {} (attrs", sx::uid(e.uid()));
        let mut attrs: Vec<_> = e.attrs().collect();
        attrs.sort_by(|a, b| a.0.cmp(b.0));
        for (k, v) in attrs {
            write!(o, " ({} {})", sx::qs(k), pv_sx(v)?).unwrap();
        }
        o.push_str(") (anc");
        let mut anc: Vec<String> = e.ancestors().map(sx::uid).collect();
        anc.sort();
        anc.dedup();
        for a in anc {
            o.push(' ');
            o.push_str(&a);
        }
        o.push_str(") (tags");
        let mut tags: Vec<_> = e.tags().collect();
        tags.sort_by(|a, b| a.0.cmp(b.0));
        for (k, v) in tags {
            write!(o, " ({} {})", sx::qs(k), pv_sx(v)?).unwrap();
        }
        o.push_str("))");
        ents.push((sx::uid(e.uid()), o));
    }
    ents.sort();
    let mut o = format!("(pentities {}", if es.is_partial() { "partial" } else { "concrete" });
    for (_, e) in ents {
        o.push(' ');
        o.push_str(&e);
    }
    o.push(')');
    Some(o)
}

fn entry_sx(e: &EntityUIDEntry) -> String {
    match e {
        EntityUIDEntry::Known { euid, .. } => sx::uid(euid),
        EntityUIDEntry::Unknown { ty: None, .. } => "(unk)".into(),
        EntityUIDEntry::Unknown { ty: Some(t), .. } => format!("(unk {})", sx::qs(&t.to_string())),
    }
}

fn preq_sx(q: &Request) -> Option<String> {
    let ctx = match q.context() {
        None => "(noctx)".to_string(),
        Some(Context::Value(m)) => {
            let mut o = String::from("(ctx");
            for (k, v) in m.iter() {
                write!(o, " ({} {})", sx::qs(k), sx::value(v)).unwrap();
            }
            o.push(')');
            o
        }
        Some(Context::RestrictedResidual(m)) => {
            let mut o = String::from("(rctx");
            for (k, e) in m.iter() {
                write!(o, " ({} {})", sx::qs(k), sx::expr(e)?).unwrap();
            }
            o.push(')');
            o
        }
    };
    Some(format!("(preq {} {} {} {})", entry_sx(q.principal()), entry_sx(q.action()), entry_sx(q.resource()), ctx))
}

fn classes(pr: &PartialResponse) -> BTreeMap<String, &'static str> {
    let mut m = BTreeMap::new();
    for id in pr.satisfied_permits.keys().chain(pr.satisfied_forbids.keys()) {
        m.insert(id.as_ref().to_string(), "true");
    }
    for (id, (st, _)) in pr.false_permits.iter().chain(pr.false_forbids.iter()) {
        m.insert(id.as_ref().to_string(), if *st == ErrorState::Error { "error" } else { "false" });
    }
    for id in pr.residual_permits.keys().chain(pr.residual_forbids.keys()) {
        m.insert(id.as_ref().to_string(), "residual");
    }
    m
}

fn may_ids(pr: &PartialResponse) -> Vec<String> {
    let mut v: Vec<String> = pr.may_be_determining().map(|p| p.id().as_ref().to_string()).collect();
    v.sort();
    v
}
fn must_ids(pr: &PartialResponse) -> Vec<String> {
    let mut v: Vec<String> = pr.must_be_determining().map(|p| p.id().as_ref().to_string()).collect();
    v.sort();
    v
}

fn dec_sx(d: Option<Decision>) -> &'static str {
    match d {
        Some(Decision::Allow) => "allow",
        Some(Decision::Deny) => "deny",
        None => "none",
    }
}

/// `None`: constructing the determining policies panicked
fn may_must(pr: &PartialResponse) -> Option<(Vec<String>, Vec<String>)> {
    catch_unwind(AssertUnwindSafe(|| (may_ids(pr), must_ids(pr)))).ok()
}

fn presp_sx(pr: &PartialResponse) -> String {
    let mut o = format!("(presp {} (cls", dec_sx(pr.decision()));
    for (id, c) in classes(pr) {
        write!(o, " ({} {})", sx::qs(&id), c).unwrap();
    }
    match may_must(pr) {
        Some((may, must)) => write!(o, ") (may {}) (must {}))", sx::ids(may.into_iter()), sx::ids(must.into_iter())).unwrap(),
        None => o.push_str(") (construct-policy-panic))"),
    }
    o
}

fn subst_sx(model: &[(String, Value)]) -> String {
    let mut o = String::from("(subst");
    for (k, v) in model {
        write!(o, " ({} {})", sx::qs(k), sx::value(v)).unwrap();
    }
    o.push(')');
    o
}

fn sorted_reasons(resp: &Response) -> Vec<String> {
    let mut v: Vec<String> = resp.diagnostics.reason.iter().map(|i| i.as_ref().to_string()).collect();
    v.sort();
    v
}

fn is_subset(a: &[String], b: &[String]) -> bool {
    a.iter().all(|x| b.contains(x))
}

fn describe(c: &Case, specs: &[PolSpec], preq: &str) -> String {
    let pols = specs.iter().map(|s| format!("{}{}: {}", s.id, if s.link.is_some() { "[linked]" } else { "" }, s.text)).collect::<Vec<_>>().join(" || ");
    let unks = c.unks.iter().map(|u| format!("{}:{:?}:{}", u.name, u.ty, u.ann.as_ref().map(|t| t.to_string()).unwrap_or_else(|| "-".into()))).collect::<Vec<_>>().join(",");
    format!("{pols} ## {preq} ## unknowns[{unks}] partial_store={} dropped={}", c.partial, c.dropped.len())
}

pub fn one_case(r: &mut Rng, g: &mut ExprGen, out: &mut Out, k_subst: usize) {
    let c = gen_case(r);
    let n = 1 + r.below(6);
    let mut specs = Vec::new();
    let mut policy_unknown_call = false;
    for i in 0..n {
        let eff = if r.chance(60) { Effect::Permit } else { Effect::Forbid };
        let outcome = if r.chance(70) { 3 } else { r.below(3) as u32 };
        let template = r.chance(20);
        let mut s = c01::gen_policy(r, g, &c.w, &format!("p{i}"), eff, outcome, template);
        if r.chance(3) {
            // the `unknown("x")` extension function called from policy text (model diff only)
            policy_unknown_call = true;
            let name = if !c.unks.is_empty() && r.chance(70) { c.unks[r.below(c.unks.len())].name.clone() } else { "zz".to_string() };
            let extra = *r.pick(&["unknown(\"{}\") == 1", "unknown(\"{}\")", "!(unknown(\"{}\") < 3)"]);
            s.text = s.text.trim_end_matches(';').to_string() + &format!(" when {{ {} }};", extra.replace("{}", &name));
        }
        if r.chance(18) {
            // projection out of / `has` on a record literal one of whose OTHER fields holds a residual that can still
            // error, directly or nested in a set / record / extension call (`Expr::is_projectable` must say no)
            let k: Option<String> = c.ctx.as_ref().and_then(|kvs| {
                let unk_keys: Vec<String> = kvs.iter().filter(|(_, a)| matches!(a, AttrSpec::Unk { wrap: 0, .. })).map(|(k, _)| k.to_string()).collect();
                if unk_keys.is_empty() { None } else { Some(unk_keys[r.below(unk_keys.len())].clone()) }
            });
            let acc = match &k {
                Some(k) if k.chars().all(|ch| ch.is_ascii_alphanumeric()) && !["if", "in", "is", "has", "like", "then", "else", "true", "false"].contains(&k.as_str()) => format!("context.{k}"),
                Some(k) => format!("context[\"{k}\"]"),
                None => "context.nosuchattr".to_string(),
            };
            let danger = match r.below(6) {
                0 => format!("{acc} + 1"),
                1 => format!("[{acc} + 1, 10]"),
                2 => format!("{{x: {acc} + 1}}"),
                3 => format!("[[{acc} * 2]]"),
                4 => format!("decimal({acc})"),
                _ => format!("[{{y: [-({acc})]}}]"),
            };
            let cond = match r.below(4) {
                0 => format!("{{scores: {danger}, enabled: true}}.enabled"),
                1 => format!("{{scores: {danger}, enabled: true}} has enabled"),
                2 => format!("!({{scores: {danger}, enabled: false}}.enabled)"),
                _ => format!("{{scores: {danger}, enabled: true}} has nosuch || true"),
            };
            s.text = s.text.trim_end_matches(';').to_string() + &format!(" when {{ {cond} }};");
            out.count("record_projection_with_risky_sibling");
        }
        if r.chance(15) {
            // a conditional whose GUARD stays residual while both branches reduce to the same value: the guard can still
            // error (or be a non-boolean) under a substitution, so the conditional must not be folded to the branch value.
            // The guard forms fail for different kinds of substituted value, so most substitutions make one of them error.
            let k: Option<String> = c.ctx.as_ref().and_then(|kvs| {
                let unk_keys: Vec<String> = kvs.iter().filter(|(_, a)| matches!(a, AttrSpec::Unk { wrap: 0, .. })).map(|(k, _)| k.to_string()).collect();
                if unk_keys.is_empty() { None } else { Some(unk_keys[r.below(unk_keys.len())].clone()) }
            });
            let acc = match (&k, c.ctx.is_none()) {
                (_, true) => "context.session".to_string(),
                (Some(k), _) if k.chars().all(|ch| ch.is_ascii_alphanumeric()) && !["if", "in", "is", "has", "like", "then", "else", "true", "false"].contains(&k.as_str()) => format!("context.{k}"),
                (Some(k), _) => format!("context[\"{k}\"]"),
                (None, _) => "context.nosuchattr".to_string(),
            };
            let guard = match r.below(6) {
                0 => acc.clone(),
                1 => format!("{acc} > 0"),
                2 => format!("{acc} like \"a*\""),
                3 => format!("{acc}.mfa"),
                4 => format!("{acc}.isLoopback()"),
                _ => format!("{acc}.contains(1)"),
            };
            let (b1, b2) = *r.pick(&[("true", "true"), ("false", "false"), ("1 < 2", "true"), ("[1].contains(1)", "!false"), ("principal == principal", "true")]);
            let cond = match r.below(3) {
                0 => format!("if {guard} then {b1} else {b2}"),
                1 => format!("(if {guard} then {b1} else {b2}) || false"),
                _ => format!("(if {guard} then 7 else 3 + 4) == 7"),
            };
            s.text = s.text.trim_end_matches(';').to_string() + &format!(" when {{ {cond} }};");
            out.count("residual_guard_over_equal_branches");
        }
        if c.partial && !c.dropped.is_empty() && r.chance(35) {
            // tags of an entity that is MISSING from the partial store (the store answers with a residual): the residual
            // must still be a tag test when re-authorized against the complete store ("n" is both an attribute and a tag key)
            let mut ds: Vec<&EntityUID> = c.dropped.iter().collect();
            ds.sort();
            let u = ds[r.below(ds.len())].to_string();
            let k = *r.pick(&["n", "k1", "k2"]);
            let cond = match r.below(4) {
                0 => format!("{u}.hasTag(\"{k}\")"),
                1 => format!("!({u}.hasTag(\"{k}\"))"),
                2 => format!("{u}.hasTag(\"{k}\") && {u}.getTag(\"{k}\") == {u}.getTag(\"{k}\")"),
                _ => format!("{u} has {k} || {u}.hasTag(\"{k}\")"),
            };
            s.text = s.text.trim_end_matches(';').to_string() + &format!(" when {{ {cond} }};");
            out.count("tag_of_entity_missing_from_partial_store");
        }
        specs.push(s);
    }
    let order: Vec<usize> = (0..specs.len()).collect();
    let ps: PolicySet = match c01::build(&specs, &order, &|s: &str| s.to_string()) {
        Ok(ps) => ps,
        Err(_) => { out.count("unbuildable_policies"); return; }
    };
    let Some(psx) = c01::policies_sx(&ps) else { out.count("outside_protocol"); return };
    let preq = match c.partial_request() {
        Ok(q) => q,
        Err(e) => { out.count(&format!("unbuildable_request_{}", e.chars().take(40).collect::<String>())); return; }
    };
    let store0 = match c.store(None, false, c.partial) {
        Ok(s) => s,
        Err(e) => { out.count(&format!("unbuildable_store_{}", e.chars().take(40).collect::<String>())); return; }
    };
    let (Some(preq_s), Some(store0_s)) = (preq_sx(&preq), pentities_sx(&store0)) else { out.count("outside_protocol"); return };
    let desc = describe(&c, &specs, &preq_s);
    let auth = Authorizer::new();
    let pr = match catch_unwind(AssertUnwindSafe(|| auth.is_authorized_core(preq.clone(), &ps, &store0))) {
        Ok(x) => x,
        Err(p) => { out.propfail("panic in is_authorized_core", &desc, &panic_msg(p)); return; }
    };
    out.cases += 1;
    let obs = presp_sx(&pr);
    out.line(format!("(peval {preq_s} {store0_s} {psx})"), obs.clone(), format!("peval {desc}"));
    out.sample(format!("{desc} ==> {obs}"));
    let cls = classes(&pr);
    let n_res = cls.values().filter(|c| **c == "residual").count();
    let mask = (matches!(c.p, EntrySpec::Unknown(_)) as u32) | ((matches!(c.r, EntrySpec::Unknown(_)) as u32) << 1)
        | (((c.ctx.is_none() || c.ctx.as_ref().is_some_and(|p| p.iter().any(|(_, s)| matches!(s, AttrSpec::Unk { .. })))) as u32) << 2);
    out.count(&format!("unknown_subset_{mask}"));
    out.count(&format!("partial_decision_{}", dec_sx(pr.decision())));
    if n_res > 0 { out.count("with_residual_policy"); out.nontrivial(&format!("{preq_s}{psx}")); }
    if c.partial { out.count("partial_store"); }
    if c.ent_unknowns { out.count("entity_attr_unknowns"); }
    if policy_unknown_call { out.count("policy_unknown_call"); }
    // the subset chain on the partial response itself
    let Some((may0, must0)) = may_must(&pr) else {
        // GENUINE DEFECT (recorded in known_findings.jsonl): a residual kept an unlinked template slot
        // (best-effort fall-back to the original right operand of `&&`), and constructing a `Policy` from it panics
        out.count("construct_policy_panic");
        let msg = catch_unwind(AssertUnwindSafe(|| may_ids(&pr))).err().map(panic_msg).unwrap_or_default();
        out.propfail("panic in PartialResponse::may_be_determining", &desc, &msg);
        if let Ok(sa) = c.store(None, true, false) {
            let (sigma, sigma_model) = c.gen_sigma(r, &[]);
            reauth_line(&c, &pr, &sigma, &subst_sx(&sigma_model), &sa, &preq_s, &store0_s, &psx, &desc, 0, "a", out, &auth);
        }
        return;
    };
    if !is_subset(&must0, &may0) {
        out.propfail("must_be_determining not a subset of may_be_determining", &desc, &obs);
    }
    let store_a = c.store(None, true, false);
    // unknowns created by the partial store for missing entities (named by the uid): substituted by themselves
    let mut discovered: Vec<EntityUID> = Vec::new();
    for (e, _) in pr.residual_permits.values().chain(pr.residual_forbids.values()) {
        for u in e.unknowns() {
            if let Ok(uid) = u.name.parse::<EntityUID>() {
                if !discovered.contains(&uid) { discovered.push(uid); }
            }
        }
    }
    for si in 0..k_subst {
        let (sigma, sigma_model) = c.gen_sigma(r, &discovered);
        let ssx = subst_sx(&sigma_model);
        let fresh = c.fresh_request(&sigma).and_then(|q| c.store(Some(&sigma), true, false).map(|s| (q, s)));
        let (fq, fstore) = match fresh {
            Ok(x) => x,
            Err(e) => {
                out.count("fresh_unbuildable");
                out.count(&format!("fresh_unbuildable_{}", e.chars().take(7).collect::<String>()));
                // the substituted request/store does not exist (e.g. an extension constructor fails on the
                // substituted string): reauthorize must not produce a response for the context case; model diff only
                let _ = e;
                if let Ok(sa) = &store_a {
                    reauth_line(&c, &pr, &sigma, &ssx, sa, &preq_s, &store0_s, &psx, &desc, si, "a", out, &auth);
                }
                continue;
            }
        };
        let fresp = match catch_unwind(AssertUnwindSafe(|| auth.is_authorized(fq.clone(), &ps, &fstore))) {
            Ok(x) => x,
            Err(p) => { out.propfail("panic in is_authorized (fresh)", &desc, &panic_msg(p)); continue; }
        };
        out.count("substitutions");
        let freasons = sorted_reasons(&fresp);
        let sdesc = format!("{desc} ## sigma#{si} {ssx}");
        if !policy_unknown_call {
            // (1) a definite partial decision is the decision under every substitution
            if let Some(d) = pr.decision() {
                out.count("definite_decision_checked");
                if d != fresp.decision {
                    out.propfail("definite partial decision differs from the concrete decision under a substitution", &sdesc, &format!("partial {obs} ; fresh {}", c01::resp_sx(&fresp, &|s: &str| s.to_string())));
                }
            }
            // (3) must ⊆ determining ⊆ may
            if !is_subset(&must0, &freasons) || !is_subset(&freasons, &may0) {
                out.propfail("must ⊆ determining ⊆ may violated under a substitution", &sdesc, &format!("must {must0:?} determining {freasons:?} may {may0:?}"));
            }
            // (4) definite buckets keep their outcome
            let ev = Evaluator::new(fq.clone(), &fstore, ext());
            let mut fresh_cls: BTreeMap<String, &'static str> = BTreeMap::new();
            for p in ps.policies() {
                let o = match catch_unwind(AssertUnwindSafe(|| ev.evaluate(p))) {
                    Ok(Ok(true)) => "true",
                    Ok(Ok(false)) => "false",
                    Ok(Err(_)) => "error",
                    Err(_) => "panic",
                };
                fresh_cls.insert(p.id().as_ref().to_string(), o);
            }
            for (id, c0) in &cls {
                if *c0 != "residual" {
                    out.count("definite_policy_checked");
                    if fresh_cls.get(id) != Some(c0) {
                        out.propfail("a definitely satisfied/errored/false policy behaves differently under a substitution", &sdesc, &format!("policy {id}: partial {c0}, concrete {:?}", fresh_cls.get(id)));
                    }
                }
            }
            // (2) reauthorize == fresh, on the completed store with the unknown attributes kept (a) and substituted (b)
            let mut variants: Vec<(&str, &Entities)> = Vec::new();
            if let Ok(sa) = &store_a { variants.push(("a", sa)); }
            if c.ent_unknowns { variants.push(("b", &fstore)); }
            for (tag, st) in variants {
                if let Some(mut pr2) = reauth_line(&c, &pr, &sigma, &ssx, st, &preq_s, &store0_s, &psx, &desc, si, tag, out, &auth) {
                    out.count("reauthorizations");
                    let left1 = classes(&pr2).values().filter(|c| **c == "residual").count();
                    if left1 > 0 && tag == "a" {
                        // "undiscovered unknowns" (doc of Expr::substitute): an unknown nested inside an entity attribute
                        // value is only *discovered* by the round that first dereferences the entity (get_attr maps a
                        // direct `Unknown` attribute through the mapper, but returns any other residual unchanged);
                        // a second round with the same substitution (minus the request variables, now concrete) resolves it
                        out.count("undiscovered_nested_unknown_second_round");
                        let sigma2: Sigma = sigma.iter().filter(|(k, _)| !["principal", "resource", "context"].contains(&k.as_str())).map(|(k, v)| (k.clone(), v.clone())).collect();
                        let model2: Vec<(String, Value)> = sigma_model.iter().filter(|(k, _)| !["principal", "resource", "context"].contains(&k.as_str())).cloned().collect();
                        let ssx2 = subst_sx(&model2);
                        match catch_unwind(AssertUnwindSafe(|| pr2.reauthorize(&sigma2, &auth, st))) {
                            Ok(Ok(pr3)) => {
                                if let Some(st_s) = pentities_sx(st) {
                                    out.line(format!("(reauth2 {preq_s} {store0_s} {st_s} {psx} {ssx} {ssx2})"), format!("(reauth {})", presp_sx(&pr3)), format!("reauth2#{si}{tag} {desc} ## {ssx}"));
                                }
                                pr2 = pr3;
                            }
                            Ok(Err(e)) => out.propfail("second reauthorize round failed", &sdesc, &e.to_string()),
                            Err(p) => out.propfail("panic in reauthorize (second round)", &sdesc, &panic_msg(p)),
                        }
                    }
                    let d2 = pr2.decision();
                    let cls2 = classes(&pr2);
                    let left = cls2.values().filter(|c| **c == "residual").count();
                    if left > 0 { out.count(&format!("residual_after_total_substitution_{tag}")); }
                    let r2 = pr2.clone().concretize();
                    let reasons2 = sorted_reasons(&r2);
                    if d2 != Some(fresp.decision) || reasons2 != freasons {
                        out.propfail(
                            &format!("reauthorize differs from fresh concrete authorization (store variant {tag})"),
                            &sdesc,
                            &format!("reauthorize: decision {} determining {reasons2:?} classes {cls2:?} ; fresh: {} classes {fresh_cls:?}", dec_sx(d2), c01::resp_sx(&fresp, &|s: &str| s.to_string())),
                        );
                    }
                    for (id, c0) in &cls {
                        if *c0 == "residual" {
                            out.count("residual_policy_resolved");
                            if cls2.get(id) != fresh_cls.get(id) { out.count(&format!("residual_class_differs_{}_{}", cls2.get(id).unwrap_or(&"?"), fresh_cls.get(id).unwrap_or(&"?"))); }
                        }
                    }
                }
            }
        } else if let Ok(sa) = &store_a {
            reauth_line(&c, &pr, &sigma, &ssx, sa, &preq_s, &store0_s, &psx, &desc, si, "a", out, &auth);
        }
    }
}

#[allow(clippy::too_many_arguments)]
fn reauth_line(
    _c: &Case, pr: &PartialResponse, sigma: &Sigma, ssx: &str, st: &Entities, preq_s: &str, store0_s: &str, psx: &str, desc: &str, si: usize, tag: &str,
    out: &mut Out, auth: &Authorizer,
) -> Option<PartialResponse> {
    let st_s = pentities_sx(st)?;
    let res = match catch_unwind(AssertUnwindSafe(|| pr.reauthorize(sigma, auth, st))) {
        Ok(x) => x,
        Err(p) => {
            out.propfail("panic in reauthorize", desc, &panic_msg(p));
            out.line(format!("(reauth {preq_s} {store0_s} {st_s} {psx} {ssx})"), "(reauth-panic)".into(), format!("reauth#{si}{tag} {desc} ## {ssx}"));
            return None;
        }
    };
    let (obs, ret) = match res {
        Ok(pr2) => (format!("(reauth {})", presp_sx(&pr2)), Some(pr2)),
        Err(e) => {
            out.count("reauthorize_err");
            let kind = match e {
                cedar_policy_core::authorizer::ReauthorizationError::PolicySetError(_) => "policyset",
                cedar_policy_core::authorizer::ReauthorizationError::ConcretizationError(_) => "concretization",
            };
            (format!("(reauth-err {kind})"), None)
        }
    };
    out.line(format!("(reauth {preq_s} {store0_s} {st_s} {psx} {ssx})"), obs, format!("reauth#{si}{tag} {desc} ## {ssx}"));
    ret
}

pub fn run(args: &Args, out: &mut Out) {
    let mut rng = Rng::new(args.seed ^ 0xC13);
    let mut g = ExprGen::new(6);
    let k = if args.thorough { 8 } else { 3 };
    for _ in 0..args.n {
        let mut cr = rng.fork();
        let seed_state = cr.0;
        if let Err(p) = catch_unwind(AssertUnwindSafe(|| one_case(&mut cr, &mut g, out, k))) {
            out.propfail("harness-internal panic (case generator)", &format!("case rng state {seed_state}"), &panic_msg(p));
        }
    }
}

/// minimal input of the recorded finding C13-residual-slot-panic (stream `c13-repro`, prints to stdout)
pub fn repro(_args: &Args, out: &mut Out) {
    use cedar_policy_core::ast::{PolicyID, SlotId};
    use cedar_policy_core::parser;
    let t = parser::parse_policy_or_template(
        Some(PolicyID::from_string("T")),
        "permit(principal == User::\"a\", action, resource == ?resource) when { context.nosuch };",
    )
    .expect("template");
    let mut ps = PolicySet::new();
    ps.add_template(t).expect("add template");
    let mut vals = HashMap::new();
    vals.insert(SlotId::resource(), gen::mk_uid("NS::Doc", "d"));
    ps.link(PolicyID::from_string("T"), PolicyID::from_string("p0"), vals).expect("link");
    let q = Request::new_with_unknowns(
        EntityUIDEntry::unknown(),
        EntityUIDEntry::known(gen::mk_uid("Action", "a"), None),
        EntityUIDEntry::known(gen::mk_uid("NS::Doc", "d"), None),
        Some(Context::empty()),
        None::<&RequestSchemaAllPass>,
        ext(),
    )
    .expect("request");
    let es = Entities::new();
    let auth = Authorizer::new();
    let pr = auth.is_authorized_core(q, &ps, &es);
    for (id, (e, _)) in pr.residual_permits.iter() {
        println!("residual of {}: {}", id.as_ref() as &str, e);
    }
    println!("decision: {:?}", pr.decision());
    let may = catch_unwind(AssertUnwindSafe(|| may_ids(&pr)));
    println!("may_be_determining: {}", match may { Ok(v) => format!("{v:?}"), Err(p) => format!("PANIC: {}", panic_msg(p)) });
    let mut sigma: Sigma = HashMap::new();
    sigma.insert("principal".into(), Value::from(gen::mk_uid("User", "a")));
    let re = catch_unwind(AssertUnwindSafe(|| pr.reauthorize(&sigma, &auth, &es).map(|r| presp_sx(&r))));
    println!("reauthorize(principal := User::\"a\"): {}", match re { Ok(Ok(s)) => s, Ok(Err(e)) => format!("error: {e}"), Err(p) => format!("PANIC: {}", panic_msg(p)) });
    out.count("repro");
}
