//! C20: no panics on arbitrary input. The malformed stream through every text / JSON / bytes entry point, every
//! pipeline on what parses, and rendering of every returned error and warning.
//!
//! `harness c20` is the parent: it splits the case range into batches, runs each batch in a child process (the
//! same binary with C20_LO / C20_HI set), merges the children's outputs, and turns a child that died (abort,
//! stack overflow, kill on timeout) into a failing input using the child's progress file, then resumes after it.
//! Every case is a pure function of (seed, index): `C20_ONE=<index>` re-runs one case verbosely.
mod docs;
mod eps;
mod mutate;
mod render;

use crate::gen::{self, ExprGen};
use crate::out::Out;
use crate::rng::Rng;
use crate::sx;
use crate::Args;
use cedar_policy_core::ast::{Pattern, PatternElem};
use docs::{Fam, Fx};
use render::Tally;
use std::cell::{Cell, RefCell};
use std::io::{Seek, SeekFrom, Write};
use std::panic::{catch_unwind, AssertUnwindSafe};
use std::str::FromStr;
use std::time::{Duration, Instant};

pub static TRACE: std::sync::atomic::AtomicBool = std::sync::atomic::AtomicBool::new(false);

thread_local! {
    static STAGE: Cell<&'static str> = const { Cell::new("") };
    static LAST_PANIC: RefCell<String> = const { RefCell::new(String::new()) };
}

pub fn set_stage(s: &'static str) {
    STAGE.with(|c| c.set(s));
}

fn install_hook() {
    std::panic::set_hook(Box::new(|info| {
        let msg = if let Some(s) = info.payload().downcast_ref::<&str>() {
            s.to_string()
        } else if let Some(s) = info.payload().downcast_ref::<String>() {
            s.clone()
        } else {
            "<non-string panic payload>".to_string()
        };
        let loc = info.location().map(|l| format!("{}:{}:{}", l.file(), l.line(), l.column())).unwrap_or_default();
        LAST_PANIC.with(|l| *l.borrow_mut() = format!("{msg} @ {loc}"));
    }));
}

pub struct Case {
    pub fam: Fam,
    pub bytes: Vec<u8>,
    pub ops: String,
    pub mutated: bool,
}

/// the case with index `idx`: a pure function of (seed, idx)
pub fn gen_case(seed: u64, idx: u64, fx: &Fx, g: &mut ExprGen) -> Case {
    let mut r = Rng::new(seed.wrapping_mul(0x9E37_79B9).wrapping_add(idx.wrapping_mul(0x2545_F491_4F6C_DD1D)));
    let r = &mut r;
    // families weighted towards the text grammars
    let fam = match r.below(20) {
        0..=4 => Fam::Policy,
        5..=7 => Fam::Expr,
        8 | 9 => Fam::Est,
        10 | 11 => Fam::SchemaCedar,
        12 => Fam::SchemaJson,
        13 | 14 => Fam::Entities,
        15 => Fam::Context,
        16 | 17 => Fam::Ffi,
        _ => Fam::Proto,
    };
    match r.below(100) {
        0..=5 => Case { fam, bytes: docs::base_doc(r, g, fx, fam), ops: "valid".into(), mutated: false },
        6..=13 => Case { fam, bytes: docs::deep_doc(r, fam), ops: "deep".into(), mutated: true },
        14..=21 => Case { fam, bytes: mutate::random_bytes(r, fam), ops: "random".into(), mutated: true },
        22..=24 => {
            let b = docs::deep_doc(r, fam);
            let (b, op) = mutate::mutate_once(r, g, fx, fam, &b);
            Case { fam, bytes: b, ops: format!("deep+{op}"), mutated: true }
        }
        _ => {
            let mut b = docs::base_doc(r, g, fx, fam);
            let k = match r.below(10) { 0..=5 => 1, 6 | 7 => 2, 8 => 3, _ => 5 };
            let mut ops = Vec::new();
            for _ in 0..k {
                let (nb, op) = mutate::mutate_once(r, g, fx, fam, &b);
                b = nb;
                ops.push(op);
            }
            Case { fam, bytes: b, ops: ops.join("+"), mutated: true }
        }
    }
}

pub fn esc(b: &[u8]) -> String {
    let body = match std::str::from_utf8(b) {
        Ok(s) => format!("text:{s}"),
        Err(_) => format!("hex:{} lossy:{}", b.iter().map(|x| format!("{x:02x}")).collect::<String>(), String::from_utf8_lossy(b)),
    };
    if body.len() > 6000 {
        let mut k = 6000;
        while !body.is_char_boundary(k) { k -= 1; }
        format!("{}…[{} bytes]", &body[..k], b.len())
    } else {
        body
    }
}

/// CPU seconds used by this thread so far (user + system), from /proc (wall time is useless on a loaded machine)
fn cpu_secs() -> f64 {
    let s = std::fs::read_to_string("/proc/thread-self/stat").unwrap_or_default();
    let after = s.rsplit(") ").next().unwrap_or("");
    let f: Vec<&str> = after.split_whitespace().collect();
    // after the command name: state is field 0, utime field 11, stime field 12
    let u: f64 = f.get(11).and_then(|x| x.parse().ok()).unwrap_or(0.0);
    let k: f64 = f.get(12).and_then(|x| x.parse().ok()).unwrap_or(0.0);
    (u + k) / 100.0
}

/// run one entry-point function under catch_unwind; `Err((stage, message))` on panic
fn guarded(fx: &Fx, f: eps::EpFn, b: &[u8], t: &mut Tally) -> Result<(), (String, String)> {
    set_stage("parse");
    LAST_PANIC.with(|l| l.borrow_mut().clear());
    match catch_unwind(AssertUnwindSafe(|| f(fx, b, t))) {
        Ok(()) => Ok(()),
        Err(_) => Err((STAGE.with(|c| c.get()).to_string(), LAST_PANIC.with(|l| l.borrow().clone()))),
    }
}

/// greedy chunk removal keeping "panics at the same site"
fn shrink(fx: &Fx, f: eps::EpFn, input: &[u8], msg: &str) -> Vec<u8> {
    let site = msg.rsplit(" @ ").next().unwrap_or("").to_string();
    let mut budget = 3000usize;
    let mut fails = |b: &[u8]| -> bool {
        if budget == 0 { return false; }
        budget -= 1;
        let mut t = Tally::default();
        match guarded(fx, f, b, &mut t) {
            Err((_, m)) => m.rsplit(" @ ").next().unwrap_or("") == site,
            Ok(()) => false,
        }
    };
    let mut cur = input.to_vec();
    let mut chunk = (cur.len() / 2).max(1);
    loop {
        let mut progressed = false;
        let mut i = 0;
        while i + chunk <= cur.len() {
            let mut cand = cur[..i].to_vec();
            cand.extend_from_slice(&cur[i + chunk..]);
            if fails(&cand) { cur = cand; progressed = true; } else { i += chunk; }
        }
        if chunk == 1 {
            if !progressed { break; }
        } else {
            chunk /= 2;
        }
    }
    cur
}

fn run_case(fx: &Fx, c: &Case, idx: u64, cross: bool, out: &mut Out, verbose: bool) {
    let mut t = Tally::default();
    let t0 = Instant::now();
    let c0 = cpu_secs();
    for ep in eps::EPS {
        if ep.fam != c.fam && !cross { continue; }
        t.c(&format!("epgroup.{}.inputs", ep.name));
        if verbose { eprintln!(" entry-point group [{}]", ep.name); }
        if let Err((stage, msg)) = guarded(fx, ep.f, &c.bytes, &mut t) {
            let small = shrink(fx, ep.f, &c.bytes, &msg);
            // stage / message of the shrunk input
            let mut t2 = Tally::default();
            let (stage2, msg2) = guarded(fx, ep.f, &small, &mut t2).err().unwrap_or((stage.clone(), msg.clone()));
            out.propfail(
                &format!("panic in entry-point group [{}] at stage {}", ep.name, stage2),
                &format!("family={} minimised-input {}", c.fam.name(), esc(&small)),
                &format!("panic: {msg2} || original case #{idx} ({}) stage {stage}: {msg} || original input {}", c.ops, esc(&c.bytes)),
            );
            t.c("panics");
            if verbose { eprintln!("PANIC [{}] stage {stage2}: {msg2}\n minimised: {}", ep.name, esc(&small)); }
        }
    }
    let dt = t0.elapsed();
    let dc = cpu_secs() - c0;
    // Termination is decided by the parent's watchdog (a case that makes no progress for minutes is killed and reported).
    // A slow but terminating case is NOT a failure of the property: CPU seconds are recorded as evidence only (the thorough
    // tier once reported two 48-deep inputs whose cost was polynomial and mostly this harness's own rendering / machine load).
    if dc > 30.0 {
        out.count("cases_over_30s_cpu");
        out.sample(format!("SLOW cpu {dc:.1}s wall {dt:?} case #{idx} ({}) family={} input {}", c.ops, c.fam.name(), esc(&c.bytes)));
    }
    if dc > 2.0 { out.count("cases_over_2s_cpu"); }
    out.add(&format!("cpu_ms.{}", c.fam.name()), (dc * 1000.0) as u64);
    let parsed = t.m.iter().any(|(k, v)| k.starts_with("ep.") && k.ends_with(".ok") && *v > 0);
    if c.mutated && (t.labels > 0 || (parsed && t.downstream > 0)) {
        out.nontrivial(&format!("{}{}", c.fam.name(), esc(&c.bytes)));
    }
    out.count(&format!("family.{}", c.fam.name()));
    out.count(&format!("family.{}.{}", c.fam.name(), if parsed { "some_entry_point_parsed" } else { "all_rejected" }));
    for op in c.ops.split('+') { out.count(&format!("mutation.{op}")); }
    if cross { out.count("cross_fed_to_all_entry_points"); }
    if out.samples.len() < 5 && c.mutated && t.labels > 0 {
        out.sample(format!("[{}:{}] {} ==> {} labelled span(s) rendered, parsed by some entry point: {}", c.fam.name(), c.ops, esc(&c.bytes).chars().take(160).collect::<String>(), t.labels, parsed));
    }
    for (k, v) in t.m { out.add(&k, v); }
    if verbose { eprintln!("case #{idx} fam={} ops={} {dt:?}\n{}", c.fam.name(), c.ops, esc(&c.bytes)); }
}

/* ------------------------------- `like` cases ------------------------------- */

fn like_cases(seed: u64, n: u64, out: &mut Out) {
    let mut r = Rng::new(seed ^ 0x11CE);
    let cs = ['a', 'b', 'é', '\u{1F600}', '*', '\\'];
    let mut pats: Vec<Vec<PatternElem>> = vec![vec![]];
    // all patterns over {a, b, *} up to length 4: every boundary shape (empty, lone / leading / trailing / doubled star)
    let alpha = [PatternElem::Char('a'), PatternElem::Char('b'), PatternElem::Wildcard];
    let mut frontier: Vec<Vec<PatternElem>> = vec![vec![]];
    for _ in 0..4 {
        let mut next = Vec::new();
        for p in &frontier {
            for a in alpha.iter() {
                let mut q = p.clone();
                q.push(*a);
                next.push(q);
            }
        }
        pats.extend(next.iter().cloned());
        frontier = next;
    }
    let mut texts: Vec<String> = vec![String::new()];
    let mut tf: Vec<String> = vec![String::new()];
    for _ in 0..4 {
        let mut next = Vec::new();
        for t in &tf {
            for c in ['a', 'b'] { next.push(format!("{t}{c}")); }
        }
        texts.extend(next.iter().cloned());
        tf = next;
    }
    let mut one = |p: &[PatternElem], text: &str, tag: &str, out: &mut Out| {
        let pat = Pattern::from(p.to_vec());
        let res = catch_unwind(AssertUnwindSafe(|| pat.wildcard_match(text)));
        let req = format!("(like {} {})", sx::pattern_sx(p), sx::qs(text));
        match res {
            Ok(b) => {
                out.line(req, format!("(like {b} {b} {b})"), format!("{tag} {} like {}", sx::qs(text), pat));
                // the text route: `"text" like "pattern"` parsed and evaluated
                let src = format!("{} like \"{}\"", cedar_policy_core::ast::Expr::val(text), pat);
                match cedar_policy_core::ast::Expr::from_str(&src) {
                    Ok(e) => {
                        let w = cedar_policy_core::entities::Entities::new();
                        let q = cedar_policy_core::ast::Request::new_unchecked(
                            cedar_policy_core::ast::EntityUIDEntry::unknown(), cedar_policy_core::ast::EntityUIDEntry::unknown(),
                            cedar_policy_core::ast::EntityUIDEntry::unknown(), None);
                        let ev = cedar_policy_core::evaluator::Evaluator::new(q, &w, cedar_policy_core::extensions::Extensions::all_available());
                        match catch_unwind(AssertUnwindSafe(|| ev.interpret(&e, &std::collections::HashMap::new()))) {
                            Ok(Ok(v)) => if v.to_string() != b.to_string() { out.propfail("like: text route differs from Pattern::wildcard_match", &src, &format!("{v} vs {b}")) },
                            Ok(Err(e)) => out.propfail("like: text route errors", &src, &e.to_string()),
                            Err(_) => out.propfail("panic in Evaluator::interpret (like)", &src, &LAST_PANIC.with(|l| l.borrow().clone())),
                        }
                        out.count("like.text_route");
                    }
                    Err(_) => out.count("like.text_route_unparseable"),
                }
            }
            Err(_) => {
                out.line(req, "(like panic)".into(), format!("{tag} {} like {}", sx::qs(text), pat));
                out.propfail("panic in Pattern::wildcard_match", &format!("{} like {}", sx::qs(text), pat), &LAST_PANIC.with(|l| l.borrow().clone()));
            }
        }
        out.count("like.cases");
    };
    // exhaustive small scope (121 patterns x 31 texts), in the first batch only
    for p in &pats {
        for t in &texts { one(p, t, "exh", out); }
    }
    for _ in 0..n {
        let np = r.below(9);
        let p: Vec<PatternElem> = (0..np).map(|_| if r.chance(40) { PatternElem::Wildcard } else { PatternElem::Char(*r.pick(&cs)) }).collect();
        let nt = r.below(10);
        let t: String = (0..nt).map(|_| *r.pick(&cs)).collect();
        one(&p, &t, "rand", out);
    }
}


/* ------------------- termination probe: typed AST of nested constant-test conditionals ------------------- */

/// The typechecker annotates `if true then A else B` as `ite(true, A', A')` (a *copy* of the taken branch stands in
/// for the dead one). The copies share structure, but every walker of the typed AST (level validation's
/// `check_expr_level`) visits it as a tree: 2^d visits for d nested conditionals. Deterministic check: tree size of
/// the typed AST vs nesting depth; timing of `validate_with_level` as supporting evidence.
fn if_true_probe(out: &mut Out) {
    use cedar_policy_core::validator::{typecheck::{PolicyCheck, Typechecker}, ValidationMode, Validator, ValidatorSchema};
    let schema = match ValidatorSchema::from_cedarschema_str("entity User; entity Doc; action a appliesTo { principal: User, resource: Doc };", cedar_policy_core::extensions::Extensions::all_available()) {
        Ok((s, _)) => s,
        Err(_) => { out.count("probe.schema_failed"); return; }
    };
    let policy = |d: usize| format!("permit(principal, action, resource) when {{ {}true{} }};", "if true then ".repeat(d), " else 1".repeat(d));
    let mut sizes = Vec::new();
    for d in [4usize, 8, 12] {
        let Ok(t) = cedar_policy_core::parser::parse_policy_or_template(None, &policy(d)) else { continue };
        let tc = Typechecker::new(&schema, ValidationMode::Strict);
        let src_nodes = t.condition().subexpressions().count();
        for (_, chk) in tc.typecheck_by_request_env(&t) {
            if let PolicyCheck::Success(e) | PolicyCheck::Irrelevant(_, e) = chk {
                sizes.push((d, src_nodes, e.subexpressions().count()));
            }
        }
    }
    out.count("probe.if_true_typed_ast");
    let exponential = sizes.iter().any(|(d, _, n)| *d == 12 && *n >= (1usize << 12));
    if exponential {
        let v = Validator::new(schema);
        let mut times = Vec::new();
        for d in [14usize, 16, 18, 20] {
            if let Ok(ps) = cedar_policy_core::parser::parse_policyset(&policy(d)) {
                let t0 = Instant::now();
                let _ = v.validate_with_level(&ps, ValidationMode::Strict, 1);
                times.push(format!("d={d}: {:?}", t0.elapsed()));
            }
        }
        out.propfail(
            "validate_with_level takes time exponential in the nesting depth of `if true then .. else ..` (practically non-terminating within depth 48)",
            &format!("family=policy input text:{}", policy(48)),
            &format!("typed-AST tree size per (depth, source nodes, typed nodes visited by a tree walk): {sizes:?}; validate_with_level wall times: {}; extrapolated x2 per level", times.join(", ")),
        );
    }
}

/// Termination probe: entities are parsed against a schema whose `tags` type is a record nested d deep (the entity itself has
/// no tags). In builds with debug assertions `EntityTypeDescription::{attr_type,tag_type}` re-check the converted type with
/// `Type::is_consistent_with`, which used to visit every shared record attribute twice per level: 2^d steps (155 s at d = 32,
/// found by the thorough tier through the watchdog; repaired in /repo). CPU time doubles per level when the defect is
/// present and stays in the microseconds otherwise, so a 4-second line at d <= 28 separates the two by five orders of magnitude.
fn nested_record_type_probe(out: &mut Out) {
    for d in [16usize, 20, 24, 28] {
        let mut t = String::from("Long");
        for _ in 0..d { t = format!("{{a:{t}}}"); }
        let src = format!("entity Group in [Group] tags Long;\nentity User in [Group] = {{ n?: Long }} tags {t};\naction view appliesTo {{ principal: User, resource: User }};");
        let Ok((schema, _)) = cedar_policy::Schema::from_cedarschema_str(&src) else { out.count("nested_record_type_probe_schema_rejected"); return; };
        let c0 = cpu_secs();
        let r = cedar_policy::Entities::from_json_str("[{\"uid\":{\"type\":\"User\",\"id\":\"a\"},\"attrs\":{},\"parents\":[]}]", Some(&schema));
        let dc = cpu_secs() - c0;
        out.count("nested_record_type_probe_runs");
        if r.is_err() { out.count("nested_record_type_probe_entities_rejected"); }
        if dc > 4.0 {
            out.propfail(
                "schema-based entity parsing takes time exponential in the nesting depth of the schema's record types",
                &format!("family=schema_cedar input text:{src} ; entities [User::\"a\" without attributes or tags]"),
                &format!("Entities::from_json_str(.., Some(schema)) took {dc:.1}s of CPU at record nesting depth {d} (doubles per level)"),
            );
            return;
        }
    }
}

/// The formatter writes `indent_width` spaces per nesting level into the output string: the output size (and time) is
/// proportional to an input number. `indentWidth = isize::MAX` through the FFI `format` call therefore never returns
/// (memory exhaustion). Deterministic check at 2^22.
fn indent_probe(out: &mut Out) {
    let cfg = cedar_policy_formatter::Config { line_width: 1, indent_width: 1 << 22 };
    let r = catch_unwind(AssertUnwindSafe(|| cedar_policy_formatter::policies_str_to_pretty("permit(principal, action, resource) when { true };", &cfg)));
    out.count("probe.formatter_indent");
    match r {
        Ok(Ok(s)) => {
            if s.len() > (1 << 22) {
                out.propfail(
                    "formatter output size is proportional to the requested indent width (indentWidth = isize::MAX exhausts memory instead of returning an error)",
                    "family=ffi input text:{\"policyText\":\"permit(principal, action, resource) when { true };\",\"lineWidth\":1,\"indentWidth\":9223372036854775807}",
                    &format!("with indent_width = 2^22 the formatted 1-line policy has {} bytes", s.len()),
                );
            }
        }
        Ok(Err(_)) => out.count("probe.formatter_indent_rejected"),
        Err(_) => out.propfail("panic in formatter (indent probe)", "indent_width = 2^22", &LAST_PANIC.with(|l| l.borrow().clone())),
    }
}

/* ------------- `parse_datetime` against its panic-site-explicit mirror (`np-datetime` requests) ------------- */

fn datetime_cases(seed: u64, n: u64, out: &mut Out) {
    use cedar_policy_core::ast::Expr;
    let mut r = Rng::new(seed ^ 0xDA7E);
    let ents = cedar_policy_core::entities::Entities::new();
    let q = cedar_policy_core::ast::Request::new_unchecked(
        cedar_policy_core::ast::EntityUIDEntry::unknown(), cedar_policy_core::ast::EntityUIDEntry::unknown(),
        cedar_policy_core::ast::EntityUIDEntry::unknown(), None);
    let ev = cedar_policy_core::evaluator::Evaluator::new(q, &ents, cedar_policy_core::extensions::Extensions::all_available());
    let mut one = |s: &str, tag: &str, out: &mut Out| {
        let e = Expr::call_extension_fn(gen::name("datetime"), vec![Expr::val(s)]);
        let req = format!("(np-datetime {})", sx::qs(s));
        match catch_unwind(AssertUnwindSafe(|| ev.interpret(&e, &std::collections::HashMap::new()))) {
            Ok(Ok(v)) => out.line(req, format!("(np-datetime {})", sx::value(&v)), format!("{tag} datetime({})", sx::qs(s))),
            Ok(Err(_)) => out.line(req, "(np-datetime err)".into(), format!("{tag} datetime({})", sx::qs(s))),
            Err(_) => {
                out.line(req, "(np-datetime panic)".into(), format!("{tag} datetime({})", sx::qs(s)));
                out.propfail("panic in datetime()", &format!("family=expr input text:datetime({})", sx::qs(s)), &LAST_PANIC.with(|l| l.borrow().clone()));
            }
        }
        out.count("np_datetime.cases");
    };
    let mut bases: Vec<&str> = gen::DATETIMES_OK.to_vec();
    bases.extend_from_slice(gen::DATETIMES_BAD);
    bases.extend_from_slice(&["9999-12-31T23:59:59.999-2359", "0000-01-01T00:00:00.000+2359", "2024-01-01T23:59:59.999+0000", "2024-01-01T00:00:00.999Z",
        "2024-01-01T99:99:99Z", "2024-01-01T00:00:00+9999", "2024-01-01T00:00:00-2360", "9999-99-99", "0000-00-00", "2024-01-01\u{e9}", "2024-01-01T00:00:00\u{1F600}",
        "2024-01-01T00:00:00.\u{663}00Z", "\u{662}024-01-01", "2024-01-01T00:00:00.000", "2024-01-01T00:00:00.0000Z", "2024-01-01TT00:00:00Z"]);
    for b in &bases { one(b, "fixed", out); }
    let ins = ['0', '9', '5', '-', '+', ':', '.', 'T', 'Z', ' ', '\u{e9}', '\u{1F600}', '\u{663}', 'z', 't'];
    for _ in 0..n {
        let mut cs: Vec<char> = r.pick(&bases).chars().collect();
        let k = 1 + r.below(2);
        for _ in 0..k {
            match r.below(3) {
                0 if !cs.is_empty() => { let i = r.below(cs.len()); cs.remove(i); }
                1 if !cs.is_empty() => { let i = r.below(cs.len()); cs[i] = *r.pick(&ins); }
                _ => { let i = r.below(cs.len() + 1); cs.insert(i, *r.pick(&ins)); }
            }
        }
        let s: String = cs.into_iter().collect();
        one(&s, "mut", out);
    }
}

/* ------------- `FromIterator<Value> for Set` and the public helpers `binary_relation` / `binary_arith` against their
   panic-site-explicit mirrors (`np-set`, `np-binop` requests) ------------- */

/// values of every kind: literals (boundary longs, strings, uids), extension values, sets and records (nested, with repeated
/// and re-ordered elements)
fn np_value(r: &mut Rng, exts: &[cedar_policy_core::ast::Value], depth: u32) -> cedar_policy_core::ast::Value {
    use cedar_policy_core::ast::Value;
    let k = if depth == 0 { r.below(5) } else { r.below(8) };
    match k {
        0 => Value::from(*r.pick(&[0i64, 1, -1, 2, 3, i64::MAX, i64::MIN, 4611686018427387904, -4611686018427387904, 3037000500])),
        1 => Value::from(r.chance(50)),
        2 => Value::from(*r.pick(&["", "a", "b", "t", "\u{e9}"])),
        3 => Value::from(gen::mk_uid(*r.pick(gen::TYPES), *r.pick(&["a", "b"]))),
        4 => r.pick(exts).clone(),
        5 | 6 => {
            let n = r.below(4);
            let mut xs: Vec<Value> = (0..n).map(|_| np_value(r, exts, depth - 1)).collect();
            if !xs.is_empty() && r.chance(40) { let d = xs[r.below(xs.len())].clone(); xs.push(d); }
            Value::set(xs, None)
        }
        _ => {
            let n = r.below(3);
            let ps: Vec<(smol_str::SmolStr, Value)> = (0..n).map(|_| ((*r.pick(&["a", "b", "c"])).into(), np_value(r, exts, depth - 1))).collect();
            Value::record(ps, None)
        }
    }
}

fn np_exts() -> Vec<cedar_policy_core::ast::Value> {
    use cedar_policy_core::ast::Expr;
    let ents = cedar_policy_core::entities::Entities::new();
    let q = cedar_policy_core::ast::Request::new_unchecked(
        cedar_policy_core::ast::EntityUIDEntry::unknown(), cedar_policy_core::ast::EntityUIDEntry::unknown(),
        cedar_policy_core::ast::EntityUIDEntry::unknown(), None);
    let ev = cedar_policy_core::evaluator::Evaluator::new(q, &ents, cedar_policy_core::extensions::Extensions::all_available());
    let mut out = Vec::new();
    for (f, a) in [("decimal", "1.0"), ("decimal", "1.0000"), ("decimal", "-0.5"), ("datetime", "2024-01-01"), ("datetime", "2024-01-01T00:00:00Z"),
        ("datetime", "1970-01-01"), ("duration", "1h"), ("duration", "60m"), ("duration", "-1ms"), ("ip", "10.0.0.1"), ("ip", "::1")] {
        let e = Expr::call_extension_fn(gen::name(f), vec![Expr::val(a)]);
        if let Ok(v) = ev.interpret(&e, &std::collections::HashMap::new()) { out.push(v); }
    }
    out
}

fn set_cases(seed: u64, n: u64, out: &mut Out) {
    use cedar_policy_core::ast::{Set, Value};
    let mut r = Rng::new(seed ^ 0x5E7);
    let exts = np_exts();
    for i in 0..n {
        // 0..6 elements; 1/3 all literals, with repeats and permutations
        let len = r.below(7);
        let all_lit = i % 3 == 0;
        let mut vs: Vec<Value> = (0..len).map(|_| if all_lit { np_value(&mut r, &exts, 0) } else { np_value(&mut r, &exts, 2) }).collect();
        if all_lit { vs.retain(|v| matches!(v.value_kind(), cedar_policy_core::ast::ValueKind::Lit(_))); }
        if !vs.is_empty() && r.chance(50) { let d = vs[r.below(vs.len())].clone(); let at = r.below(vs.len() + 1); vs.insert(at, d); }
        let req = format!("(np-set{})", vs.iter().map(|v| format!(" {}", sx::value(v))).collect::<String>());
        let meta = format!("Set::from_iter of {} values (all literals: {})", vs.len(), vs.iter().all(|v| matches!(v.value_kind(), cedar_policy_core::ast::ValueKind::Lit(_))));
        let vs2 = vs.clone();
        match catch_unwind(AssertUnwindSafe(|| <Set as std::iter::FromIterator<Value>>::from_iter(vs2))) {
            Ok(s) => {
                // the other constructor of the same type must agree on the representation
                let s2 = Set::new(vs.clone());
                if s2.fast.is_some() != s.fast.is_some() || s2.authoritative.len() != s.authoritative.len() || s != s2 {
                    out.propfail("Set::from_iter and Set::new disagree", &req, &format!("{s:?} vs {s2:?}"));
                }
                if let Some(f) = &s.fast { if f.len() != s.authoritative.len() { out.propfail("Set fast/authoritative sizes differ", &req, &format!("{s:?}")); } }
                if s.fast.is_none() && !vs.is_empty() { out.nontrivial(&format!("np-set slow {req}")); }
                out.line(req, format!("(np-set {} {})", if s.fast.is_some() { "fast" } else { "slow" }, s.authoritative.len()), meta);
            }
            Err(_) => {
                out.line(req.clone(), "(np-set panic)".into(), meta);
                out.propfail("panic in FromIterator<Value> for Set", &req, &LAST_PANIC.with(|l| l.borrow().clone()));
            }
        }
        out.count("np_set.cases");
    }
}

fn binop_cases(seed: u64, n: u64, out: &mut Out) {
    use cedar_policy_core::ast::{BinaryOp, Value};
    use cedar_policy_core::evaluator::{binary_arith, binary_relation};
    let mut r = Rng::new(seed ^ 0xB1709);
    let exts = np_exts();
    let ops = [(BinaryOp::Eq, "eq"), (BinaryOp::Less, "less"), (BinaryOp::LessEq, "lessEq"), (BinaryOp::Add, "add"), (BinaryOp::Sub, "sub"),
        (BinaryOp::Mul, "mul"), (BinaryOp::In, "in"), (BinaryOp::Contains, "contains"), (BinaryOp::ContainsAll, "containsAll"),
        (BinaryOp::ContainsAny, "containsAny"), (BinaryOp::GetTag, "getTag"), (BinaryOp::HasTag, "hasTag")];
    let all = cedar_policy_core::extensions::Extensions::all_available();
    for i in 0..n {
        let (op, opname) = ops[(i as usize) % ops.len()];
        let rel = (i / 12) % 2 == 0;
        // half the pairs are two longs (the only way past `get_as_long()?` in binary_arith), a quarter two extension values
        let (a, b): (Value, Value) = match r.below(4) {
            0 | 1 => (np_value(&mut r, &exts, 0), np_value(&mut r, &exts, 0)),
            2 => (r.pick(&exts).clone(), r.pick(&exts).clone()),
            _ => (np_value(&mut r, &exts, 2), np_value(&mut r, &exts, 2)),
        };
        let (a, b) = if r.chance(40) { (Value::from(gen::gen_long(&mut r)), Value::from(gen::gen_long(&mut r))) } else { (a, b) };
        let req = format!("(np-binop {} {} {} {})", if rel { "rel" } else { "arith" }, opname, sx::value(&a), sx::value(&b));
        let meta = format!("{}({opname}, {a}, {b})", if rel { "binary_relation" } else { "binary_arith" });
        // the panic hook is silenced for this call: a panic is the documented reaction to an operator outside the helper's contract
        let res = catch_unwind(AssertUnwindSafe(|| if rel { binary_relation(op, &a, &b, all) } else { binary_arith(op, a.clone(), b.clone(), None) }));
        let in_contract = if rel { matches!(op, BinaryOp::Eq | BinaryOp::Less | BinaryOp::LessEq) } else { matches!(op, BinaryOp::Add | BinaryOp::Sub | BinaryOp::Mul) };
        match res {
            Ok(x) => out.line(req, format!("(np-binop {})", sx::result(&x)), meta),
            Err(_) => {
                if in_contract { out.propfail("panic in binary_relation/binary_arith on an operator of its contract", &req, &LAST_PANIC.with(|l| l.borrow().clone())); }
                else { out.nontrivial(&format!("np-binop out-of-contract panic {opname} {rel}")); out.count("np_binop.out_of_contract_panics"); }
                out.line(req, "(np-binop panic)".into(), meta);
            }
        }
        out.count("np_binop.cases");
    }
}

/// `to_unescaped_string` + `Display` of every returned error against the range-explicit mirror of `Unescape::unescape`
fn unescape_cases(seed: u64, n: u64, out: &mut Out) {
    use cedar_policy_core::parser::unescape::to_unescaped_string;
    let mut r = Rng::new(seed ^ 0xE5CA);
    let atoms = ["a", "z", "\u{e9}", "\u{1F600}", "\\", "\\n", "\\t", "\\0", "\\\\", "\\'", "\\\"", "\"", "\r", "\n", " ", "\t", "\\\n", "\\x", "\\x4", "\\x41", "\\x7f", "\\x80",
        "\\xg", "\\u", "\\u{", "\\u{}", "\\u{_", "\\u{41}", "\\u{1F600}", "\\u{110000}", "\\u{d800}", "\\u{0000041}", "\\u{4_1}", "\\u{zz}", "\\u{41", "\\*", "\\q", "\\\u{e9}", "*", "}", "{", "_", "0", "f"];
    let mut one = |s: &str, out: &mut Out| {
        let req = format!("(np-unescape str {})", sx::qs(s));
        let meta = format!("to_unescaped_string({})", sx::qs(s));
        match catch_unwind(AssertUnwindSafe(|| to_unescaped_string(s).map(|_| ()).map_err(|errs| errs.iter().map(|e| e.to_string()).collect::<Vec<_>>()))) {
            Ok(Ok(())) => out.line(req, "(np-unescape ok)".into(), meta),
            Ok(Err(msgs)) => {
                let mut o = String::from("(np-unescape err");
                for m in &msgs {
                    let shown = m.strip_prefix("the input `").and_then(|x| x.strip_suffix("` is not a valid escape")).unwrap_or("<unexpected message>");
                    o.push(' ');
                    o.push_str(&sx::qs(shown));
                }
                o.push(')');
                if msgs.len() > 1 || !s.is_ascii() { out.nontrivial(&format!("np-unescape {s}")); }
                out.line(req, o, meta);
            }
            Err(_) => {
                out.line(req.clone(), "(np-unescape panic)".into(), meta);
                out.propfail("panic in to_unescaped_string / Display for UnescapeError", &req, &LAST_PANIC.with(|l| l.borrow().clone()));
            }
        }
        out.count("np_unescape.cases");
    };
    for a in atoms.iter() { one(a, out); }
    for _ in 0..n {
        let k = 1 + r.below(6);
        let mut s = String::new();
        for _ in 0..k { s.push_str(*r.pick(&atoms)); }
        // cut at a random char boundary: escapes truncated in every position
        if r.chance(30) { let cs: Vec<char> = s.chars().collect(); let m = r.below(cs.len() + 1); s = cs[..m].iter().collect(); }
        one(&s, out);
    }
}

/* ------------------------------- worker / parent ------------------------------- */

fn worker(args: &Args, out: &mut Out, lo: u64, hi: u64) {
    install_hook();
    let fx = docs::fixtures(args.seed);
    let mut g = ExprGen::new(8);
    let mut prog = std::fs::File::create(format!("{}/progress", args.out)).ok();
    let one: Option<u64> = std::env::var("C20_ONE").ok().and_then(|s| s.parse().ok());
    if one.is_some() { TRACE.store(true, std::sync::atomic::Ordering::Relaxed); }
    for idx in lo..hi {
        if let Some(o) = one { if o != idx { continue; } }
        if let Some(f) = prog.as_mut() {
            let _ = f.seek(SeekFrom::Start(0));
            let _ = f.write_all(format!("{idx:020}").as_bytes());
        }
        let c = gen_case(args.seed, idx, &fx, &mut g);
        let cross = idx % 12 == 0;
        run_case(&fx, &c, idx, cross, out, one.is_some());
        out.cases += 1;
    }
    if lo == 0 && one.is_none() {
        like_cases(args.seed, if args.thorough { 20000 } else { 3000 }, out);
        datetime_cases(args.seed, if args.thorough { 30000 } else { 4000 }, out);
        set_cases(args.seed, if args.thorough { 30000 } else { 3000 }, out);
        binop_cases(args.seed, if args.thorough { 60000 } else { 6000 }, out);
        unescape_cases(args.seed, if args.thorough { 40000 } else { 4000 }, out);
        if_true_probe(out);
        indent_probe(out);
        nested_record_type_probe(out);
    }
    // the distinct-case hashes, for the parent to merge
    let hs: Vec<String> = out.nontrivial.iter().map(|h| h.to_string()).collect();
    let _ = std::fs::write(format!("{}/nontrivial.txt", args.out), hs.join("\n"));
}

struct Child {
    p: std::process::Child,
    lo: u64,
    hi: u64,
    dir: String,
    last: String,
    since: Instant,
}

fn merge(out: &mut Out, dir: &str) -> bool {
    let rd = |n: &str| std::fs::read_to_string(format!("{dir}/{n}")).unwrap_or_default();
    let st: serde_json::Value = match serde_json::from_str(&rd("stats.json")) { Ok(v) => v, Err(_) => return false };
    let lines = |s: String| -> Vec<String> { s.lines().map(|l| l.to_string()).collect() };
    out.req.extend(lines(rd("req.txt")));
    out.imp.extend(lines(rd("impl.txt")));
    out.meta.extend(lines(rd("meta.txt")));
    out.propfail.extend(lines(rd("propfail.jsonl")).into_iter().filter(|l| !l.trim().is_empty()));
    out.cases += st["cases"].as_u64().unwrap_or(0);
    if let Some(m) = st["stats"].as_object() {
        for (k, v) in m { out.add(k, v.as_u64().unwrap_or(0)); }
    }
    if let Some(a) = st["samples"].as_array() {
        for s in a { if let Some(s) = s.as_str() { out.sample(s.to_string()); } }
    }
    for h in rd("nontrivial.txt").lines() {
        if let Ok(x) = h.parse::<u64>() { out.nontrivial.insert(x); }
    }
    true
}

fn parent(args: &Args, out: &mut Out) {
    let jobs: usize = std::env::var("C20_JOBS").ok().and_then(|s| s.parse().ok()).unwrap_or(if args.thorough { 2 } else { 8 });
    let batch: u64 = std::env::var("C20_BATCH").ok().and_then(|s| s.parse().ok()).unwrap_or(if args.thorough { 20000 } else { 2500 });
    let stall = Duration::from_secs(if args.thorough { 300 } else { 100 });
    let exe = std::env::current_exe().expect("current exe");
    let mut queue: Vec<(u64, u64)> = Vec::new();
    let mut lo = 0;
    while lo < args.n { let hi = (lo + batch).min(args.n); queue.push((lo, hi)); lo = hi; }
    queue.reverse();
    let mut running: Vec<Child> = Vec::new();
    let mut k = 0;
    let mut aborts = 0;
    let fx = docs::fixtures(args.seed);
    let mut g = ExprGen::new(8);
    while !queue.is_empty() || !running.is_empty() {
        while running.len() < jobs && !queue.is_empty() {
            let (lo, hi) = queue.pop().unwrap();
            let dir = format!("{}/batch-{k}", args.out);
            k += 1;
            let _ = std::fs::create_dir_all(&dir);
            let p = std::process::Command::new(&exe)
                .args(["c20", "--seed", &args.seed.to_string(), "--n", &args.n.to_string(), "--out", &dir, "--tier", if args.thorough { "thorough" } else { "quick" }])
                .env("C20_LO", lo.to_string())
                .env("C20_HI", hi.to_string())
                .stdout(std::process::Stdio::null())
                .stderr(std::process::Stdio::piped())
                .spawn()
                .expect("spawn child");
            running.push(Child { p, lo, hi, dir, last: String::new(), since: Instant::now() });
        }
        std::thread::sleep(Duration::from_millis(40));
        let mut i = 0;
        while i < running.len() {
            let c = &mut running[i];
            let prog = std::fs::read_to_string(format!("{}/progress", c.dir)).unwrap_or_default();
            if prog != c.last { c.last = prog; c.since = Instant::now(); }
            let status = match c.p.try_wait() {
                Ok(Some(st)) => Some((st.success(), format!("{st}"))),
                Ok(None) => {
                    if c.since.elapsed() > stall {
                        let _ = c.p.kill();
                        let _ = c.p.wait();
                        Some((false, format!("killed: no progress for {stall:?} (non-termination)")))
                    } else { None }
                }
                Err(e) => Some((false, format!("wait failed: {e}"))),
            };
            match status {
                None => { i += 1; }
                Some((ok, how)) => {
                    let c = running.swap_remove(i);
                    let mut errtxt = String::new();
                    if let Some(mut e) = c.p.stderr { use std::io::Read; let _ = e.read_to_string(&mut errtxt); }
                    if ok && merge(out, &c.dir) {
                        out.count("batches_completed");
                    } else {
                        aborts += 1;
                        out.count("batches_aborted");
                        let idx: Option<u64> = c.last.trim().parse().ok();
                        match idx {
                            Some(idx) if idx >= c.lo && idx < c.hi => {
                                let case = gen_case(args.seed, idx, &fx, &mut g);
                                let tail: String = errtxt.chars().rev().take(600).collect::<String>().chars().rev().collect();
                                out.propfail(
                                    "process died (abort / stack overflow / kill on no progress) while running a case",
                                    &format!("family={} input {}", case.fam.name(), esc(&case.bytes)),
                                    &format!("child exit: {how}; case #{idx} ({}); stderr tail: {tail}", case.ops),
                                );
                                if aborts <= 25 {
                                    if c.lo < idx { queue.push((c.lo, idx)); }
                                    if idx + 1 < c.hi { queue.push((idx + 1, c.hi)); }
                                }
                            }
                            _ => {
                                out.propfail("child process failed before its first case", &format!("range {}..{}", c.lo, c.hi), &format!("{how}; stderr: {errtxt}"));
                            }
                        }
                    }
                }
            }
        }
    }
    out.add("child_processes", k as u64);
}

pub fn run(args: &Args, out: &mut Out) {
    let lo = std::env::var("C20_LO").ok().and_then(|s| s.parse::<u64>().ok());
    let hi = std::env::var("C20_HI").ok().and_then(|s| s.parse::<u64>().ok());
    let _ = gen::TYPES;
    match (lo, hi) {
        (Some(lo), Some(hi)) => {
            let _ = std::fs::create_dir_all(&args.out);
            worker(args, out, lo, hi)
        }
        _ => parent(args, out),
    }
}
