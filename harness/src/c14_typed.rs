//! C14 / C15 / C16 / C17, stream `c14typed`: the TYPED AST the `*_valid` theorems speak about.
//! The theorems `tpe_decision_sound_valid`, `query_*_exact_valid` (C14), `batched_decision_sound_valid` (C15), `level_sound_strict`
//! (C16), `manifest_sound_valid_lit` (C17) are stated over the model's typed AST `Level.annotate .strict s env cond []` (and its
//! erasure).  The real TPE / batched evaluator / level checker / manifest computation start from the typed expression of the
//! Rust typechecker.  This stream compares the two, for generated (schema, policy, request environment) triples:
//!   K  per triple two lines
//!        (typedast shape <schema> (env P action R) <cond>)  vs  `(typed success|irrelevant <into_expr of Rust's typed expr>)` | `(err)`
//!        (typedast types <schema> (env P action R) <cond>)  vs  the same tree with `expr.data()` (the `Type`) of EVERY node
//!      `success` = `PolicyCheck::Success`, `irrelevant` = `PolicyCheck::Irrelevant` without errors (condition typed False),
//!      `(err)` = `PolicyCheck::Fail` or `Irrelevant` with errors.
//!   inputs: schema worlds of gen_schema.rs (1/2) and chain worlds of gen_schema_chain.rs (1/2); per world strictly valid policies
//!      (gen_typed.rs `gen_valid_policies`), near-valid ones (`gen_policy` with near-miss guards / ill-typed plants, static),
//!      chain policies and const-operand policies of c16.rs (`&&` / `||` / `if` with operands typed True / False, where the
//!      typechecker drops operands or duplicates a branch); every policy in up to 4 request environments of the schema
//!      (so also environments the policy was not written for: `is` / `==` scope tests typed False, `has` typed False).
//!   non-trivial = distinct (condition, environment) with a typed expression handed back; counters say how often the typed
//!      expression differs from the condition (operand dropped / branch duplicated) and which verdicts occurred.
use crate::c16;
use crate::gen_schema::{self as gs, SchemaWorld};
use crate::gen_schema_chain as gc;
use crate::gen_typed::{self as gt};
use crate::out::Out;
use crate::rng::Rng;
use crate::sx;
use crate::sx_schema;
use crate::Args;
use cedar_policy_core::ast::{self, PolicyID, Template};
use cedar_policy_core::parser;
use cedar_policy_core::validator::typecheck::{PolicyCheck, Typechecker};
use cedar_policy_core::validator::types::{RequestEnv, Type};
use cedar_policy_core::validator::ValidationMode;
use std::panic::{catch_unwind, AssertUnwindSafe};

/// `(ty <type> <node>)` around every node
fn typed_tree(e: &ast::Expr<Option<Type>>) -> Option<String> {
    sx::expr_with(e, &|n, s| format!("(ty {} {s})", n.data().as_ref().map_or("none".to_string(), sx_schema::ty)))
}

/// the two lines of one (policy condition, environment); shared with c14.rs / c16.rs
pub fn emit(out: &mut Out, tc: &Typechecker<'_>, ssx: &str, t: &Template, env: &RequestEnv<'_>, meta: &str) {
    let (Some(p), Some(a), Some(r)) = (env.principal_entity_type(), env.action_entity_uid(), env.resource_entity_type()) else { return };
    let cond = t.condition();
    let Some(csx) = sx::expr(&cond) else { return };
    let check = match catch_unwind(AssertUnwindSafe(|| tc.typecheck_by_single_request_env(t, env))) {
        Ok(c) => c,
        Err(pn) => {
            out.propfail("panic in typecheck_by_single_request_env", meta, &crate::c02::panic_msg(pn));
            return;
        }
    };
    let envsx = format!("(env {} {} {})", sx::qs(&p.to_string()), sx::uid(a), sx::qs(&r.to_string()));
    let (verdict, typed) = match check {
        PolicyCheck::Success(e) => ("success", Some(e)),
        PolicyCheck::Irrelevant(errs, e) if errs.is_empty() => ("irrelevant", Some(e)),
        PolicyCheck::Irrelevant(_, _) => ("irrelevant-with-errors", None),
        PolicyCheck::Fail(_) => ("fail", None),
    };
    out.count(&format!("typedast:{verdict}"));
    let (shape, types) = match &typed {
        None => ("(err)".to_string(), "(err)".to_string()),
        Some(e) => {
            let erased: ast::Expr = e.clone().into_expr::<ast::ExprBuilder<()>>();
            let (Some(s1), Some(s2)) = (sx::expr(&erased), typed_tree(e)) else { return };
            if s1 != csx {
                out.count("typedast:typed_expr_differs_from_condition");
            }
            out.nontrivial(&format!("{csx}|{envsx}|{ssx}"));
            (format!("(typed {verdict} {s1})"), format!("(typed {verdict} {s2})"))
        }
    };
    out.line(format!("(typedast shape {ssx} {envsx} {csx})"), shape, format!("{meta} env={envsx} [shape]"));
    out.line(format!("(typedast types {ssx} {envsx} {csx})"), types, format!("{meta} env={envsx} [types]"));
    out.count("typedast_lines");
    out.count("typedast_lines");
}

fn one_world(out: &mut Out, r: &mut Rng, w: &SchemaWorld, chainy: bool, cname: &str) {
    let ssx = sx_schema::schema(&w.schema);
    let tc = Typechecker::new(&w.schema, ValidationMode::Strict);
    let mut texts: Vec<(String, &'static str)> = Vec::new();
    for t in gt::gen_valid_policies(r, w, 4) {
        texts.push((t, "valid"));
    }
    let near = gt::GenOpts { templates: false, near_miss_pct: 35, ill_typed_pct: 35, ..gt::GenOpts::default() };
    for _ in 0..3 {
        let gp = gt::gen_policy(r, w, &near);
        texts.push((gp.text, gp.intent.name()));
    }
    if chainy {
        for i in 0..3u32 {
            texts.push((c16::chain_policy(r, &w.spec, i % (c16::MAX_LEVEL + 1), false), "chain"));
        }
        for i in 0..3u32 {
            texts.push((c16::chain_policy(r, &w.spec, 1 + i % c16::MAX_LEVEL, true), "const-operand"));
        }
    }
    let envs: Vec<RequestEnv<'_>> = w.schema.unlinked_request_envs(ValidationMode::Strict).collect();
    if envs.is_empty() {
        out.count("worlds_without_env");
        return;
    }
    for (i, (text, kind)) in texts.into_iter().enumerate() {
        out.count(&format!("policies:{kind}"));
        let Ok(t) = parser::parse_policy_or_template(Some(PolicyID::from_string(format!("p{i}"))), &text) else {
            out.count(&format!("unparsable:{kind}"));
            continue;
        };
        // up to 4 environments, sorted for determinism (hash-map order inside the schema)
        let mut keyed: Vec<(String, &RequestEnv<'_>)> = envs.iter().map(|e| (format!("{:?}|{:?}|{:?}", e.action_entity_uid().map(|u| u.to_string()), e.principal_entity_type().map(|t| t.to_string()), e.resource_entity_type().map(|t| t.to_string())), e)).collect();
        keyed.sort_by(|a, b| a.0.cmp(&b.0));
        // prefer the environments in which the condition is not typed False (up to 3 of them), plus one `Irrelevant` one
        let (live, dead): (Vec<_>, Vec<_>) = keyed.iter().map(|x| x.1).partition(|env| {
            !matches!(catch_unwind(AssertUnwindSafe(|| tc.typecheck_by_single_request_env(&t, env))), Ok(PolicyCheck::Irrelevant(ref errs, _)) if errs.is_empty())
        });
        let mut chosen: Vec<&RequestEnv<'_>> = Vec::new();
        if !live.is_empty() {
            let start = r.below(live.len());
            for j in 0..live.len().min(3) {
                chosen.push(live[(start + j) % live.len()]);
            }
        }
        if !dead.is_empty() {
            let start = r.below(dead.len());
            for j in 0..dead.len().min(4 - chosen.len().min(3)) {
                chosen.push(dead[(start + j) % dead.len()]);
            }
        }
        for env in chosen {
            emit(out, &tc, &ssx, &t, env, &format!("{cname} [{kind}] {text}"));
        }
        out.sample(format!("[{kind}] {text}"));
    }
}

pub fn run(args: &Args, out: &mut Out) {
    let mut rng = Rng::new(args.seed);
    for case in 0..args.n {
        let mut r = rng.fork();
        let sub = r.0;
        let chainy = case % 2 == 0;
        let w = if chainy { gc::gen_chain_world(&mut r) } else { gs::gen_schema_world(&mut r).0 };
        out.cases += 1;
        out.count(if chainy { "worlds:chain" } else { "worlds:generic" });
        one_world(out, &mut r, &w, chainy, &format!("case={case} sub={sub}"));
    }
}
