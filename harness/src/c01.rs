//! C01: the authorizer. Policy sets mixing permit/forbid x satisfied/unsatisfied/erroring x
//! static/template-linked; responses compared with the model and — on the implementation alone — with
//! the statement, under permutation, id respelling, entity insertion order and call history.
use crate::gen::{self, ExprGen, Ty, World};
use crate::out::Out;
use crate::rng::Rng;
use crate::sx;
use crate::Args;
use cedar_policy_core::ast::{Effect, EntityUID, Policy, PolicyID, PolicySet, SlotId};
use cedar_policy_core::authorizer::{Authorizer, Decision, Response};
use cedar_policy_core::entities::{Entities, NoEntitiesSchema, TCComputation};
use cedar_policy_core::evaluator::Evaluator;
use cedar_policy_core::extensions::Extensions;
use cedar_policy_core::parser;
use std::collections::HashMap;
use std::panic::{catch_unwind, AssertUnwindSafe};

pub fn uid_text(u: &EntityUID) -> String {
    u.to_string()
}

#[derive(Clone)]
pub struct PolSpec {
    pub id: String,
    pub text: String,
    /// template links: slot values
    pub link: Option<(Option<EntityUID>, Option<EntityUID>)>,
}

pub fn gen_scope(r: &mut Rng, w: &World, template: bool) -> (String, bool, bool) {
    let near = |r: &mut Rng, u: &EntityUID| -> EntityUID { if r.chance(60) { u.clone() } else { gen::gen_uid(r) } };
    let mut uses_p = false;
    let mut uses_r = false;
    let p = match r.below(if template { 8 } else { 5 }) {
        0 => "principal".to_string(),
        1 => format!("principal == {}", uid_text(&near(r, &w.principal))),
        2 => format!("principal in {}", uid_text(&near(r, &w.principal))),
        3 => format!("principal is {}", r.pick(gen::TYPES)),
        4 => format!("principal is {} in {}", r.pick(gen::TYPES), uid_text(&near(r, &w.principal))),
        5 => { uses_p = true; "principal == ?principal".to_string() }
        6 => { uses_p = true; "principal in ?principal".to_string() }
        _ => { uses_p = true; format!("principal is {} in ?principal", r.pick(gen::TYPES)) }
    };
    let near_a = |r: &mut Rng, u: &EntityUID| -> EntityUID { if r.chance(60) { u.clone() } else { gen::mk_uid("Action", gen::EIDS[r.below(4)]) } };
    let a = match r.below(4) {
        0 => "action".to_string(),
        1 => format!("action == {}", uid_text(&near_a(r, &w.action))),
        2 => format!("action in {}", uid_text(&near_a(r, &w.action))),
        _ => format!("action in [{}, {}]", uid_text(&near_a(r, &w.action)), uid_text(&gen::mk_uid("Action", "b"))),
    };
    let rs = match r.below(if template { 8 } else { 5 }) {
        0 => "resource".to_string(),
        1 => format!("resource == {}", uid_text(&near(r, &w.resource))),
        2 => format!("resource in {}", uid_text(&near(r, &w.resource))),
        3 => format!("resource is {}", r.pick(gen::TYPES)),
        4 => format!("resource is {} in {}", r.pick(gen::TYPES), uid_text(&near(r, &w.resource))),
        5 => { uses_r = true; "resource == ?resource".to_string() }
        6 => { uses_r = true; "resource in ?resource".to_string() }
        _ => { uses_r = true; format!("resource is {} in ?resource", r.pick(gen::TYPES)) }
    };
    (format!("({p}, {a}, {rs})"), uses_p, uses_r)
}

/// outcome: 0 sat, 1 unsat, 2 err, 3 random
pub fn gen_policy(r: &mut Rng, g: &mut ExprGen, w: &World, id: &str, effect: Effect, outcome: u32, template: bool) -> PolSpec {
    let forced = outcome < 3;
    let (scope, up, ur) = if forced && !template { ("(principal, action, resource)".to_string(), false, false) }
        else if forced { ("(principal == ?principal, action, resource)".to_string(), true, false) }
        else { gen_scope(r, w, template) };
    let cond = match outcome {
        0 => (*r.pick(&["true", "1 < 2", "principal == principal", "!(context has nosuch)", "[1,2].contains(1)"])).to_string(),
        1 => (*r.pick(&["false", "2 < 1", "principal != principal", "context has nosuch", "[].contains(1)"])).to_string(),
        2 => (*r.pick(&["context.nosuch", "9223372036854775807 + 1 > 0", "1 + \"a\" == 2", "User::\"zz\".n > 0", "decimal(\"x\").lessThan(decimal(\"1.0\"))", "3", "if 1 then true else false"])).to_string(),
        _ => {
            let d = 1 + r.below(4) as u32;
            g.gen(r, Ty::Bool, d).to_string()
        }
    };
    let mut text = format!("{} {}", if effect == Effect::Permit { "permit" } else { "forbid" }, scope);
    match r.below(4) {
        0 if !forced => text.push_str(&format!(" unless {{ {cond} }}")),
        1 if !forced => {
            let c2 = g.gen(r, Ty::Bool, 1).to_string();
            text.push_str(&format!(" when {{ {cond} }} unless {{ {c2} }}"));
        }
        _ => text.push_str(&format!(" when {{ {cond} }}")),
    }
    text.push(';');
    let link = if template {
        let pv = if forced { w.principal.clone() } else { gen::gen_uid(r) };
        Some((if up { Some(if r.chance(50) { w.principal.clone() } else { pv }) } else { None }, if ur { Some(if r.chance(50) { w.resource.clone() } else { gen::gen_uid(r) }) } else { None }))
    } else { None };
    PolSpec { id: id.to_string(), text, link }
}

/// build a policy set from specs with the given id mapping and insertion order
pub fn build(specs: &[PolSpec], order: &[usize], rename: &dyn Fn(&str) -> String) -> Result<PolicySet, String> {
    let mut ps = PolicySet::new();
    for &i in order {
        let s = &specs[i];
        let id = PolicyID::from_string(rename(&s.id));
        match &s.link {
            None => {
                let p = parser::parse_policy(Some(id), &s.text).map_err(|e| format!("parse {}: {e}", s.text))?;
                ps.add_static(p).map_err(|e| format!("add: {e}"))?;
            }
            Some((lp, lr)) => {
                let tid = PolicyID::from_string(format!("T-{}", rename(&s.id)));
                let t = parser::parse_policy_or_template(Some(tid.clone()), &s.text).map_err(|e| format!("parse {}: {e}", s.text))?;
                ps.add_template(t).map_err(|e| format!("addt: {e}"))?;
                let mut vals = HashMap::new();
                if let Some(u) = lp { vals.insert(SlotId::principal(), u.clone()); }
                if let Some(u) = lr { vals.insert(SlotId::resource(), u.clone()); }
                ps.link(tid, id, vals).map_err(|e| format!("link: {e}"))?;
            }
        }
    }
    Ok(ps)
}

pub fn resp_sx(resp: &Response, unrename: &dyn Fn(&str) -> String) -> String {
    let reasons = sx::ids(resp.diagnostics.reason.iter().map(|i| unrename(i.as_ref())));
    let errs = sx::ids(resp.diagnostics.errors.iter().map(|e| match e {
        cedar_policy_core::authorizer::AuthorizationError::PolicyEvaluationError { id, .. } => unrename(id.as_ref()),
    }));
    format!("(resp {} {} {})", if resp.decision == Decision::Allow { "allow" } else { "deny" }, reasons, errs)
}

pub fn policy_sx(p: &Policy) -> Option<String> {
    let mut env = String::from("(env");
    let mut slots: Vec<_> = p.env().iter().collect();
    slots.sort_by_key(|(k, _)| k.to_string());
    for (k, v) in slots {
        env.push_str(&format!(" ({} {})", if *k == SlotId::principal() { "principal" } else { "resource" }, sx::uid(v)));
    }
    env.push(')');
    Some(format!(
        "(policy {} {} {} {})",
        sx::qs(p.id().as_ref()),
        if p.effect() == Effect::Permit { "permit" } else { "forbid" },
        env,
        sx::expr(&p.condition())?
    ))
}

pub fn policies_sx(ps: &PolicySet) -> Option<String> {
    let mut v: Vec<(String, String)> = Vec::new();
    for p in ps.policies() {
        v.push((p.id().as_ref().to_string(), policy_sx(p)?));
    }
    v.sort();
    let mut o = String::from("(policies");
    for (_, s) in v { o.push(' '); o.push_str(&s); }
    o.push(')');
    Some(o)
}

/// the statement of C01 evaluated on the implementation's own per-policy outcomes
fn spec_response(w: &World, ps: &PolicySet) -> String {
    let ev = Evaluator::new(w.request(), &w.entities, Extensions::all_available());
    let (mut sp, mut sf, mut errs) = (Vec::new(), Vec::new(), Vec::new());
    for p in ps.policies() {
        match ev.evaluate(p) {
            Ok(true) => if p.effect() == Effect::Permit { sp.push(p.id().as_ref().to_string()) } else { sf.push(p.id().as_ref().to_string()) },
            Ok(false) => {}
            Err(_) => errs.push(p.id().as_ref().to_string()),
        }
    }
    let allow = !sp.is_empty() && sf.is_empty();
    let reasons = if !sf.is_empty() { sf } else { sp };
    format!("(resp {} {} {})", if allow { "allow" } else { "deny" }, sx::ids(reasons.into_iter()), sx::ids(errs.into_iter()))
}

fn authorize(w: &World, ps: &PolicySet, auth: &Authorizer, ents: &Entities) -> Result<Response, String> {
    catch_unwind(AssertUnwindSafe(|| auth.is_authorized(w.request(), ps, ents))).map_err(crate::c02::panic_msg)
}

pub fn one_case(r: &mut Rng, w: &World, wsx: &(String, String), specs: &[PolSpec], out: &mut Out, tag: &str) {
    let ident = |s: &str| s.to_string();
    let order: Vec<usize> = (0..specs.len()).collect();
    let ps = match build(specs, &order, &ident) {
        Ok(ps) => ps,
        Err(e) => { out.count("unbuildable"); out.count(&format!("unbuildable_{}", e.chars().take(60).collect::<String>())); return; }
    };
    let desc = specs.iter().map(|s| format!("{}{}: {}", s.id, if s.link.is_some() { "[linked]" } else { "" }, s.text)).collect::<Vec<_>>().join(" || ");
    let auth = Authorizer::new();
    let resp = match authorize(w, &ps, &auth, &w.entities) {
        Ok(x) => x,
        Err(p) => { out.propfail("panic in is_authorized", &desc, &p); return; }
    };
    let obs = resp_sx(&resp, &ident);
    let Some(psx) = policies_sx(&ps) else { out.count("outside_protocol"); return };
    out.line(format!("(auth {} {} {})", wsx.0, wsx.1, psx), obs.clone(), format!("{tag} {desc}"));
    out.sample(format!("{desc} ==> {obs}"));
    // classification for the evidence
    let spec = spec_response(w, &ps);
    if spec != obs {
        out.propfail("response differs from the statement evaluated on per-policy outcomes", &desc, &format!("response {obs} ; statement {spec}"));
    }
    let has_err = !resp.diagnostics.errors.is_empty();
    let n_forbid = specs.iter().filter(|s| s.text.starts_with("forbid")).count();
    if has_err && n_forbid > 0 && n_forbid < specs.len() { out.nontrivial(&format!("{psx}{}", wsx.0)); }
    out.count(if resp.decision == Decision::Allow { "decision_allow" } else { "decision_deny" });
    if has_err { out.count("with_erroring_policy"); }
    // permutations of insertion order
    for _ in 0..2 {
        let mut o2 = order.clone();
        for i in (1..o2.len()).rev() { let j = r.below(i + 1); o2.swap(i, j); }
        if let Ok(ps2) = build(specs, &o2, &ident) {
            match authorize(w, &ps2, &auth, &w.entities) {
                Ok(r2) => if resp_sx(&r2, &ident) != obs { out.propfail("response depends on policy order", &desc, &format!("{} vs {}", resp_sx(&r2, &ident), obs)); },
                Err(p) => out.propfail("panic in is_authorized (permuted)", &desc, &p),
            }
            out.count("variant_permutation");
        }
    }
    // id respelling (injective): ids needing escapes, and a reversal of the sort order
    let renames: [(&dyn Fn(&str) -> String, &dyn Fn(&str) -> String); 2] = [
        (&|s: &str| format!("\"q\\{s}\u{1F600} x"), &|s: &str| s.trim_start_matches("\"q\\").trim_end_matches("\u{1F600} x").to_string()),
        (&|s: &str| format!("{}", s.chars().rev().collect::<String>()), &|s: &str| s.chars().rev().collect::<String>()),
    ];
    for (ren, unren) in renames.iter() {
        if let Ok(ps2) = build(specs, &order, ren) {
            match authorize(w, &ps2, &auth, &w.entities) {
                Ok(r2) => if resp_sx(&r2, unren) != obs { out.propfail("response depends on id spelling", &desc, &format!("{} vs {}", resp_sx(&r2, unren), obs)); },
                Err(p) => out.propfail("panic in is_authorized (renamed)", &desc, &p),
            }
            out.count("variant_rename");
        }
    }
    // entity insertion order: rebuild the store from the reversed entity list
    let mut ents: Vec<_> = w.entities.iter().cloned().collect();
    ents.reverse();
    if let Ok(e2) = Entities::from_entities(ents, None::<&NoEntitiesSchema>, TCComputation::AssumeAlreadyComputed, Extensions::all_available()) {
        match authorize(w, &ps, &auth, &e2) {
            Ok(r2) => if resp_sx(&r2, &ident) != obs { out.propfail("response depends on entity insertion order", &desc, &format!("{} vs {}", resp_sx(&r2, &ident), obs)); },
            Err(p) => out.propfail("panic in is_authorized (store order)", &desc, &p),
        }
        out.count("variant_store_order");
    }
    // history: unrelated calls on the same Authorizer, then the same call again; and a fresh Authorizer
    let other = PolicySet::new();
    let _ = authorize(w, &other, &auth, &Entities::new());
    for a in [&auth, &Authorizer::new()] {
        match authorize(w, &ps, a, &w.entities) {
            Ok(r2) => if resp_sx(&r2, &ident) != obs { out.propfail("response depends on earlier calls", &desc, &format!("{} vs {}", resp_sx(&r2, &ident), obs)); },
            Err(p) => out.propfail("panic in is_authorized (history)", &desc, &p),
        }
        out.count("variant_history");
    }
}

pub fn run(args: &Args, out: &mut Out) {
    let mut rng = Rng::new(args.seed);
    let mut g = ExprGen::new(8);
    // exhaustive small scope: all (effect x outcome)^n vectors, n <= 4 (quick) / 5 (thorough)
    {
        let mut wr = Rng::new(args.seed ^ 0xABCD);
        let w = gen::gen_world(&mut wr);
        let wsx = crate::c02::world_sx(&w);
        let maxn = if args.thorough { 5 } else { 4 };
        for n in 0..=maxn {
            let total = 6u64.pow(n);
            for code in 0..total {
                let mut c = code;
                let mut specs = Vec::new();
                for i in 0..n {
                    let k = (c % 6) as u32; c /= 6;
                    let eff = if k < 3 { Effect::Permit } else { Effect::Forbid };
                    let template = wr.chance(25);
                    specs.push(gen_policy(&mut wr, &mut g, &w, &format!("p{i}"), eff, k % 3, template));
                }
                one_case(&mut wr, &w, &wsx, &specs, out, "exh");
                out.cases += 1;
            }
        }
        out.add("exhaustive_vectors", out.cases);
    }
    for _ in 0..args.n {
        let mut cr = rng.fork();
        let w = gen::gen_world(&mut cr);
        let wsx = crate::c02::world_sx(&w);
        let n = cr.below(9);
        let mut specs = Vec::new();
        for i in 0..n {
            let eff = if cr.chance(60) { Effect::Permit } else { Effect::Forbid };
            let outcome = if cr.chance(50) { 3 } else { cr.below(3) as u32 };
            let template = cr.chance(30);
            let id = if cr.chance(90) { format!("p{i}") } else { format!("id \"{i}\"\\") };
            specs.push(gen_policy(&mut cr, &mut g, &w, &id, eff, outcome, template));
        }
        one_case(&mut cr, &w, &wsx, &specs, out, "rand");
        out.cases += 1;
    }
    if let Ok(mut l) = crate::gen::CLOSURE_MISMATCH.lock() {
        for m in l.drain(..) {
            out.propfail("`in` on a store built by an add_entities history: ancestor set differs from parent reachability", "gen_world", &m);
        }
    }
}
