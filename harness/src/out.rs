//! Output of one harness run: request lines for the model, the implementation's canonical replies,
//! per-case metadata, implementation-level property failures, statistics.
use std::collections::{BTreeMap, HashSet};
use std::fs;
use std::hash::{Hash, Hasher};
use std::io::Write;

#[derive(Default)]
pub struct Out {
    pub req: Vec<String>,
    pub imp: Vec<String>,
    pub meta: Vec<String>,
    pub propfail: Vec<String>,
    pub stats: BTreeMap<String, u64>,
    pub nontrivial: HashSet<u64>,
    pub samples: Vec<String>,
    pub cases: u64,
}

pub fn jstr(s: &str) -> String {
    serde_json::to_string(s).unwrap()
}

impl Out {
    pub fn line(&mut self, req: String, imp: String, meta: String) {
        self.req.push(req);
        self.imp.push(imp);
        self.meta.push(meta);
    }
    pub fn count(&mut self, k: &str) {
        *self.stats.entry(k.to_string()).or_insert(0) += 1;
    }
    pub fn add(&mut self, k: &str, n: u64) {
        *self.stats.entry(k.to_string()).or_insert(0) += n;
    }
    /// record a distinct non-trivial case (by hash of its canonical text)
    pub fn nontrivial(&mut self, key: &str) {
        let mut h = std::collections::hash_map::DefaultHasher::new();
        key.hash(&mut h);
        self.nontrivial.insert(h.finish());
    }
    pub fn sample(&mut self, s: String) {
        if self.samples.len() < 5 {
            self.samples.push(s);
        }
    }
    /// an implementation-level failure of the property (independent of the model)
    pub fn propfail(&mut self, what: &str, case: &str, detail: &str) {
        self.propfail.push(format!(
            "{{\"what\":{},\"case\":{},\"detail\":{}}}",
            jstr(what),
            jstr(case),
            jstr(detail)
        ));
    }
    pub fn write(&self, dir: &str) {
        fs::create_dir_all(dir).unwrap();
        let w = |name: &str, lines: &Vec<String>| {
            let mut f = std::io::BufWriter::new(fs::File::create(format!("{dir}/{name}")).unwrap());
            for l in lines {
                f.write_all(l.as_bytes()).unwrap();
                f.write_all(b"\n").unwrap();
            }
        };
        w("req.txt", &self.req);
        w("impl.txt", &self.imp);
        w("meta.txt", &self.meta);
        w("propfail.jsonl", &self.propfail);
        let mut s = String::from("{");
        s.push_str(&format!("\"cases\":{},\"lines\":{},\"distinct_nontrivial\":{},", self.cases, self.req.len(), self.nontrivial.len()));
        s.push_str("\"samples\":[");
        s.push_str(&self.samples.iter().map(|x| jstr(x)).collect::<Vec<_>>().join(","));
        s.push_str("],\"stats\":{");
        s.push_str(&self.stats.iter().map(|(k, v)| format!("{}:{}", jstr(k), v)).collect::<Vec<_>>().join(","));
        s.push_str("}}");
        fs::write(format!("{dir}/stats.json"), s).unwrap();
    }
}
