//! C18: symbolic compilation agrees with evaluation on concrete (literal) environments.
//!
//! One case = one generated schema world (gen_schema.rs) with a conformant store (half of the worlds: every uid the
//! generators can produce is present; the other half: entities present with probability 55%, so principals, resources,
//! attribute values and parents may refer to entities that are absent), 6 strictly valid static policies (gen_typed.rs,
//! accepted by the real strict validator) and 5 requests accepted by `Request::new(.., Some(schema))`.
//! For every (request, policy) and for two policy sets drawn from the policies:
//!
//!   * `SymEnv::from_concrete_env(request env, schema, Env { request, entities })` builds the LITERAL symbolic environment
//!     (must succeed and satisfy `SymEnv::is_literal`);
//!   * optimised compiler (symccopt): `CompiledPolicy / CompiledPolicySet::compile_with_custom_symenv`, then the public
//!     `*_asserts(..).asserts()`; "reduces to a constant" = EVERY assert of the list is a literal `Term::Prim(Bool)`;
//!     the condition HOLDS (asserts unsatisfiable) iff some assert is the literal `false`, FAILS (is refuted) iff all
//!     are `true`; any other term is a failure by itself (printed);
//!   * plain compiler (symcc): the only public route to symcc/verifier.rs is the deprecated `CedarSymCompiler::check_*`
//!     on `WellTypedPolicy / WellTypedPolicies` with an explicit `SymEnv`; it is run with a `WriterSolver` (no process,
//!     answers `unknown`): `check_unsat_asserts` returns `Ok(true)` / `Ok(false)` without touching the solver exactly
//!     when the asserts are constant in the sense above; `Err(SolverUnknown)` = the solver was consulted = non-constant
//!     (the SMT-LIB script is printed as the residual);
//!   * concrete side: `Evaluator::evaluate(policy)` (sat | unsat | err) and `Authorizer::is_authorized` (decision).
//!
//! S (implementation only, `propfail`): never-errors refuted ⇔ err; always-matches holds ⇔ sat; never-matches holds ⇔
//!   not sat; always-allows ⇔ Allow; always-denies ⇔ Deny; implies ⇔ (d1 = Allow → d2 = Allow); equivalent ⇔ d1 = d2;
//!   disjoint ⇔ not both Allow; plus the policy-level `matches_*` trio; plain and optimised compilers agree.
//! K (model): request line `(symcc (ps (EFFECT OUTCOME)…) (ps …))` with Rust's concrete outcomes; the model
//!   (Cedar/SymCC.lean, the option-boolean skeleton of verifier.rs / authorizer.rs) predicts every condition's constant;
//!   the implementation reply carries the constants SymCC produced.
//!
//! Second oracle, the COMPLETED store: the store plus, for every referenced uid of a standard entity type that is absent
//! (request, policy literals, attribute / tag / context values, ancestors, and `T::""` of every standard type), an
//! entity with SymCC's default attributes (false, 0, "", `T::""` / first enum choice, decimal 0, 0.0.0.0, epoch, 0 ms,
//! empty set, required record attributes only; no parents, no tags).  SymCC's constants must ALWAYS state what the
//! evaluator / authorizer do on the completed store (anything else is UNEXPLAINED); where the original store gives a
//! different answer the divergence is reported as the finding `missing-deref` (an absent entity is given default
//! attributes by `SymEnv::from_concrete_env`, while the evaluator raises EntityDoesNotExist on `.attr` and answers
//! `false` to `has attr`); independently it is checked that the concrete evaluation then really applies `.attr` /
//! `has attr` to an absent entity.
#![allow(deprecated)]
use crate::gen_schema::{self as gs, SchemaWorld};
use crate::gen_typed::{self as gt, GenOpts};
use crate::out::Out;
use crate::rng::Rng;
use crate::Args;
use cedar_policy_core::ast::{self, EntityUID, Expr, ExprKind, Literal, PartialValue, PolicyID, RestrictedExpr, SlotId, Value, ValueKind};
use cedar_policy_core::authorizer::{Authorizer, Decision};
use cedar_policy_core::entities::{Dereference, Entities, TCComputation};
use cedar_policy_core::evaluator::{EvaluationError, Evaluator};
use cedar_policy_core::extensions::Extensions;
use cedar_policy_core::parser;
use cedar_policy_core::validator::types::{EntityKind, Type};
use cedar_policy_core::validator::{CoreSchema, ValidatorEntityTypeKind, ValidatorSchema};
use cedar_policy_symcc as sc;
use cedar_policy_symcc::solver::WriterSolver;
use cedar_policy_symcc::term::{Term, TermPrim};
use std::collections::{BTreeSet, HashMap, HashSet};
use std::panic::{catch_unwind, AssertUnwindSafe};

// ------------------------------------------------------------------------------------------------
// constants
// ------------------------------------------------------------------------------------------------

#[derive(Clone, Debug, PartialEq)]
enum K {
    Holds,
    Fails,
    NonConst(String),
    Error(String),
}

impl K {
    fn name(&self) -> &'static str {
        match self {
            K::Holds => "holds",
            K::Fails => "fails",
            K::NonConst(_) => "nonconst",
            K::Error(_) => "error",
        }
    }
    fn of(b: bool) -> K {
        if b { K::Holds } else { K::Fails }
    }
}

fn clip(s: String) -> String {
    if s.len() > 1500 {
        let mut e = 1500;
        while !s.is_char_boundary(e) { e -= 1; }
        format!("{}… [{} bytes]", &s[..e], s.len())
    } else {
        s
    }
}

/// every assert must be a literal boolean; unsat (holds) iff one is `false`
fn classify(asserts: &sc::Asserts) -> K {
    let mut any_false = false;
    for t in asserts.iter() {
        match t {
            Term::Prim(TermPrim::Bool(b)) => {
                if !*b { any_false = true; }
            }
            other => return K::NonConst(clip(format!("{other}"))),
        }
    }
    K::of(any_false)
}

fn block_on<F: std::future::Future>(f: F) -> F::Output {
    let mut f = std::pin::pin!(f);
    let mut cx = std::task::Context::from_waker(std::task::Waker::noop());
    for _ in 0..1_000_000 {
        if let std::task::Poll::Ready(v) = f.as_mut().poll(&mut cx) {
            return v;
        }
    }
    panic!("future did not complete");
}

type Compiler = sc::CedarSymCompiler<WriterSolver<Vec<u8>>>;

fn new_compiler() -> Compiler {
    sc::CedarSymCompiler::new(WriterSolver { w: Vec::new() }).expect("compiler")
}

/// verdict of the plain compiler's `check_*` with a solver that cannot answer
fn plain(c: &mut Compiler, r: Result<bool, sc::err::Error>) -> K {
    let k = match r {
        Ok(b) => K::of(b),
        Err(sc::err::Error::SolverUnknown) => K::NonConst(clip(String::from_utf8_lossy(&c.solver().w).to_string())),
        Err(e) => K::Error(format!("{e}")),
    };
    c.solver_mut().w.clear();
    k
}

// ------------------------------------------------------------------------------------------------
// concrete side
// ------------------------------------------------------------------------------------------------

#[derive(Clone, Copy, Debug, PartialEq)]
enum Outcome {
    Sat,
    Unsat,
    Err,
}

impl Outcome {
    fn name(&self) -> &'static str {
        match self {
            Outcome::Sat => "sat",
            Outcome::Unsat => "unsat",
            Outcome::Err => "err",
        }
    }
}

fn as_bool(v: &Value) -> Option<bool> {
    match &v.value {
        ValueKind::Lit(Literal::Bool(b)) => Some(*b),
        _ => None,
    }
}

/// follows the evaluator's control flow; `hit` = `.attr` / `has attr` applied to an entity that is not in the store
struct Touch<'a> {
    ev: &'a Evaluator<'a>,
    ents: &'a Entities,
    slots: HashMap<SlotId, EntityUID>,
    hit: bool,
}

impl Touch<'_> {
    fn node(&mut self, e: &Expr) -> Result<Value, EvaluationError> {
        let res = self.ev.interpret(e, &self.slots);
        match e.expr_kind() {
            ExprKind::And { left, right } => {
                if let Ok(v) = self.node(left) {
                    if as_bool(&v) == Some(true) { let _ = self.node(right); }
                }
            }
            ExprKind::Or { left, right } => {
                if let Ok(v) = self.node(left) {
                    if as_bool(&v) == Some(false) { let _ = self.node(right); }
                }
            }
            ExprKind::If { test_expr, then_expr, else_expr } => {
                if let Ok(v) = self.node(test_expr) {
                    match as_bool(&v) {
                        Some(true) => { let _ = self.node(then_expr); }
                        Some(false) => { let _ = self.node(else_expr); }
                        None => {}
                    }
                }
            }
            ExprKind::UnaryApp { arg, .. } => { let _ = self.node(arg); }
            ExprKind::BinaryApp { arg1, arg2, .. } => {
                if self.node(arg1).is_ok() { let _ = self.node(arg2); }
            }
            ExprKind::ExtensionFunctionApp { args, .. } => {
                for a in args.iter() {
                    if self.node(a).is_err() { break; }
                }
            }
            ExprKind::GetAttr { expr, .. } | ExprKind::HasAttr { expr, .. } => {
                if let Ok(v) = self.node(expr) {
                    if let ValueKind::Lit(Literal::EntityUID(u)) = &v.value {
                        if matches!(self.ents.entity(u), Dereference::NoSuchEntity) {
                            self.hit = true;
                        }
                    }
                }
            }
            ExprKind::Like { expr, .. } | ExprKind::Is { expr, .. } => { let _ = self.node(expr); }
            ExprKind::Set(xs) => {
                for a in xs.iter() {
                    if self.node(a).is_err() { break; }
                }
            }
            ExprKind::Record(m) => {
                for (_, a) in m.iter() {
                    if self.node(a).is_err() { break; }
                }
            }
            _ => {}
        }
        res
    }
}

fn count_ops(out: &mut Out, e: &Expr) {
    for sub in e.subexpressions() {
        let k = match sub.expr_kind() {
            ExprKind::Lit(Literal::EntityUID(_)) => "lit-entity".to_string(),
            ExprKind::Lit(_) => "lit".to_string(),
            ExprKind::Var(v) => format!("var-{v}"),
            ExprKind::If { .. } => "if".into(),
            ExprKind::And { .. } => "and".into(),
            ExprKind::Or { .. } => "or".into(),
            ExprKind::UnaryApp { op, .. } => format!("unary-{op:?}"),
            ExprKind::BinaryApp { op, .. } => format!("binary-{op:?}"),
            ExprKind::ExtensionFunctionApp { fn_name, .. } => format!("ext-{fn_name}"),
            ExprKind::GetAttr { .. } => "getattr".into(),
            ExprKind::HasAttr { .. } => "hasattr".into(),
            ExprKind::Like { .. } => "like".into(),
            ExprKind::Is { .. } => "is".into(),
            ExprKind::Set(_) => "set".into(),
            ExprKind::Record(_) => "record".into(),
            _ => "other".into(),
        };
        out.count(&format!("op:{k}"));
    }
}

// ------------------------------------------------------------------------------------------------
// one (request, store) against policies and two sets
// ------------------------------------------------------------------------------------------------

struct PolicyRes {
    effect: ast::Effect,
    outcome: Outcome,
    /// outcome on the completed store
    outcome_c: Outcome,
    missing: bool,
    /// (never-errors, always-matches, never-matches) by the optimised and by the plain compiler
    opt: [K; 3],
    plain: [K; 3],
}

const PVC: [&str; 3] = ["never-errors", "always-matches", "never-matches"];

fn expected_policy(o: Outcome) -> [bool; 3] {
    [o != Outcome::Err, o == Outcome::Sat, o != Outcome::Sat]
}

/// everything fixed for one (request, store)
struct Sit<'a> {
    vschema: &'a ValidatorSchema,
    schema: &'a cedar_policy::Schema,
    entities: &'a Entities,
    req: &'a ast::Request,
    env: cedar_policy::RequestEnv,
    symenv: sc::SymEnv,
    /// text describing the situation (policies are added by the callers)
    describe: String,
    complete_store: bool,
    /// the store completed with default entities (None: nothing had to be added)
    completed: Option<Entities>,
    /// id of the policy this request was generated for (coverage counter only)
    target: Option<String>,
}

fn effect_name(e: ast::Effect) -> &'static str {
    match e {
        ast::Effect::Permit => "permit",
        ast::Effect::Forbid => "forbid",
    }
}

fn policy_results(out: &mut Out, s: &Sit<'_>, p: &ast::Policy, text: &str) -> Option<PolicyRes> {
    let ext = Extensions::all_available();
    let ev = Evaluator::new(s.req.clone(), s.entities, ext);
    let case = || format!("{} policy=`{}`", s.describe, text);
    // concrete
    let conc = catch_unwind(AssertUnwindSafe(|| ev.evaluate(p)));
    let outcome = match conc {
        Ok(Ok(true)) => Outcome::Sat,
        Ok(Ok(false)) => Outcome::Unsat,
        Ok(Err(_)) => Outcome::Err,
        Err(pn) => {
            out.propfail("panic in the evaluator", &case(), &crate::c02::panic_msg(pn));
            return None;
        }
    };
    let outcome_c = match &s.completed {
        None => outcome,
        Some(c) => {
            let evc = Evaluator::new(s.req.clone(), c, ext);
            match catch_unwind(AssertUnwindSafe(|| evc.evaluate(p))) {
                Ok(Ok(true)) => Outcome::Sat,
                Ok(Ok(false)) => Outcome::Unsat,
                Ok(Err(_)) => Outcome::Err,
                Err(pn) => {
                    out.propfail("panic in the evaluator", &case(), &crate::c02::panic_msg(pn));
                    return None;
                }
            }
        }
    };
    let mut t = Touch { ev: &ev, ents: s.entities, slots: HashMap::new(), hit: false };
    let _ = t.node(&p.condition());
    let missing = t.hit;
    count_ops(out, &p.condition());
    // optimised compiler
    let pp: cedar_policy::Policy = p.clone().into();
    let opt = match catch_unwind(AssertUnwindSafe(|| sc::CompiledPolicy::compile_with_custom_symenv(&pp, &s.env, s.schema, s.symenv.clone()))) {
        Ok(Ok(cp)) => [
            classify(sc::never_errors_asserts(&cp).asserts()),
            classify(sc::always_matches_asserts(&cp).asserts()),
            classify(sc::never_matches_asserts(&cp).asserts()),
        ],
        Ok(Err(e)) => {
            let m = format!("{e}");
            [K::Error(m.clone()), K::Error(m.clone()), K::Error(m)]
        }
        Err(pn) => {
            let m = format!("panic: {}", crate::c02::panic_msg(pn));
            [K::Error(m.clone()), K::Error(m.clone()), K::Error(m)]
        }
    };
    // plain compiler
    let plain_res = match catch_unwind(AssertUnwindSafe(|| {
        let wt = sc::WellTypedPolicy::from_policy(&pp, &s.env, s.schema)?;
        let mut c = new_compiler();
        let a = { let r = block_on(c.check_never_errors(&wt, &s.symenv)); plain(&mut c, r) };
        let b = { let r = block_on(c.check_always_matches(&wt, &s.symenv)); plain(&mut c, r) };
        let d = { let r = block_on(c.check_never_matches(&wt, &s.symenv)); plain(&mut c, r) };
        Ok::<_, sc::err::Error>([a, b, d])
    })) {
        Ok(Ok(x)) => x,
        Ok(Err(e)) => {
            let m = format!("{e}");
            [K::Error(m.clone()), K::Error(m.clone()), K::Error(m)]
        }
        Err(pn) => {
            let m = format!("panic: {}", crate::c02::panic_msg(pn));
            [K::Error(m.clone()), K::Error(m.clone()), K::Error(m)]
        }
    };
    let _ = s.vschema;
    Some(PolicyRes { effect: p.effect(), outcome, outcome_c, missing, opt, plain: plain_res })
}

/// compare one constant with what concrete evaluation says on the completed store (`expected_c`, must agree) and on
/// the original store (`expected`, a difference is the absent-entity finding); returns whether it diverges
#[allow(clippy::too_many_arguments)]
fn judge(out: &mut Out, compiler: &str, vc: &str, k: &K, expected: bool, expected_c: bool, missing: bool, case: &str, conc: &str) -> bool {
    out.count(&format!("vc:{compiler}:{vc}:{}", k.name()));
    match k {
        K::NonConst(t) => {
            out.propfail(&format!("verification condition does not reduce to a constant ({compiler})"), case, &format!("{vc}: residual {t}; concrete: {conc}"));
            true
        }
        K::Error(m) => {
            out.propfail(&format!("compilation of a strictly valid policy against the literal environment fails ({compiler})"), case, &format!("{vc}: {m}; concrete: {conc}"));
            true
        }
        _ => {
            let holds = *k == K::Holds;
            if holds != expected_c {
                out.propfail("SymCC constant differs from concrete evaluation", case, &format!("{compiler} {vc}: SymCC says {} but concrete evaluation (also on the store completed with default entities) gives {conc} (expected {})", k.name(), K::of(expected_c).name()));
                out.count("divergence:UNEXPLAINED");
                true
            } else if holds != expected {
                if missing {
                    out.propfail("SymCC constant differs from concrete evaluation (an entity absent from the store is dereferenced)", case, &format!("{compiler} {vc}: SymCC says {} but concrete evaluation gives {conc} (expected {}); SymCC agrees with the evaluation on the store completed with default entities", k.name(), K::of(expected).name()));
                    out.count("divergence:missing-deref");
                } else {
                    out.propfail("SymCC constant differs from concrete evaluation", case, &format!("{compiler} {vc}: SymCC says {} but concrete evaluation gives {conc} (expected {}); agrees on the completed store although no absent entity is dereferenced", k.name(), K::of(expected).name()));
                    out.count("divergence:UNEXPLAINED");
                }
                true
            } else {
                false
            }
        }
    }
}

struct SetRes {
    decision: Decision,
    decision_c: Decision,
    opt: [K; 2],
    plain: [K; 2],
}

fn mk_pset(ps: &[&ast::Policy]) -> ast::PolicySet {
    let mut s = ast::PolicySet::new();
    for p in ps {
        s.add((*p).clone()).expect("distinct ids");
    }
    s
}

fn kerr3(m: String) -> [K; 3] {
    [K::Error(m.clone()), K::Error(m.clone()), K::Error(m)]
}
fn kerr2(m: String) -> [K; 2] {
    [K::Error(m.clone()), K::Error(m)]
}

fn enc_block(pols: &[&[K; 3]], sets: &[&[K; 2]], pair: Option<&[K; 3]>, mtch: Option<&[K; 3]>) -> String {
    let p: Vec<String> = pols.iter().map(|k| format!("({} {} {})", k[0].name(), k[1].name(), k[2].name())).collect();
    let s: Vec<String> = sets.iter().map(|k| format!("({} {})", k[0].name(), k[1].name())).collect();
    let tr = |tag: &str, x: Option<&[K; 3]>| match x {
        Some(k) => format!("({tag} {} {} {})", k[0].name(), k[1].name(), k[2].name()),
        None => format!("({tag} -)"),
    };
    format!("(pols{}{}) (sets {}) {} {}", if p.is_empty() { "" } else { " " }, p.join(" "), s.join(" "), tr("pair", pair), tr("match", mtch))
}

/// the whole check for one situation: `policies` (with texts), two index sets
fn situation(out: &mut Out, s: &Sit<'_>, policies: &[(ast::Policy, String)], set1: &[usize], set2: &[usize]) {
    let n = policies.len();
    let mut res: Vec<Option<PolicyRes>> = Vec::with_capacity(n);
    let used: Vec<bool> = (0..n).map(|i| set1.contains(&i) || set2.contains(&i)).collect();
    let mut diverged = vec![false; n];
    for (i, (p, text)) in policies.iter().enumerate() {
        let r = policy_results(out, s, p, text);
        if let Some(r) = &r {
            out.count("policy_evaluations");
            out.count(&format!("concrete:{}", r.outcome.name()));
            if s.target.as_deref() == Some(p.id().as_ref()) { out.count(&format!("concrete-of-targeted-policy:{}", r.outcome.name())); }
            if r.missing { out.count("policy_evaluations_touching_missing_entity"); }
            let exp = expected_policy(r.outcome);
            let exp_c = expected_policy(r.outcome_c);
            if r.outcome != r.outcome_c { out.count("policy_evaluations_changed_by_completion"); }
            let case = format!("{} missing-deref={} policy=`{}`", s.describe, if r.missing { "yes" } else { "no" }, text);
            let conc = if r.outcome == r.outcome_c { r.outcome.name().to_string() } else { format!("{} (completed store: {})", r.outcome.name(), r.outcome_c.name()) };
            for j in 0..3 {
                diverged[i] |= judge(out, "symccopt", PVC[j], &r.opt[j], exp[j], exp_c[j], r.missing, &case, &conc);
                diverged[i] |= judge(out, "symcc", PVC[j], &r.plain[j], exp[j], exp_c[j], r.missing, &case, &conc);
                if r.opt[j].name() != r.plain[j].name() {
                    out.propfail("plain and optimised compilers disagree", &case, &format!("{}: symcc {:?} symccopt {:?}", PVC[j], r.plain[j], r.opt[j]));
                }
            }
            out.nontrivial(&format!("{}|{}|{}", text, s.describe, r.outcome.name()));
        }
        res.push(r);
        let _ = used[i];
    }
    if set1.iter().chain(set2.iter()).any(|&i| res[i].is_none()) {
        return;
    }
    // ---- policy sets
    let sets_idx = [set1, set2];
    let mut sres: Vec<SetRes> = Vec::new();
    let mut compiled: Vec<Option<sc::CompiledPolicySet>> = Vec::new();
    let mut welltyped: Vec<Option<sc::WellTypedPolicies>> = Vec::new();
    let set_text = |idx: &[usize]| idx.iter().map(|&i| policies[i].1.clone()).collect::<Vec<_>>().join(" ");
    let set_missing = |idx: &[usize]| idx.iter().any(|&i| res[i].as_ref().map_or(false, |r| r.missing));
    for idx in sets_idx {
        let refs: Vec<&ast::Policy> = idx.iter().map(|&i| &policies[i].0).collect();
        let core_set = mk_pset(&refs);
        let decision = Authorizer::new().is_authorized(s.req.clone(), &core_set, s.entities).decision;
        out.count(&format!("decision:{decision:?}"));
        let decision_c = match &s.completed {
            None => decision,
            Some(c) => Authorizer::new().is_authorized(s.req.clone(), &core_set, c).decision,
        };
        let pset: cedar_policy::PolicySet = core_set.into();
        let (cps, opt) = match catch_unwind(AssertUnwindSafe(|| sc::CompiledPolicySet::compile_with_custom_symenv(&pset, &s.env, s.schema, s.symenv.clone()))) {
            Ok(Ok(c)) => {
                let o = [classify(sc::always_allows_asserts(&c).asserts()), classify(sc::always_denies_asserts(&c).asserts())];
                (Some(c), o)
            }
            Ok(Err(e)) => (None, kerr2(format!("{e}"))),
            Err(pn) => (None, kerr2(format!("panic: {}", crate::c02::panic_msg(pn)))),
        };
        let (wt, pl) = match catch_unwind(AssertUnwindSafe(|| {
            let wt = sc::WellTypedPolicies::from_policies(&pset, &s.env, s.schema)?;
            let mut c = new_compiler();
            let a = { let r = block_on(c.check_always_allows(&wt, &s.symenv)); plain(&mut c, r) };
            let b = { let r = block_on(c.check_always_denies(&wt, &s.symenv)); plain(&mut c, r) };
            Ok::<_, sc::err::Error>((wt, [a, b]))
        })) {
            Ok(Ok((wt, x))) => (Some(wt), x),
            Ok(Err(e)) => (None, kerr2(format!("{e}"))),
            Err(pn) => (None, kerr2(format!("panic: {}", crate::c02::panic_msg(pn)))),
        };
        compiled.push(cps);
        welltyped.push(wt);
        sres.push(SetRes { decision, decision_c, opt, plain: pl });
    }
    let mut set_div = false;
    for (k, idx) in sets_idx.iter().enumerate() {
        let r = &sres[k];
        let miss = set_missing(idx);
        let case = format!("{} missing-deref={} set{}=[{}]", s.describe, if miss { "yes" } else { "no" }, k + 1, set_text(idx));
        let exp = [r.decision == Decision::Allow, r.decision == Decision::Deny];
        let exp_c = [r.decision_c == Decision::Allow, r.decision_c == Decision::Deny];
        let conc = format!("{:?} (completed store: {:?})", r.decision, r.decision_c);
        for (j, vc) in ["always-allows", "always-denies"].iter().enumerate() {
            set_div |= judge(out, "symccopt", vc, &r.opt[j], exp[j], exp_c[j], miss, &case, &conc);
            set_div |= judge(out, "symcc", vc, &r.plain[j], exp[j], exp_c[j], miss, &case, &conc);
        }
    }
    // ---- pair of sets
    let (d1, d2) = (sres[0].decision == Decision::Allow, sres[1].decision == Decision::Allow);
    let exp_pair = [!d1 || d2, d1 == d2, !(d1 && d2)];
    let (c1, c2) = (sres[0].decision_c == Decision::Allow, sres[1].decision_c == Decision::Allow);
    let exp_pair_c = [!c1 || c2, c1 == c2, !(c1 && c2)];
    let pair_opt: [K; 3] = match (&compiled[0], &compiled[1]) {
        (Some(a), Some(b)) => match catch_unwind(AssertUnwindSafe(|| [
            classify(sc::implies_asserts(a, b).asserts()),
            classify(sc::equivalent_asserts(a, b).asserts()),
            classify(sc::disjoint_asserts(a, b).asserts()),
        ])) {
            Ok(x) => x,
            Err(pn) => kerr3(format!("panic: {}", crate::c02::panic_msg(pn))),
        },
        _ => kerr3("policy set did not compile".into()),
    };
    let pair_plain: [K; 3] = match (&welltyped[0], &welltyped[1]) {
        (Some(a), Some(b)) => match catch_unwind(AssertUnwindSafe(|| {
            let mut c = new_compiler();
            let x = { let r = block_on(c.check_implies(a, b, &s.symenv)); plain(&mut c, r) };
            let y = { let r = block_on(c.check_equivalent(a, b, &s.symenv)); plain(&mut c, r) };
            let z = { let r = block_on(c.check_disjoint(a, b, &s.symenv)); plain(&mut c, r) };
            [x, y, z]
        })) {
            Ok(x) => x,
            Err(pn) => kerr3(format!("panic: {}", crate::c02::panic_msg(pn))),
        },
        _ => kerr3("policy set is not well typed".into()),
    };
    let miss12 = set_missing(set1) || set_missing(set2);
    let case12 = format!("{} missing-deref={} set1=[{}] set2=[{}]", s.describe, if miss12 { "yes" } else { "no" }, set_text(set1), set_text(set2));
    let conc12 = format!("{:?}/{:?} (completed store: {:?}/{:?})", sres[0].decision, sres[1].decision, sres[0].decision_c, sres[1].decision_c);
    for (j, vc) in ["implies", "equivalent", "disjoint"].iter().enumerate() {
        set_div |= judge(out, "symccopt", vc, &pair_opt[j], exp_pair[j], exp_pair_c[j], miss12, &case12, &conc12);
        set_div |= judge(out, "symcc", vc, &pair_plain[j], exp_pair[j], exp_pair_c[j], miss12, &case12, &conc12);
    }
    // ---- policy-level pair (first policy of each set)
    let mut match_opt: Option<[K; 3]> = None;
    let mut match_plain: Option<[K; 3]> = None;
    if let (Some(&i), Some(&j)) = (set1.first(), set2.first()) {
        let (ri, rj) = (res[i].as_ref().unwrap(), res[j].as_ref().unwrap());
        let (s1, s2) = (ri.outcome == Outcome::Sat, rj.outcome == Outcome::Sat);
        let exp = [!s1 || s2, s1 == s2, !(s1 && s2)];
        let (t1, t2) = (ri.outcome_c == Outcome::Sat, rj.outcome_c == Outcome::Sat);
        let exp_c = [!t1 || t2, t1 == t2, !(t1 && t2)];
        let (pi, pj): (cedar_policy::Policy, cedar_policy::Policy) = (policies[i].0.clone().into(), policies[j].0.clone().into());
        let mo = match catch_unwind(AssertUnwindSafe(|| {
            let a = sc::CompiledPolicy::compile_with_custom_symenv(&pi, &s.env, s.schema, s.symenv.clone())?;
            let b = sc::CompiledPolicy::compile_with_custom_symenv(&pj, &s.env, s.schema, s.symenv.clone())?;
            Ok::<_, sc::err::Error>([
                classify(sc::matches_implies_asserts(&a, &b).asserts()),
                classify(sc::matches_equivalent_asserts(&a, &b).asserts()),
                classify(sc::matches_disjoint_asserts(&a, &b).asserts()),
            ])
        })) {
            Ok(Ok(x)) => x,
            Ok(Err(e)) => kerr3(format!("{e}")),
            Err(pn) => kerr3(format!("panic: {}", crate::c02::panic_msg(pn))),
        };
        let mp = match catch_unwind(AssertUnwindSafe(|| {
            let a = sc::WellTypedPolicy::from_policy(&pi, &s.env, s.schema)?;
            let b = sc::WellTypedPolicy::from_policy(&pj, &s.env, s.schema)?;
            let mut c = new_compiler();
            let x = { let r = block_on(c.check_matches_implies(&a, &b, &s.symenv)); plain(&mut c, r) };
            let y = { let r = block_on(c.check_matches_equivalent(&a, &b, &s.symenv)); plain(&mut c, r) };
            let z = { let r = block_on(c.check_matches_disjoint(&a, &b, &s.symenv)); plain(&mut c, r) };
            Ok::<_, sc::err::Error>([x, y, z])
        })) {
            Ok(Ok(x)) => x,
            Ok(Err(e)) => kerr3(format!("{e}")),
            Err(pn) => kerr3(format!("panic: {}", crate::c02::panic_msg(pn))),
        };
        let miss = ri.missing || rj.missing;
        let case = format!("{} missing-deref={} policy1=`{}` policy2=`{}`", s.describe, if miss { "yes" } else { "no" }, policies[i].1, policies[j].1);
        let conc = format!("{}/{} (completed store: {}/{})", ri.outcome.name(), rj.outcome.name(), ri.outcome_c.name(), rj.outcome_c.name());
        for (k, vc) in ["matches-implies", "matches-equivalent", "matches-disjoint"].iter().enumerate() {
            set_div |= judge(out, "symccopt", vc, &mo[k], exp[k], exp_c[k], miss, &case, &conc);
            set_div |= judge(out, "symcc", vc, &mp[k], exp[k], exp_c[k], miss, &case, &conc);
        }
        match_opt = Some(mo);
        match_plain = Some(mp);
    }
    // ---- the model line
    let enc_set = |idx: &[usize]| {
        let xs: Vec<String> = idx.iter().map(|&i| { let r = res[i].as_ref().unwrap(); format!("({} {})", effect_name(r.effect), r.outcome.name()) }).collect();
        format!("(ps{}{})", if xs.is_empty() { "" } else { " " }, xs.join(" "))
    };
    let order: Vec<usize> = set1.iter().chain(set2.iter()).copied().collect();
    let pols_plain: Vec<&[K; 3]> = order.iter().map(|&i| &res[i].as_ref().unwrap().plain).collect();
    let pols_opt: Vec<&[K; 3]> = order.iter().map(|&i| &res[i].as_ref().unwrap().opt).collect();
    let imp = format!(
        "(vc (symcc {}) (symccopt {}))",
        enc_block(&pols_plain, &[&sres[0].plain, &sres[1].plain], Some(&pair_plain), match_plain.as_ref()),
        enc_block(&pols_opt, &[&sres[0].opt, &sres[1].opt], Some(&pair_opt), match_opt.as_ref())
    );
    let any_div = set_div || order.iter().any(|&i| diverged[i]);
    let explained = order.iter().all(|&i| !diverged[i] || res[i].as_ref().unwrap().missing) && (!set_div || miss12);
    let tag = if !any_div { "none" } else if explained { "missing-entity-only" } else { "UNEXPLAINED" };
    out.line(
        format!("(symcc {} {})", enc_set(set1), enc_set(set2)),
        imp,
        format!("{} divergence={} set1=[{}] set2=[{}]", s.describe, tag, set_text(set1), set_text(set2)),
    );
    out.count(&format!("lines:store-{}:divergence-{}", if s.complete_store { "complete" } else { "partial" }, tag));
}

// ------------------------------------------------------------------------------------------------
// building a situation
// ------------------------------------------------------------------------------------------------

#[allow(clippy::too_many_arguments)]
fn make_sit<'a>(out: &mut Out, vschema: &'a ValidatorSchema, schema: &'a cedar_policy::Schema, entities: &'a Entities, req: &'a ast::Request, policies: &[(ast::Policy, String)], describe: String, complete_store: bool) -> Option<Sit<'a>> {
    let (p, a, r) = (req.principal().uid()?, req.action().uid()?, req.resource().uid()?);
    let env = cedar_policy::RequestEnv::new(p.entity_type().clone().into(), a.clone().into(), r.entity_type().clone().into());
    let cenv = sc::Env { request: req.clone().into(), entities: entities.clone().into() };
    let symenv = match catch_unwind(AssertUnwindSafe(|| sc::SymEnv::from_concrete_env(&env, schema, &cenv))) {
        Ok(Ok(e)) => e,
        Ok(Err(e)) => {
            out.propfail("SymEnv::from_concrete_env fails on a conformant request and store", &describe, &format!("{e:?}"));
            return None;
        }
        Err(pn) => {
            out.propfail("panic in SymEnv::from_concrete_env", &describe, &crate::c02::panic_msg(pn));
            return None;
        }
    };
    out.count("literal_environments_built");
    if !symenv.is_literal() {
        out.propfail("the environment built from a concrete request and store is not literal", &describe, "SymEnv::is_literal() = false");
    }
    let completed = match complete(vschema, entities, req, policies) {
        Ok(c) => c,
        Err(m) => {
            out.propfail("harness: cannot complete the store with default entities", &describe, &m);
            return None;
        }
    };
    out.count(if completed.is_some() { "situations:store-needs-completion" } else { "situations:store-closed" });
    Some(Sit { vschema, schema, entities, req, env, symenv, describe, complete_store, completed, target: None })
}

// ------------------------------------------------------------------------------------------------
// the completed store
// ------------------------------------------------------------------------------------------------

fn default_uid(vs: &ValidatorSchema, ety: &ast::EntityType) -> EntityUID {
    let eid: String = match vs.get_entity_type(ety).map(|e| &e.kind) {
        Some(ValidatorEntityTypeKind::Enum(ids)) => ids.iter().map(|e| { let s: &str = e.as_ref(); s.to_string() }).min().unwrap_or_default(),
        _ => String::new(),
    };
    EntityUID::from_components(ety.clone(), ast::Eid::new(eid), None)
}

/// SymCC's `TermType::default_literal` as a Cedar value
fn default_rexpr(vs: &ValidatorSchema, t: &Type) -> Result<RestrictedExpr, String> {
    let call = |f: &str, a: &str| RestrictedExpr::call_extension_fn(f.parse().unwrap(), vec![RestrictedExpr::val(a)]);
    Ok(match t {
        Type::Bool(_) => RestrictedExpr::val(false),
        Type::Long => RestrictedExpr::val(0i64),
        Type::String => RestrictedExpr::val(""),
        Type::Set { .. } => RestrictedExpr::set(Vec::<RestrictedExpr>::new()),
        Type::Record { attrs, .. } => {
            let mut kvs = Vec::new();
            for (k, a) in attrs.iter() {
                if a.is_required {
                    kvs.push((k.clone(), default_rexpr(vs, &a.attr_type)?));
                }
            }
            RestrictedExpr::record(kvs).map_err(|e| format!("{e}"))?
        }
        Type::Entity(EntityKind::Entity(lub)) => match lub.get_single_entity() {
            Some(ety) => RestrictedExpr::val(default_uid(vs, ety)),
            None => return Err(format!("entity type {t} is not a single type")),
        },
        Type::ExtensionType { name } => match name.to_string().as_str() {
            "decimal" => call("decimal", "0.0"),
            "ipaddr" => call("ip", "0.0.0.0"),
            "datetime" => call("datetime", "1970-01-01"),
            "duration" => call("duration", "0ms"),
            n => return Err(format!("no default for extension type {n}")),
        },
        other => return Err(format!("no default for type {other}")),
    })
}

fn uids_of_value(v: &Value, acc: &mut BTreeSet<EntityUID>) {
    match &v.value {
        ValueKind::Lit(Literal::EntityUID(u)) => { acc.insert(u.as_ref().clone()); }
        ValueKind::Set(s) => for x in s.iter() { uids_of_value(x, acc); },
        ValueKind::Record(r) => for (_, x) in r.iter() { uids_of_value(x, acc); },
        _ => {}
    }
}

/// the store plus default entities for every referenced, absent uid of a standard entity type (and `T::""`);
/// `None` when nothing is absent
fn complete(vs: &ValidatorSchema, entities: &Entities, req: &ast::Request, policies: &[(ast::Policy, String)]) -> Result<Option<Entities>, String> {
    let ext = Extensions::all_available();
    let mut refs: BTreeSet<EntityUID> = BTreeSet::new();
    for e in entities.iter() {
        for (_, v) in e.attrs() {
            if let PartialValue::Value(v) = v { uids_of_value(v, &mut refs); }
        }
        for (_, v) in e.tags() {
            if let PartialValue::Value(v) = v { uids_of_value(v, &mut refs); }
        }
        for a in e.ancestors() { refs.insert(a.clone()); }
    }
    for x in [req.principal().uid(), req.resource().uid()].into_iter().flatten() { refs.insert(x.clone()); }
    if let Some(ast::Context::Value(m)) = req.context() {
        for (_, v) in m.iter() { uids_of_value(v, &mut refs); }
    }
    for (p, _) in policies {
        for sub in p.condition().subexpressions() {
            if let ExprKind::Lit(Literal::EntityUID(u)) = sub.expr_kind() { refs.insert(u.as_ref().clone()); }
        }
    }
    let absent = |u: &EntityUID| matches!(entities.entity(u), Dereference::NoSuchEntity);
    let standard = |t: &ast::EntityType| matches!(vs.get_entity_type(t).map(|e| &e.kind), Some(ValidatorEntityTypeKind::Standard(_)));
    let needed: Vec<EntityUID> = refs.iter().filter(|u| standard(u.entity_type()) && absent(u)).cloned().collect();
    if needed.is_empty() {
        return Ok(None);
    }
    // defaults refer to `T::""`
    let mut all: BTreeSet<EntityUID> = needed.into_iter().collect();
    for et in vs.entity_types() {
        if standard(et.name()) {
            let u = default_uid(vs, et.name());
            if absent(&u) { all.insert(u); }
        }
    }
    let mut new = Vec::new();
    for u in all {
        let et = vs.get_entity_type(u.entity_type()).ok_or("undeclared type")?;
        let mut attrs = Vec::new();
        for (k, a) in et.attributes().iter() {
            if a.is_required {
                attrs.push((k.clone(), default_rexpr(vs, &a.attr_type)?));
            }
        }
        let e = ast::Entity::new(u, attrs, HashSet::new(), HashSet::new(), Vec::<(smol_str::SmolStr, RestrictedExpr)>::new(), ext).map_err(|e| format!("{e}"))?;
        new.push(std::sync::Arc::new(e));
    }
    let core = CoreSchema::new(vs);
    entities.clone().add_entities(new, Some(&core), TCComputation::ComputeNow, ext).map(Some).map_err(|e| format!("{e}"))
}

fn parse_policies(texts: &[String]) -> Vec<(ast::Policy, String)> {
    let mut v = Vec::new();
    for (i, t) in texts.iter().enumerate() {
        if let Ok(p) = parser::parse_policy(Some(PolicyID::from_string(format!("p{i}"))), t) {
            v.push((ast::Policy::from(p), t.clone()));
        }
    }
    v
}

/// a uid of type `ty` satisfying the scope constraint `c`, if the constraint names an entity and one exists
fn aim(r: &mut Rng, entities: &Entities, c: &ast::PrincipalOrResourceConstraint, ty: &str) -> Option<gs::Uid> {
    use ast::{EntityReference, PrincipalOrResourceConstraint as C};
    let as_uid = |u: &EntityUID| -> gs::Uid { let e: &str = u.eid().as_ref(); (u.entity_type().to_string(), e.to_string()) };
    match c {
        C::Eq(EntityReference::EUID(u)) if u.entity_type().to_string() == ty => Some(as_uid(u)),
        C::In(EntityReference::EUID(u)) | C::IsIn(_, EntityReference::EUID(u)) => {
            let mut cands: Vec<gs::Uid> = entities.iter().filter(|e| e.uid().entity_type().to_string() == ty && e.is_descendant_of(u)).map(|e| as_uid(e.uid())).collect();
            if u.entity_type().to_string() == ty { cands.push(as_uid(u)); }
            cands.sort();
            if cands.is_empty() { None } else { Some(r.pick(&cands).clone()) }
        }
        _ => None,
    }
}

fn world(out: &mut Out, w: &SchemaWorld, r: &mut Rng, cname: &str, n_policies: usize, n_requests: usize) {
    let ext = Extensions::all_available();
    let complete = r.chance(50);
    let store = gs::gen_store_with(r, &w.spec, if complete { 100 } else { 55 });
    let ents: Vec<ast::Entity> = match store.entities.iter().map(|e| e.to_entity()).collect::<Result<Vec<_>, String>>() {
        Ok(x) => x,
        Err(_) => { out.count("store_not_constructible"); return; }
    };
    let core = CoreSchema::new(&w.schema);
    let entities = match catch_unwind(AssertUnwindSafe(|| Entities::from_entities(ents, Some(&core), TCComputation::ComputeNow, ext))) {
        Ok(Ok(e)) => e,
        _ => { out.count("store_rejected_by_rust_validation"); return; }
    };
    out.count(if complete { "stores:complete" } else { "stores:partial" });
    let store_json = serde_json::Value::Array(store.entities.iter().map(|e| e.to_json()).collect()).to_string();
    let schema: cedar_policy::Schema = w.schema.clone().into();
    // strictly valid static policies, with their target environments
    let opts = GenOpts { templates: false, near_miss_pct: 0, ill_typed_pct: 0, ..GenOpts::default() };
    let mut gps = Vec::new();
    let mut attempts = 0;
    while gps.len() < n_policies && attempts < 20 * n_policies {
        attempts += 1;
        let gp = gt::gen_policy(r, w, &opts);
        if gt::strict_accepts(w, &gp.text) { gps.push(gp); }
    }
    let texts: Vec<String> = gps.iter().map(|g| g.text.clone()).collect();
    let policies = parse_policies(&texts);
    if policies.is_empty() { out.count("world_without_policies"); return; }
    out.add("strictly_valid_policies", policies.len() as u64);
    let present: Vec<&gs::DEntity> = store.entities.iter().collect();
    for k in 0..n_requests {
        let mut aimed = false;
        let mut target: Option<String> = None;
        let mut q = if k % 5 < 3 && !gps.is_empty() {
            let gi = r.below(gps.len());
            target = Some(format!("p{gi}"));
            let g = gps[gi].clone();
            let mut q = gt::gen_request_for(r, &w.spec, g.target.1, &g.target.0, &g.target.2);
            // aim at the policy's scope: `== uid` / `in uid` constraints are met by construction when possible
            if r.chance(70) {
                if let Some((p, _)) = policies.iter().find(|(p, _)| { let id: &str = p.id().as_ref(); id == format!("p{gi}") }) {
                    if let Some(u) = aim(r, &entities, p.template().principal_constraint().as_inner(), &q.principal.0) { q.principal = u; aimed = true; }
                    if let Some(u) = aim(r, &entities, p.template().resource_constraint().as_inner(), &q.resource.0) { q.resource = u; aimed = true; }
                }
            }
            q
        } else {
            gs::gen_request(r, &w.spec)
        };
        // prefer principals / resources that exist (otherwise most partial-store requests hit an absent principal)
        if !complete && !aimed && r.chance(60) {
            let same: Vec<&&gs::DEntity> = present.iter().filter(|e| e.uid.0 == q.principal.0).collect();
            if !same.is_empty() { q.principal = r.pick(&same).uid.clone(); }
            let same: Vec<&&gs::DEntity> = present.iter().filter(|e| e.uid.0 == q.resource.0).collect();
            if !same.is_empty() { q.resource = r.pick(&same).uid.clone(); }
        }
        let (pu, au, ru) = (gs::mk_uid(&q.principal), gs::mk_uid(&q.action), gs::mk_uid(&q.resource));
        let req = match catch_unwind(AssertUnwindSafe(|| ast::Request::new((pu.clone(), None), (au.clone(), None), (ru.clone(), None), q.to_context(), Some(&w.schema), ext))) {
            Ok(Ok(req)) => req,
            _ => { out.count("request_rejected_by_rust_validation"); continue; }
        };
        out.count("requests");
        let describe = format!(
            "{cname} store={} request: p={} a={} r={} ctx={} entities={} schema={}",
            if complete { "complete" } else { "partial" }, gt::uid_text(&q.principal), gt::uid_text(&q.action), gt::uid_text(&q.resource), q.context_json(), store_json, w.json
        );
        let Some(mut sit) = make_sit(out, &w.schema, &schema, &entities, &req, &policies, describe, complete) else { continue };
        sit.target = target;
        // two sets: random subsets (size 0..=3), sometimes related
        let n = policies.len();
        let pick_set = |r: &mut Rng| {
            let mut v: Vec<usize> = Vec::new();
            for _ in 0..r.below(4) {
                let i = r.below(n);
                if !v.contains(&i) { v.push(i); }
            }
            v
        };
        let set1 = pick_set(r);
        let set2 = match r.below(4) {
            0 => set1.clone(),
            1 => { let mut v = set1.clone(); let i = r.below(n); if !v.contains(&i) { v.push(i); } v }
            _ => pick_set(r),
        };
        situation(out, &sit, &policies, &set1, &set2);
    }
    if out.samples.len() < 5 {
        out.sample(format!("{cname}: {} policies, e.g. {}", policies.len(), policies[0].1));
    }
}

/// the minimal absent-entity situation quoted in known_findings.jsonl (C18-absent-entity-default-attributes)
fn probe_minimal(out: &mut Out) {
    let ext = Extensions::all_available();
    let (vschema, _) = ValidatorSchema::from_cedarschema_str("entity User { name: String }; entity Doc; action view appliesTo { principal: User, resource: Doc };", ext).expect("schema");
    let schema: cedar_policy::Schema = vschema.clone().into();
    let pub_ents = cedar_policy::Entities::from_json_value(serde_json::json!([
        {"uid": {"type": "User", "id": "u"}, "attrs": {"name": "n"}, "parents": []},
        {"uid": {"type": "Doc", "id": "d"}, "attrs": {}, "parents": []}
    ]), Some(&schema)).expect("store");
    let entities: &Entities = pub_ents.as_ref();
    let policies = parse_policies(&[
        r#"permit(principal, action, resource) when { User::"ghost".name == "" };"#.to_string(),
        r#"permit(principal, action, resource) when { User::"ghost" has name };"#.to_string(),
        r#"permit(principal, action, resource) when { principal.name == "n" };"#.to_string(),
    ]);
    let req = ast::Request::new(("User::\"u\"".parse().unwrap(), None), ("Action::\"view\"".parse().unwrap(), None), ("Doc::\"d\"".parse().unwrap(), None), ast::Context::empty(), Some(&vschema), ext).expect("request");
    let describe = "minimal probe: p=User::\"u\" a=Action::\"view\" r=Doc::\"d\" ctx={} store=partial entities=[User::\"u\" {name: \"n\"}, Doc::\"d\"] schema=`entity User { name: String }; entity Doc; action view appliesTo { principal: User, resource: Doc };`".to_string();
    if let Some(sit) = make_sit(out, &vschema, &schema, entities, &req, &policies, describe, false) {
        situation(out, &sit, &policies, &[0], &[2]);
        situation(out, &sit, &policies, &[1], &[2]);
        out.add("probe_situations", 2);
    }
}

pub fn run(args: &Args, out: &mut Out) {
    let mut rng = Rng::new(args.seed);
    probes(out);
    probe_minimal(out);
    for case in 0..args.n {
        let mut r = rng.fork();
        let sub = r.0;
        let (w, _) = gs::gen_schema_world(&mut r);
        out.cases += 1;
        let cname = format!("case={case} sub={sub}");
        world(out, &w, &mut r, &cname, 6, 5);
    }
}

// ------------------------------------------------------------------------------------------------
// fixed probes: extension values, tags, optional attributes, hierarchy, action groups, and the minimal
// absent-entity situations
// ------------------------------------------------------------------------------------------------

fn probes(out: &mut Out) {
    let ext = Extensions::all_available();
    let text = r#"
        entity Group in [Group];
        entity User in [Group] { name: String, age?: Long, manager?: User, score: decimal, prefs: { theme?: String, n: Long } } tags Long;
        entity Doc in [Group] { owner: User, labels?: Set<String>, created: datetime };
        entity Color enum ["red", "green"];
        action view, edit appliesTo { principal: User, resource: Doc, context: { ip?: ipaddr, level: Long, ttl: duration, color?: Color } };
        action readOnly;
        action list in [readOnly] appliesTo { principal: User, resource: Group, context: {} };
    "#;
    let (vschema, _) = ValidatorSchema::from_cedarschema_str(text, ext).expect("probe schema");
    let schema: cedar_policy::Schema = vschema.clone().into();
    let store_json = serde_json::json!([
        {"uid": {"type": "Group", "id": "g0"}, "attrs": {}, "parents": []},
        {"uid": {"type": "Group", "id": "g1"}, "attrs": {}, "parents": [{"type": "Group", "id": "g0"}]},
        {"uid": {"type": "User", "id": "alice"}, "attrs": {"name": "alice", "age": 30, "manager": {"__entity": {"type": "User", "id": "bob"}},
            "score": {"__extn": {"fn": "decimal", "arg": "1.5"}}, "prefs": {"theme": "dark", "n": 9223372036854775807i64}},
            "parents": [{"type": "Group", "id": "g1"}], "tags": {"k": 3, "some tag": -1}},
        {"uid": {"type": "User", "id": "bob"}, "attrs": {"name": "", "score": {"__extn": {"fn": "decimal", "arg": "-0.0001"}}, "prefs": {"n": 0},
            "manager": {"__entity": {"type": "User", "id": "ghost"}}}, "parents": [], "tags": {}},
        {"uid": {"type": "Doc", "id": "d"}, "attrs": {"owner": {"__entity": {"type": "User", "id": "alice"}}, "labels": ["x", "y"],
            "created": {"__extn": {"fn": "datetime", "arg": "2024-01-01T00:00:00Z"}}}, "parents": [{"type": "Group", "id": "g1"}]},
        {"uid": {"type": "Doc", "id": "orphan"}, "attrs": {"owner": {"__entity": {"type": "User", "id": "ghost"}},
            "created": {"__extn": {"fn": "datetime", "arg": "1969-12-31"}}}, "parents": []}
    ]);
    let pub_ents = cedar_policy::Entities::from_json_value(store_json.clone(), Some(&schema)).expect("probe store");
    let entities: &Entities = pub_ents.as_ref();
    let policies_src: Vec<String> = [
        r#"permit(principal, action, resource);"#,
        r#"permit(principal, action, resource) when { principal.name == "alice" };"#,
        r#"permit(principal, action, resource) when { principal has age && principal.age + 1 > 18 };"#,
        r#"forbid(principal, action, resource) when { principal.prefs.n + 1 > 0 };"#,
        r#"permit(principal, action == Action::"view", resource) when { resource.owner == principal && resource has labels && resource.labels.contains("x") };"#,
        r#"permit(principal, action, resource) when { principal in Group::"g0" };"#,
        r#"forbid(principal, action in Action::"readOnly", resource);"#,
        r#"permit(principal, action, resource) when { principal.hasTag("k") && principal.getTag("k") < 4 };"#,
        r#"permit(principal, action, resource) when { principal.hasTag("nope") && principal.getTag("nope") == 1 };"#,
        r#"permit(principal, action == Action::"view", resource) when { context has ip && context.ip.isInRange(ip("10.0.0.0/8")) };"#,
        r#"permit(principal, action == Action::"view", resource) when { context.ttl < duration("1h") && resource.created < datetime("2025-01-01") };"#,
        r#"permit(principal, action, resource) when { principal.score.lessThan(decimal("2.0")) };"#,
        r#"permit(principal, action == Action::"view", resource) when { context has color && context.color == Color::"red" };"#,
        r#"permit(principal, action, resource) when { principal has manager && principal.manager.name like "*" };"#,
        r#"permit(principal, action, resource) when { principal has manager.manager && principal.manager.manager.name == "" };"#,
        r#"forbid(principal, action == Action::"view", resource) when { resource.owner.name == "alice" };"#,
        r#"permit(principal, action == Action::"view", resource) when { resource.owner has name };"#,
        r#"permit(principal is User, action, resource) when { User::"ghost".name == "" };"#,
        r#"permit(principal, action, resource) when { User::"ghost" has name };"#,
        r#"permit(principal, action, resource) when { User::"ghost" has age };"#,
        r#"permit(principal, action, resource) when { User::"ghost" in Group::"g0" || User::"ghost".hasTag("k") };"#,
        r#"permit(principal, action == Action::"view", resource) unless { resource.created.offset(context.ttl) > datetime("2024-06-01") };"#,
        // OPERAND STRICTNESS: the operand `(if principal.prefs.n + 1 > 0 then X else X)` overflows for alice (n = i64::MAX) and is
        // X for everyone else, under operators whose answer does not depend on the operand's VALUE (decided by its static type,
        // by a constant, or by the other operand) - the compiled term must still be `none` when the operand errors
        r#"permit(principal, action, resource) when { (if principal.prefs.n + 1 > 0 then principal else principal) is User };"#,
        r#"permit(principal, action == Action::"view", resource) when { (if principal.prefs.n + 1 > 0 then resource else resource) is Doc in Group::"g0" };"#,
        r#"permit(principal, action, resource) when { (if principal.prefs.n + 1 > 0 then principal else principal) has name };"#,
        r#"permit(principal, action, resource) when { (if principal.prefs.n + 1 > 0 then principal.prefs else principal.prefs) has theme || true };"#,
        r#"permit(principal, action, resource) when { (if principal.prefs.n + 1 > 0 then "a" else "b") like "*" };"#,
        r#"permit(principal, action, resource) when { [(if principal.prefs.n + 1 > 0 then 1 else 2)].isEmpty() || (if principal.prefs.n + 1 > 0 then 1 else 2) * 0 == 0 };"#,
        r#"permit(principal, action, resource) when { (if principal.prefs.n + 1 > 0 then true else false) || true };"#,
        r#"forbid(principal, action, resource) when { (if principal.prefs.n + 1 > 0 then true else false) && false };"#,
        r#"permit(principal, action, resource) when { (if principal.prefs.n + 1 > 0 then principal else principal) in Group::"g0" || (if principal.prefs.n + 1 > 0 then principal else principal) == principal };"#,
        r#"permit(principal, action, resource) when { (if principal.prefs.n + 1 > 0 then principal else principal).hasTag("k") || true };"#,
        r#"permit(principal, action, resource) when { if (if principal.prefs.n + 1 > 0 then true else true) then true else true };"#,
        r#"permit(principal, action, resource) when { [principal, (if principal.prefs.n + 1 > 0 then principal else principal)].contains(principal) };"#,
        r#"permit(principal, action, resource) when { {a: (if principal.prefs.n + 1 > 0 then 1 else 2), b: true}.b };"#,
    ]
    .iter()
    .map(|s| s.to_string())
    .collect();
    for t in &policies_src {
        let ok = gt::validate_text(&vschema, t, cedar_policy_core::validator::ValidationMode::Strict).map_or(false, |r| r.validation_passed());
        if !ok {
            out.propfail("probe policy is not strictly valid (harness bug)", t, "");
        }
    }
    let policies = parse_policies(&policies_src);
    let reqs: Vec<(&str, &str, &str, serde_json::Value)> = vec![
        ("User::\"alice\"", "Action::\"view\"", "Doc::\"d\"", serde_json::json!({"ip": {"__extn": {"fn": "ip", "arg": "10.1.2.3"}}, "level": 3, "ttl": {"__extn": {"fn": "duration", "arg": "5m"}}, "color": {"__entity": {"type": "Color", "id": "red"}}})),
        ("User::\"bob\"", "Action::\"view\"", "Doc::\"orphan\"", serde_json::json!({"level": -1, "ttl": {"__extn": {"fn": "duration", "arg": "2d"}}})),
        ("User::\"alice\"", "Action::\"list\"", "Group::\"g0\"", serde_json::json!({})),
        ("User::\"ghost\"", "Action::\"edit\"", "Doc::\"d\"", serde_json::json!({"level": 0, "ttl": {"__extn": {"fn": "duration", "arg": "0ms"}}, "ip": {"__extn": {"fn": "ip", "arg": "::1"}}})),
        ("User::\"alice\"", "Action::\"edit\"", "Doc::\"nodoc\"", serde_json::json!({"level": 0, "ttl": {"__extn": {"fn": "duration", "arg": "-1s"}}})),
    ];
    let n = policies.len();
    for (qi, (p, a, r, ctx)) in reqs.iter().enumerate() {
        let (pu, au, ru): (EntityUID, EntityUID, EntityUID) = (p.parse().unwrap(), a.parse().unwrap(), r.parse().unwrap());
        let context = cedar_policy::Context::from_json_value(ctx.clone(), Some((&schema, &au.clone().into()))).expect("probe context");
        let req = ast::Request::new((pu, None), (au, None), (ru, None), context.as_ref().clone(), Some(&vschema), ext).expect("probe request");
        let describe = format!("probe request {qi}: p={p} a={a} r={r} ctx={ctx} store=partial entities={store_json} schema=<probe schema in harness/src/c18.rs>");
        let Some(sit) = make_sit(out, &vschema, &schema, entities, &req, &policies, describe, false) else { continue };
        // all policies, in pairs of overlapping windows as the two sets
        for k in 0..n {
            let set1: Vec<usize> = vec![k, (k + 1) % n, (k + 5) % n];
            let set2: Vec<usize> = vec![(k + 1) % n, (k + 2) % n];
            // evaluate only the policies of the two sets
            let mut idx: Vec<usize> = set1.iter().chain(set2.iter()).copied().collect();
            idx.sort();
            idx.dedup();
            let sub: Vec<(ast::Policy, String)> = idx.iter().map(|&i| policies[i].clone()).collect();
            let pos = |i: usize| idx.iter().position(|&j| j == i).unwrap();
            let s1: Vec<usize> = set1.iter().map(|&i| pos(i)).collect();
            let s2: Vec<usize> = set2.iter().map(|&i| pos(i)).collect();
            situation(out, &sit, &sub, &s1, &s2);
            out.count("probe_situations");
        }
    }
}

// ------------------------------------------------------------------------------------------------
// stream `c18symc`: the COMPILER FRAGMENT modelled in Lean (Cedar/SymCompile.lean)
// ------------------------------------------------------------------------------------------------
//
// One case = one random expression of the fragment (bool / long / string / entity literals, principal / action /
// resource, ! - && || if == < <= + - *; longs near the i64 bounds so that overflow -> none is frequent) used as the
// `when` clause of a static policy, on a fixed tiny schema and one of four requests.  The only public route to the real
// compiler is `CompiledPolicy::compile_with_custom_symenv` (typechecker, then symccopt/compiler.rs whose term is the
// one of symcc/compiler.rs; the struct derives Debug, its private `term` is read back from `{:?}`), so
//   * only boolean conditions accepted by the strict typechecker are observable (others are counted and skipped);
//   * the impl line is the folded term: `(some (b true))`, `(some (b false))`, `(none)`; anything else is printed
//     as `(nonliteral …)` and diffs;  a CompileError after a successful typecheck is `(reject)`.
// THIRD fragment: set literals of longs / strings / users (duplicates frequent), `contains containsAll containsAny
// isEmpty`, set `==`, an erroring element (`[1, MAX + 1]`); no mixed-type sets (see symc_set_bool).
// Request line: `(symc REQ (etys …) EXPR)` with EXPR = `Policy::condition()` (scope conjuncts `true && …` included).
// S (implementation only): the folded term equals what `Evaluator::evaluate` gives on the same request.

fn symc_long(r: &mut Rng, d: u32) -> String {
    if d == 0 || r.chance(35) {
        let specials: [i64; 10] = [0, 1, -1, 2, 9223372036854775807, -9223372036854775807, 9223372036854775806, 4294967296, 3037000500, -3037000500];
        return if r.chance(60) { format!("{}", specials[r.below(specials.len())]) } else { format!("{}", r.range(-5, 6)) };
    }
    match r.below(6) {
        0 => format!("(-({}))", symc_long(r, d - 1)),
        1 => format!("({} + {})", symc_long(r, d - 1), symc_long(r, d - 1)),
        2 => format!("({} - {})", symc_long(r, d - 1), symc_long(r, d - 1)),
        3 => format!("({} * {})", symc_long(r, d - 1), symc_long(r, d - 1)),
        4 => format!("(if {} then {} else {})", symc_bool(r, d - 1), symc_long(r, d - 1), symc_long(r, d - 1)),
        _ => format!("(-9223372036854775808 + {})", symc_long(r, d - 1)),
    }
}

fn symc_user(r: &mut Rng, d: u32) -> String {
    match r.below(if d == 0 { 3 } else { 4 }) {
        0 => "principal".into(),
        1 => "User::\"a\"".into(),
        2 => "User::\"b\"".into(),
        _ => format!("(if {} then {} else {})", symc_bool(r, d - 1), symc_user(r, d - 1), symc_user(r, d - 1)),
    }
}

fn symc_str(r: &mut Rng, d: u32) -> String {
    match r.below(if d == 0 { 3 } else { 4 }) {
        0 => "\"x\"".into(),
        1 => "\"\"".into(),
        2 => "\"x y\"".into(),
        _ => format!("(if {} then {} else {})", symc_bool(r, d - 1), symc_str(r, d - 1), symc_str(r, d - 1)),
    }
}

/// context atoms (second fragment): required `n: Long`, `flag: Bool`; optional `m?: Long`, `s?: String`, `u?: User`
/// (optional ones behind the documented `has` guards, plus a few unguarded / near-miss forms the typechecker rejects)
fn symc_ctx_bool(r: &mut Rng, d: u32) -> String {
    match r.below(12) {
        0 => "context.flag".into(),
        1 => format!("(context.n < {})", symc_long(r, d)),
        2 => format!("(context has m && context.m + {} < context.n)", symc_long(r, d)),
        3 => "(context has s && context.s == \"x\")".into(),
        4 => "(context has u && context.u == principal)".into(),
        5 => format!("(context has {})", ["m", "s", "u", "n", "flag", "zz"][r.below(6)]),
        6 => format!("(!(context has m) || context.m * {} == context.n)", symc_long(r, d)),
        7 => format!("((if context has m then context.m else context.n) <= {})", symc_long(r, d)),
        8 => "(context == context)".into(),
        9 => format!("(context.n + {} == {})", symc_long(r, d), symc_long(r, d)),
        10 => "(context.flag == (context has s))".into(),
        _ => format!("(context.m < {})", symc_long(r, d)), // unguarded optional: typechecker rejects
    }
}

/// third fragment: a set literal of 1..4 longs / strings / users (small pools, so duplicates are frequent; the strict
/// typechecker rejects `[]` without a type context and mixed-type sets, so none are generated except as planted cases)
fn symc_set(r: &mut Rng, kind: usize, d: u32) -> String {
    let n = 1 + r.below(4);
    let elts: Vec<String> = (0..n).map(|_| symc_elt(r, kind, d)).collect();
    format!("[{}]", elts.join(", "))
}

fn symc_elt(r: &mut Rng, kind: usize, d: u32) -> String {
    match kind {
        0 => if r.chance(70) { format!("{}", r.range(-2, 4)) } else { symc_long(r, d) },
        1 => symc_str(r, d),
        _ => symc_user(r, d),
    }
}

fn symc_set_bool(r: &mut Rng, d: u32) -> String {
    let kind = r.below(3);
    match r.below(9) {
        0 | 1 => format!("{}.contains({})", symc_set(r, kind, d), symc_elt(r, kind, d)),
        2 => format!("{}.containsAll({})", symc_set(r, kind, d), symc_set(r, kind, d)),
        3 => format!("{}.containsAny({})", symc_set(r, kind, d), symc_set(r, kind, d)),
        4 => format!("{}.isEmpty()", symc_set(r, kind, d)),
        5 => format!("({} == {})", symc_set(r, kind, d), symc_set(r, kind, d)),
        6 => { let s = symc_set(r, kind, d); if r.chance(50) { format!("({s} == {s})") } else { format!("{s}.containsAll({s})") } }
        // an erroring element makes the whole set `none`
        7 => format!("[1, 9223372036854775807 + 1, {}].contains({})", symc_long(r, d), symc_long(r, d)),
        // (no planted mixed-type sets: the typechecker DROPS the operand of `&&`/`||` after a guard it types False/True —
        // e.g. `(… && action == Action::"edit") && [1, "x"].contains(0)` on action view — so the compiler never sees the
        // ill-typed set while the model line carries the original condition; such sets are CompileError::TypeError in
        // the model (examples in Thm/C18.lean) and unobservable through the public API)
        _ => format!("!({}.isEmpty())", symc_set(r, kind, d)),
    }
}

fn symc_bool(r: &mut Rng, d: u32) -> String {
    if r.chance(22) {
        return symc_ctx_bool(r, d.min(1));
    }
    if r.chance(18) {
        return symc_set_bool(r, d.min(1));
    }
    if d == 0 {
        return match r.below(4) {
            0 => "true".into(),
            1 => "false".into(),
            2 => format!("(principal == {})", symc_user(r, 0)),
            _ => format!("(action == Action::\"{}\")", if r.chance(50) { "view" } else { "edit" }),
        };
    }
    match r.below(16) {
        0 => format!("!({})", symc_bool(r, d - 1)),
        1 | 2 => format!("({} && {})", symc_bool(r, d - 1), symc_bool(r, d - 1)),
        3 | 4 => format!("({} || {})", symc_bool(r, d - 1), symc_bool(r, d - 1)),
        5 => format!("(if {} then {} else {})", symc_bool(r, d - 1), symc_bool(r, d - 1), symc_bool(r, d - 1)),
        6 | 7 => format!("({} == {})", symc_long(r, d - 1), symc_long(r, d - 1)),
        8 => format!("({} < {})", symc_long(r, d - 1), symc_long(r, d - 1)),
        9 => format!("({} <= {})", symc_long(r, d - 1), symc_long(r, d - 1)),
        10 => format!("({} == {})", symc_user(r, d - 1), symc_user(r, d - 1)),
        11 => format!("({} == {})", symc_str(r, d - 1), symc_str(r, d - 1)),
        12 => format!("({} == {})", symc_bool(r, d - 1), symc_bool(r, d - 1)),
        // `like` on string-typed terms (literal patterns with wildcards / escaped star), optional `context.s` behind its guard
        13 => {
            let pat = ["x*", "*", "", "x y", "*y", "x\\*", "*x*", "?"][r.below(8)];
            if r.chance(30) { format!("(context has s && context.s like \"{pat}\")") } else { format!("({} like \"{pat}\")", symc_str(r, d - 1)) }
        }
        // `is` on entity-typed terms
        14 => match r.below(5) {
            0 => format!("({} is User)", symc_user(r, d - 1)),
            1 => "(principal is Doc)".into(),
            2 => "(resource is Doc)".into(),
            3 => "(context has u && context.u is User)".into(),
            _ => "(action is Action)".into(),
        },
        // planted: mixed types (the strict typechecker rejects these, or folds them away behind a constant guard)
        _ => match r.below(4) {
            0 => format!("({} == {})", symc_long(r, d - 1), symc_str(r, d - 1)),
            1 => format!("((resource == Doc::\"d\") || ({} < 1))", symc_long(r, d - 1)),
            2 => format!("(false && (({} + 1) == {}))", symc_long(r, d - 1), symc_long(r, d - 1)),
            _ => format!("((Color::\"red\" == Color::\"green\") || {})", symc_bool(r, d - 1)),
        },
    }
}

/// the private `term` of a `CompiledPolicy`, read from its derived Debug output (`CompiledPolicy { term: …, symenv: …`)
fn symc_read_term(cp: &sc::CompiledPolicy) -> String {
    let dbg = format!("{cp:?}");
    // the public struct wraps the crate-internal one: `CompiledPolicy { policy: CompiledPolicy { term: …, symenv: …`
    let Some(at) = dbg.find("CompiledPolicy { term: ") else { return format!("(nonliteral {})", crate::out::jstr(&clip(dbg))) };
    let rest = &dbg[at + "CompiledPolicy { term: ".len()..];
    if rest.starts_with("Some(Prim(Bool(true))), symenv:") {
        "(some (b true))".into()
    } else if rest.starts_with("Some(Prim(Bool(false))), symenv:") {
        "(some (b false))".into()
    } else if rest.starts_with("None(") {
        "(none)".into()
    } else {
        let end = rest.find(", symenv:").unwrap_or(rest.len().min(300));
        format!("(nonliteral {})", crate::out::jstr(&rest[..end.min(rest.len())]))
    }
}

pub fn run_symc(args: &Args, out: &mut Out) {
    let ext = Extensions::all_available();
    let text = "entity User; entity Doc; entity Color enum [\"red\", \"green\"]; action view, edit appliesTo { principal: User, resource: Doc, context: { flag: Bool, m?: Long, n: Long, s?: String, u?: User } };";
    let ctxty = "(ctxty (\"flag\" req bool) (\"m\" opt long) (\"n\" req long) (\"s\" opt string) (\"u\" opt (entity \"User\")))";
    let (vschema, _) = ValidatorSchema::from_cedarschema_str(text, ext).expect("symc schema");
    let schema: cedar_policy::Schema = vschema.clone().into();
    let pub_ents = cedar_policy::Entities::from_json_value(serde_json::json!([
        {"uid": {"type": "User", "id": "a"}, "attrs": {}, "parents": []},
        {"uid": {"type": "User", "id": "b"}, "attrs": {}, "parents": []},
        {"uid": {"type": "Doc", "id": "d"}, "attrs": {}, "parents": []}
    ]), Some(&schema)).expect("symc store");
    let entities: &Entities = pub_ents.as_ref();
    let etys = "(etys (std \"User\") (std \"Doc\") (enum \"Color\" \"red\" \"green\") (enum \"Action\" \"view\" \"edit\"))";
    let mut rng = Rng::new(args.seed);
    // fixed cases first (the non-vacuity examples of Thm/C18.lean), then random ones
    let fixed: Vec<String> = vec![
        "if principal == User::\"a\" then 1 + 2 < 4 else !(true && false)".into(),
        "9223372036854775807 + 1 == 0".into(),
        "false && (9223372036854775807 + 1 == 0)".into(),
        "(9223372036854775807 + 1 == 0) || true".into(),
        "-(-9223372036854775807 - 1) == 0".into(),
        "3037000500 * 3037000500 < 0".into(),
        "-9223372036854775808 - 1 < 0".into(),
        "context has m && context.m + 1 < context.n".into(),
        "context has s && context.s == \"x\"".into(),
        "context has zz || context.flag".into(),
        "context == context".into(),
        "(if context has m then context.m else context.n) + 9223372036854775807 < 0".into(),
        "[1, 2, 2, 1].contains(2)".into(),
        "[1, 9223372036854775807 + 1].contains(1)".into(),
        "[3, 1, 2] == [2, 3, 1, 1]".into(),
        "[1, 2].containsAll([2, 2])".into(),
        "[1, 2].containsAll([2, 3])".into(),
        "[\"x\", \"\"].containsAny([\"x y\", \"\"])".into(),
        "[principal, User::\"a\"].contains(User::\"b\")".into(),
        "[1].isEmpty() || [User::\"a\", User::\"b\"] == [User::\"b\", User::\"a\"]".into(),
        "[-1, 1] == [1]".into(),
        "[context.n, 1].contains(context.n)".into(),
    ];
    let total = fixed.len() as u64 + args.n;
    for case in 0..total {
        let mut r = rng.fork();
        let body = if (case as usize) < fixed.len() { fixed[case as usize].clone() } else { let d = 1 + r.below(4) as u32; symc_bool(&mut r, d) };
        let (p, a) = (["a", "b"][r.below(2)], ["view", "edit"][r.below(2)]);
        out.cases += 1;
        let ptext = format!("permit(principal, action, resource) when {{ {body} }};");
        let pols = parse_policies(&[ptext.clone()]);
        let Some((pol, _)) = pols.first() else {
            out.propfail("harness: generated policy does not parse", &ptext, "");
            continue;
        };
        let (pu, au, ru): (EntityUID, EntityUID, EntityUID) = (format!("User::\"{p}\"").parse().unwrap(), format!("Action::\"{a}\"").parse().unwrap(), "Doc::\"d\"".parse().unwrap());
        // the context: required attributes always, each optional one supplied with probability 1/2
        let mut cpairs: Vec<(smol_str::SmolStr, ast::RestrictedExpr)> = vec![
            ("flag".into(), ast::RestrictedExpr::val(r.chance(50))),
            ("n".into(), ast::RestrictedExpr::val([0i64, 1, 5, -3, 9223372036854775807][r.below(5)])),
        ];
        if r.chance(50) { cpairs.push(("m".into(), ast::RestrictedExpr::val([0i64, 1, 4, -9223372036854775807, 9223372036854775807][r.below(5)]))); }
        if r.chance(50) { cpairs.push(("s".into(), ast::RestrictedExpr::val(["x", "y"][r.below(2)]))); }
        if r.chance(50) { cpairs.push(("u".into(), ast::RestrictedExpr::val(format!("User::\"{}\"", ["a", "b"][r.below(2)]).parse::<EntityUID>().unwrap()))); }
        let cdesc = cpairs.iter().map(|(k, v)| format!("{k}: {v}")).collect::<Vec<_>>().join(", ");
        let ctx = ast::Context::from_pairs(cpairs, ext).expect("symc context");
        let req = ast::Request::new((pu.clone(), None), (au.clone(), None), (ru.clone(), None), ctx, Some(&vschema), ext).expect("symc request");
        let env = cedar_policy::RequestEnv::new(pu.entity_type().clone().into(), au.clone().into(), ru.entity_type().clone().into());
        let cenv = sc::Env { request: req.clone().into(), entities: entities.clone().into() };
        let describe = format!("symc case={case} p=User::\"{p}\" a=Action::\"{a}\" r=Doc::\"d\" context={{{cdesc}}} when `{body}`");
        let symenv = match catch_unwind(AssertUnwindSafe(|| sc::SymEnv::from_concrete_env(&env, &schema, &cenv))) {
            Ok(Ok(e)) => e,
            other => {
                out.propfail("SymEnv::from_concrete_env fails on a conformant request and store", &describe, &format!("{:?}", other.map(|r| r.map(|_| ()))));
                continue;
            }
        };
        let pp: cedar_policy::Policy = pol.clone().into();
        let imp = match catch_unwind(AssertUnwindSafe(|| sc::CompiledPolicy::compile_with_custom_symenv(&pp, &env, &schema, symenv.clone()))) {
            Ok(Ok(cp)) => symc_read_term(&cp),
            Ok(Err(sc::err::Error::PolicyNotWellTyped { .. })) => {
                out.count("symc:skipped:typechecker-rejects");
                continue;
            }
            Ok(Err(e)) => {
                out.count("symc:compile-error");
                let _ = e;
                "(reject)".to_string()
            }
            Err(pn) => {
                out.propfail("panic in the symbolic compiler", &describe, &crate::c02::panic_msg(pn));
                continue;
            }
        };
        // S: against the real evaluator
        let ev = Evaluator::new(req.clone(), entities, ext);
        let conc = match catch_unwind(AssertUnwindSafe(|| ev.evaluate(pol))) {
            Ok(Ok(true)) => "(some (b true))",
            Ok(Ok(false)) => "(some (b false))",
            Ok(Err(_)) => "(none)",
            Err(pn) => {
                out.propfail("panic in the evaluator", &describe, &crate::c02::panic_msg(pn));
                continue;
            }
        };
        if imp != conc {
            out.propfail("C18: the compiled condition does not fold to the evaluator's result on the literal environment", &describe, &format!("compiled {imp}, evaluator {conc}"));
        }
        let Some(ex) = crate::sx::expr(&pol.condition()) else {
            out.count("symc:skipped:unprintable");
            continue;
        };
        out.count(&format!("symc:folded:{}", if imp.starts_with("(nonliteral") { "(nonliteral)" } else { imp.as_str() }));
        out.nontrivial(&format!("{body}|{p}|{a}|{cdesc}"));
        if body.contains("context") { out.count("symc:uses-context"); }
        if body.contains('[') { out.count("symc:uses-set"); }
        if out.samples.len() < 5 {
            out.sample(format!("{describe} -> {imp}"));
        }
        let reqsx = crate::sx::request(&pu, &au, &ru, &crate::c14::ctx_value(&req));
        let reqline = format!("(symc {reqsx} {etys} {ctxty} {ex})");
        out.line(reqline, imp, describe);
    }
}
