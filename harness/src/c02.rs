//! C02: expression evaluation — every generated expression is evaluated by the real evaluator through
//! every route the statement names and serialised for the model.
use crate::gen::{self, ExprGen, Ty, World};
use crate::out::Out;
use crate::rng::Rng;
use crate::sx;
use crate::Args;
use cedar_policy_core::ast::{self, Expr, PolicyID, PolicySet, Value};
use cedar_policy_core::authorizer::{Authorizer, Decision};
use cedar_policy_core::evaluator::{EvaluationError, Evaluator};
use cedar_policy_core::extensions::Extensions;
use cedar_policy_core::parser;
use std::collections::HashMap;
use std::panic::{catch_unwind, AssertUnwindSafe};

pub fn eval(w: &World, e: &Expr) -> Result<Result<Value, EvaluationError>, String> {
    catch_unwind(AssertUnwindSafe(|| {
        let ev = Evaluator::new(w.request(), &w.entities, Extensions::all_available());
        ev.interpret(e, &HashMap::new())
    }))
    .map_err(|p| panic_msg(p))
}

pub fn panic_msg(p: Box<dyn std::any::Any + Send>) -> String {
    if let Some(s) = p.downcast_ref::<&str>() {
        s.to_string()
    } else if let Some(s) = p.downcast_ref::<String>() {
        s.clone()
    } else {
        "panic".into()
    }
}

pub fn world_sx(w: &World) -> (String, String) {
    let ctx: Value = match ast::PartialValue::from(w.context.clone()) {
        ast::PartialValue::Value(v) => v,
        _ => panic!("context not a value"),
    };
    (
        sx::request(&w.principal, &w.action, &w.resource, &ctx),
        sx::entities(&w.entities).expect("concrete store"),
    )
}

/// outcome of a policy `permit(principal,action,resource) when/unless { e }` through the authorizer
fn policy_route(w: &World, text: &str, unless: bool) -> Result<String, String> {
    let src = format!(
        "permit(principal, action, resource) {} {{ {} }};",
        if unless { "unless" } else { "when" },
        text
    );
    let p = parser::parse_policy(Some(PolicyID::from_string("p")), &src).map_err(|e| format!("parse: {e}"))?;
    let mut ps = PolicySet::new();
    ps.add_static(p).map_err(|e| format!("add: {e}"))?;
    let resp = catch_unwind(AssertUnwindSafe(|| Authorizer::new().is_authorized(w.request(), &ps, &w.entities)))
        .map_err(panic_msg)?;
    let sat = resp.diagnostics.reason.iter().any(|id| { let s: &str = id.as_ref(); s == "p" });
    let err = !resp.diagnostics.errors.is_empty();
    Ok(match (resp.decision, sat, err) {
        (Decision::Allow, true, false) => "sat".into(),
        (Decision::Deny, false, false) => "unsat".into(),
        (Decision::Deny, false, true) => "err".into(),
        other => format!("inconsistent{other:?}"),
    })
}

fn expected_policy_outcome(r: &Result<Value, EvaluationError>, unless: bool) -> &'static str {
    match r {
        Ok(v) => match &v.value {
            ast::ValueKind::Lit(ast::Literal::Bool(b)) => {
                if *b != unless { "sat" } else { "unsat" }
            }
            _ => "err",
        },
        Err(_) => "err",
    }
}

pub fn one_expr(w: &World, wsx: &(String, String), e0: &Expr, out: &mut Out, tag: &str) {
    let text = e0.to_string();
    let (e1, parsed) = match <Expr as std::str::FromStr>::from_str(&text) {
        Ok(e) => (e, true),
        Err(_) => (e0.clone(), false),
    };
    out.count(if parsed { "route_text_parsed" } else { "route_text_unparseable" });
    let Some(esx) = sx::expr(&e1) else { out.count("outside_protocol"); return };
    let ra = match eval(w, &e1) {
        Ok(r) => r,
        Err(p) => {
            out.propfail("panic in Evaluator::interpret", &text, &p);
            return;
        }
    };
    let obs = sx::result(&ra);
    out.count(&format!("result_{}", match &ra { Ok(_) => "ok".to_string(), Err(e) => sx::err_class(e).to_string() }));
    out.line(format!("(eval {} {} (env) {})", wsx.0, wsx.1, esx), obs.clone(), format!("{tag} {text}"));
    if e1.subexpressions().count() >= 4 {
        out.nontrivial(&format!("{}{}", esx, obs));
    }
    out.sample(format!("{text}  ==>  {obs}"));
    // route: the AST as generated (before printing/parsing) must evaluate identically
    if parsed {
        match eval(w, e0) {
            Ok(r0) => {
                if sx::result(&r0) != obs {
                    out.propfail("print/parse changed evaluation", &text, &format!("generated AST: {} ; parsed: {}", sx::result(&r0), obs));
                }
            }
            Err(p) => out.propfail("panic evaluating generated AST", &text, &p),
        }
    }
    // route: JSON policy (EST) -> AST
    let est: cedar_policy_core::est::Expr = e1.clone().into_expr::<cedar_policy_core::est::Builder>();
    match serde_json::to_value(&est).and_then(serde_json::from_value::<cedar_policy_core::est::Expr>) {
        Ok(est2) => match est2.try_into_ast(&PolicyID::from_string("p")) {
            Ok(e2) => match eval(w, &e2) {
                Ok(r2) => {
                    out.count("route_est");
                    if sx::result(&r2) != obs {
                        out.propfail("EST route evaluates differently", &text, &format!("est: {} ; text: {}", sx::result(&r2), obs));
                    }
                }
                Err(p) => out.propfail("panic evaluating EST-route AST", &text, &p),
            },
            Err(e) => { out.count("route_est_rejected"); let _ = e; }
        },
        Err(_) => out.count("route_est_serde_fail"),
    }
    // route: public API eval_expression
    if parsed {
        use std::str::FromStr;
        if let Ok(pe) = cedar_policy::Expression::from_str(&text) {
            let preq: cedar_policy::Request = w.request().into();
            let pents: cedar_policy::Entities = w.entities.clone().into();
            let r = catch_unwind(AssertUnwindSafe(|| cedar_policy::eval_expression(&preq, &pents, &pe)));
            match r {
                Ok(r) => {
                    out.count("route_api");
                    let same = match (&r, &ra) {
                        (Ok(v), Ok(va)) => *v == cedar_policy::EvalResult::from(va.clone()),
                        (Err(_), Err(_)) => true,
                        _ => false,
                    };
                    if !same {
                        out.propfail("eval_expression differs from Evaluator::interpret", &text, &format!("api: {r:?} ; core: {obs}"));
                    }
                }
                Err(p) => out.propfail("panic in eval_expression", &text, &panic_msg(p)),
            }
        }
    }
    // routes: when / unless clause through the authorizer
    if parsed {
        for unless in [false, true] {
            match policy_route(w, &text, unless) {
                Ok(o) => {
                    out.count("route_policy");
                    let exp = expected_policy_outcome(&ra, unless);
                    if o != exp {
                        out.propfail(
                            if unless { "unless-clause route differs" } else { "when-clause route differs" },
                            &text,
                            &format!("authorizer: {o} ; expected from evaluation {obs}: {exp}"),
                        );
                    }
                }
                Err(m) => {
                    if m.starts_with("parse") { out.count("route_policy_unparseable"); } else { out.propfail("policy route failed", &text, &m); }
                }
            }
        }
    }
}

/// exhaustive: every unary / binary operator on every pair of operand kinds
fn operand_kinds() -> Vec<Expr> {
    use cedar_policy_core::ast::Var;
    let n = |f: &str, s: &str| Expr::call_extension_fn(gen::name(f), vec![Expr::val(s)]);
    vec![
        Expr::val(true), Expr::val(false), Expr::val(0), Expr::val(1), Expr::val(-1), Expr::val(i64::MAX), Expr::val(i64::MIN),
        Expr::val(""), Expr::val("k1"), Expr::val("abc"),
        Expr::val(gen::mk_uid("User", "a")), Expr::val(gen::mk_uid("User", "zz")), Expr::val(gen::mk_uid("Group", "a")),
        Expr::var(Var::Principal), Expr::var(Var::Context),
        Expr::set(vec![]), Expr::set(vec![Expr::val(1), Expr::val(2)]), Expr::set(vec![Expr::val(2), Expr::val(1), Expr::val(1)]),
        Expr::set(vec![Expr::val(gen::mk_uid("User", "a")), Expr::val(gen::mk_uid("Group", "a"))]),
        Expr::set(vec![Expr::val(1), Expr::set(vec![])]),
        Expr::set(vec![Expr::set(vec![Expr::val(1)]), Expr::record(vec![]).unwrap()]),
        Expr::record(vec![]).unwrap(), Expr::record(vec![("n".into(), Expr::val(1))]).unwrap(),
        n("decimal", "1.0"), n("decimal", "1.00"), n("ip", "10.0.0.1"), n("ip", "10.0.0.0/8"), n("ip", "::1"),
        n("datetime", "1970-01-01"), n("datetime", "1969-12-31T23:59:59.999Z"), n("duration", "1d"), n("duration", "-1ms"),
        n("decimal", "bad"), Expr::add(Expr::val(i64::MAX), Expr::val(1)), Expr::get_attr(Expr::val(gen::mk_uid("User", "zz")), "n".into()),
    ]
}

pub fn run(args: &Args, out: &mut Out) {
    let mut rng = Rng::new(args.seed);
    let mut g = ExprGen::new(6);
    // exhaustive operator x operand-kind grid on two worlds
    for wi in 0..2 {
        let mut wr = Rng::new(args.seed.wrapping_add(1000 + wi));
        let w = gen::gen_world(&mut wr);
        let wsx = world_sx(&w);
        let ks = operand_kinds();
        use cedar_policy_core::ast::{BinaryOp, UnaryOp};
        for a in &ks {
            for op in [UnaryOp::Not, UnaryOp::Neg, UnaryOp::IsEmpty] {
                one_expr(&w, &wsx, &Expr::unary_app(op, a.clone()), out, "grid");
                out.cases += 1;
            }
            one_expr(&w, &wsx, &Expr::has_attr(a.clone(), "n".into()), out, "grid");
            one_expr(&w, &wsx, &Expr::get_attr(a.clone(), "n".into()), out, "grid");
            one_expr(&w, &wsx, &Expr::like(a.clone(), gen::gen_pattern(&mut wr)), out, "grid");
            one_expr(&w, &wsx, &Expr::is_entity_type(a.clone(), gen::name("User").into()), out, "grid");
            if wi == 0 || args.thorough {
                for b in &ks {
                    for op in [BinaryOp::Eq, BinaryOp::Less, BinaryOp::LessEq, BinaryOp::Add, BinaryOp::Sub, BinaryOp::Mul, BinaryOp::In,
                               BinaryOp::Contains, BinaryOp::ContainsAll, BinaryOp::ContainsAny, BinaryOp::GetTag, BinaryOp::HasTag] {
                        one_expr(&w, &wsx, &Expr::binary_app(op, a.clone(), b.clone()), out, "grid");
                        out.cases += 1;
                    }
                    one_expr(&w, &wsx, &Expr::and(a.clone(), b.clone()), out, "grid");
                    one_expr(&w, &wsx, &Expr::or(a.clone(), b.clone()), out, "grid");
                    one_expr(&w, &wsx, &Expr::ite(a.clone(), b.clone(), a.clone()), out, "grid");
                }
            }
        }
    }
    out.add("grid_lines", out.req.len() as u64);
    // random typed / ill-typed stream
    let per_world = 10;
    let mut i = 0;
    while i < args.n {
        let mut cr = rng.fork();
        let w = gen::gen_world(&mut cr);
        let wsx = world_sx(&w);
        for _ in 0..per_world {
            let ty = if cr.chance(60) { Ty::Bool } else { *cr.pick(gen::ALL_TYS) };
            let depth = 1 + cr.below(if args.thorough { 7 } else { 5 }) as u32;
            let e = g.gen(&mut cr, ty, depth);
            one_expr(&w, &wsx, &e, out, "rand");
            out.cases += 1;
            i += 1;
        }
    }
    // `like`: exhaustive small scope (all patterns over {a,b,*} up to length 5 x all texts over {a,b} up to length 5)
    // plus self-overlapping / repeated-prefix families, against the declarative matcher, the loop mirror and the
    // index-form mirror (driver op `like`); a sample also goes through every evaluation route.
    {
        use cedar_policy_core::ast::{Pattern, PatternElem};
        let alpha = [PatternElem::Char('a'), PatternElem::Char('b'), PatternElem::Wildcard];
        let mut pats: Vec<Vec<PatternElem>> = vec![vec![]];
        let mut frontier: Vec<Vec<PatternElem>> = vec![vec![]];
        let maxlen = if args.thorough { 6 } else { 5 };
        for _ in 0..maxlen {
            let mut next = Vec::new();
            for p in &frontier { for a in alpha.iter() { let mut q = p.clone(); q.push(*a); next.push(q); } }
            pats.extend(next.iter().cloned());
            frontier = next;
        }
        let mut texts: Vec<String> = vec![String::new()];
        let mut tf: Vec<String> = vec![String::new()];
        for _ in 0..maxlen {
            let mut next = Vec::new();
            for t in &tf { for c in ['a', 'b'] { next.push(format!("{t}{c}")); } }
            texts.extend(next.iter().cloned());
            tf = next;
        }
        let mut lr = Rng::new(args.seed ^ 0x11e);
        let mut like_one = |p: &[PatternElem], text: &str, out: &mut Out, routes: bool| {
            let pat = Pattern::from(p.to_vec());
            match catch_unwind(AssertUnwindSafe(|| pat.wildcard_match(text))) {
                Ok(b) => out.line(format!("(like {} {})", sx::pattern_sx(p), sx::qs(text)), format!("(like {b} {b} {b})"), format!("like {} like {}", sx::qs(text), pat)),
                Err(pn) => out.propfail("panic in Pattern::wildcard_match", &format!("{} like {}", sx::qs(text), pat), &panic_msg(pn)),
            }
            out.count("like_direct");
            if routes { out.count("like_routes"); }
        };
        for p in &pats { for t in &texts { like_one(p, t, out, false); } }
        // repeated-prefix / self-overlapping segments after a star, multi-byte characters
        let chars = ['a', 'b', 'é', '\u{1F600}', '-', '*'];
        let nrep = if args.thorough { 40000 } else { 4000 };
        let w0 = { let mut wr = Rng::new(3); gen::gen_world(&mut wr) };
        let wsx0 = world_sx(&w0);
        for i in 0..nrep {
            let seg_len = 1 + lr.below(4);
            let c0 = *lr.pick(&chars);
            let mut seg: Vec<char> = (0..seg_len).map(|_| if lr.chance(70) { c0 } else { *lr.pick(&chars) }).collect();
            if lr.chance(50) { seg.push(*lr.pick(&chars)); }
            let reps = lr.below(4);
            let mut text: String = std::iter::repeat(c0).take(reps).collect();
            if lr.chance(70) { text.extend(seg.iter()); } else { text.extend(seg.iter().take(seg.len().saturating_sub(1))); }
            if lr.chance(30) { text.push(*lr.pick(&chars)); }
            let mut pat: Vec<PatternElem> = Vec::new();
            if lr.chance(30) { pat.push(PatternElem::Char(c0)); }
            pat.push(PatternElem::Wildcard);
            pat.extend(seg.iter().map(|c| PatternElem::Char(*c)));
            if lr.chance(40) { pat.push(PatternElem::Wildcard); if lr.chance(50) { pat.extend(seg.iter().map(|c| PatternElem::Char(*c))); } }
            like_one(&pat, &text, out, false);
            if i % 8 == 0 {
                one_expr(&w0, &wsx0, &Expr::like(Expr::val(text.as_str()), Pattern::from(pat.clone())), out, "like-rep");
            }
        }
    }
    // `in` against sets holding an entity the left side is in together with junk of every kind
    {
        use cedar_policy_core::ast::Var;
        let mut jr = Rng::new(args.seed ^ 0x1a5e7);
        let nj = if args.thorough { 20 } else { 3 };
        for _ in 0..nj {
            let w = gen::gen_world(&mut jr);
            let wsx = world_sx(&w);
            let junk: Vec<Expr> = vec![
                Expr::val(true), Expr::val(7), Expr::val("s"), Expr::set(vec![]), Expr::set(vec![Expr::val(gen::mk_uid("User", "a"))]),
                Expr::record(vec![("x".into(), Expr::val(1))]).unwrap(),
                Expr::call_extension_fn(gen::name("ip"), vec![Expr::val("10.0.0.1")]),
                Expr::call_extension_fn(gen::name("decimal"), vec![Expr::val("1.0")]),
            ];
            let mut lefts: Vec<Expr> = vec![Expr::var(Var::Principal), Expr::var(Var::Resource), Expr::var(Var::Action)];
            for u in w.uids_present.iter().take(6) { lefts.push(Expr::val(u.clone())); }
            lefts.push(Expr::val(gen::mk_uid("User", "zz")));
            for l in &lefts {
                // candidates on the right: the entity itself, one of its ancestors if any, an unrelated one
                let mut rights: Vec<Expr> = vec![l.clone(), Expr::val(gen::gen_uid(&mut jr))];
                if let Ok(Ok(v)) = eval(&w, l) {
                    if let ast::ValueKind::Lit(ast::Literal::EntityUID(u)) = &v.value {
                        if let cedar_policy_core::entities::Dereference::Data(e) = w.entities.entity(u) {
                            if let Some(a) = e.ancestors().next() { rights.push(Expr::val(a.clone())); }
                        }
                    }
                }
                for rgt in &rights {
                    for j in &junk {
                        for order in 0..2 {
                            let elems = if order == 0 { vec![rgt.clone(), j.clone()] } else { vec![j.clone(), rgt.clone()] };
                            one_expr(&w, &wsx, &Expr::is_in(l.clone(), Expr::set(elems)), out, "in-junk");
                            out.count("in_set_with_junk");
                        }
                    }
                }
            }
        }
    }
    // mirror of `Set` (fast / authoritative): contains, is_subset, is_disjoint, == on generated set pairs
    {
        use cedar_policy_core::ast::{Set, ValueKind};
        let mut sr = Rng::new(args.seed ^ 0x5e7);
        let w = gen::gen_world(&mut sr);
        let nsets = if args.thorough { 20000 } else { 1500 };
        let gen_elem = |r: &mut Rng, w: &World, g: &mut ExprGen| -> Option<Value> {
            let ty = *r.pick(&[Ty::Long, Ty::Long, Ty::Str, Ty::Entity, Ty::Bool, Ty::SetLong, Ty::Record, Ty::Decimal, Ty::Ip]);
            let e = g.leaf(r, ty);
            eval(w, &e).ok().and_then(|x| x.ok())
        };
        for _ in 0..nsets {
            let mut mk = |r: &mut Rng, g: &mut ExprGen| -> Vec<Value> {
                let n = r.below(5);
                let lits_only = r.chance(50);
                let mut v = Vec::new();
                for _ in 0..n {
                    let x = if lits_only { Value::from(r.range(0, 4)) } else { match gen_elem(r, &w, g) { Some(x) => x, None => Value::from(1) } };
                    v.push(x);
                }
                v
            };
            let xs = mk(&mut sr, &mut g);
            let ys = if sr.chance(30) { let mut y = xs.clone(); if sr.chance(50) { y.reverse(); } if sr.chance(50) && !y.is_empty() { y.pop(); } y } else { mk(&mut sr, &mut g) };
            let v = if sr.chance(50) && !xs.is_empty() { xs[sr.below(xs.len())].clone() } else { gen_elem(&mut sr, &w, &mut g).unwrap_or(Value::from(0)) };
            let s1 = Set::new(xs.clone());
            let s2: Set = ys.iter().cloned().collect(); // FromIterator path
            let vs1 = Value::new(ValueKind::Set(s1.clone()), None);
            let vs2 = Value::new(ValueKind::Set(s2.clone()), None);
            let obs = format!("(setop {} {} {} {} {} {})", s1.contains(&v), s1.is_subset(&s2), s1.is_disjoint(&s2), s1 == s2, s1.fast.is_some(), s1.len());
            out.line(format!("(setop {} {} {})", sx::value(&vs1), sx::value(&vs2), sx::value(&v)), obs, "setop".into());
            out.count("setop");
        }
    }
    for (k, v) in g.op_hist.iter() {
        out.add(&format!("op_{k}"), *v);
    }
    if let Ok(mut l) = crate::gen::CLOSURE_MISMATCH.lock() {
        for m in l.drain(..) {
            out.propfail("`in` on a store built by an add_entities history: ancestor set differs from parent reachability", "gen_world", &m);
        }
    }
}
