//! SCHEMA WORLD (shared by C11, C03, C14–C18): random *schemas*, data *conforming* to them and
//! *single-fault mutations* of conformant data.  All randomness from `Rng`.
//!
//! Layers
//!  * `SchemaSpec` (+ `ETypeSpec`, `ActionSpec`, `AttrSpec`, `STy`): the abstract schema the generator chose.
//!    `SchemaSpec::to_json()` renders it as a Cedar JSON schema; `load()` feeds that to the real
//!    `ValidatorSchema::from_json_value` and renders the Cedar-syntax form through the library.
//!  * `DVal`, `DEntity`, `DRequest`: plain data trees (so that a fault can be planted at any nesting depth)
//!    convertible to the real objects (`to_rexpr`, `to_entity`, `to_context`) and to Cedar entity/context JSON
//!    (`to_json`, always with explicit `__entity` / `__extn` escapes).
//!  * `gen_store`, `gen_request`: conformant store / request for a `SchemaSpec`.
//!  * `mutate_entity`, `mutate_request`: one violation of one class (`Fault`) planted in conformant data.
//!
//! Names are unique across namespaces (no RFC-70 shadowing) and every type reference in the JSON is fully
//! qualified, so the spec's qualified names are exactly the names of the resolved schema.
use crate::gen;
use crate::rng::Rng;
use cedar_policy_core::ast::{Context, Entity, EntityUID, RestrictedExpr};
use cedar_policy_core::extensions::Extensions;
use cedar_policy_core::validator::json_schema;
use cedar_policy_core::validator::{RawName, ValidatorSchema};
use serde_json::{json, Map, Value as J};
use smol_str::SmolStr;
use std::collections::{BTreeMap, BTreeSet, HashSet};

// ------------------------------------------------------------------------------------------------
// schema specification
// ------------------------------------------------------------------------------------------------

/// schema-level type (what a JSON schema can express)
#[derive(Clone, Debug, PartialEq)]
pub enum STy {
    Bool,
    Long,
    Str,
    Set(Box<STy>),
    Record(Vec<AttrSpec>),
    /// fully qualified entity type name
    Entity(String),
    /// `decimal` | `ipaddr` | `datetime` | `duration`
    Ext(&'static str),
    /// reference to a common type (qualified name) together with its definition
    Common(String, Box<STy>),
}

#[derive(Clone, Debug, PartialEq)]
pub struct AttrSpec {
    pub name: String,
    pub ty: STy,
    pub required: bool,
}

#[derive(Clone, Debug)]
pub struct ETypeSpec {
    /// fully qualified name, e.g. `NS::User`
    pub name: String,
    pub ns: String,
    pub base: String,
    /// direct `memberOfTypes` (qualified)
    pub member_of: Vec<String>,
    pub attrs: Vec<AttrSpec>,
    pub tags: Option<STy>,
    /// `Some` for enumerated entity types (then no attrs/tags/member_of)
    pub enum_ids: Option<Vec<String>>,
}

#[derive(Clone, Debug)]
pub struct ActionSpec {
    pub ns: String,
    pub id: String,
    /// direct `memberOf` (indices into `SchemaSpec::actions`, always smaller than the own index)
    pub member_of: Vec<usize>,
    /// `None` for pure action groups
    pub applies: Option<AppliesSpec>,
}

#[derive(Clone, Debug)]
pub struct AppliesSpec {
    pub principals: Vec<String>,
    pub resources: Vec<String>,
    pub context: Vec<AttrSpec>,
    /// render the context as a reference to this common type (whose definition is `Record(context)`)
    pub context_common: Option<String>,
}

#[derive(Clone, Debug)]
pub struct CommonSpec {
    pub ns: String,
    pub base: String,
    pub ty: STy,
}

#[derive(Clone, Debug)]
pub struct SchemaSpec {
    /// "" is the empty namespace
    pub namespaces: Vec<String>,
    pub etypes: Vec<ETypeSpec>,
    pub actions: Vec<ActionSpec>,
    pub commons: Vec<CommonSpec>,
}

pub fn qualify(ns: &str, base: &str) -> String {
    if ns.is_empty() { base.to_string() } else { format!("{ns}::{base}") }
}

impl STy {
    /// definition with common-type references unfolded at the top
    pub fn resolved(&self) -> &STy {
        match self {
            STy::Common(_, t) => t.resolved(),
            t => t,
        }
    }
}

impl ActionSpec {
    pub fn ty(&self) -> String {
        qualify(&self.ns, "Action")
    }
    pub fn uid(&self) -> (String, String) {
        (self.ty(), self.id.clone())
    }
}

const NAMESPACES: &[&str] = &["NS", "A::B"];
const ETYPE_NAMES: &[&str] = &["User", "Group", "Doc", "Folder", "Team"];
const ENUM_NAMES: &[&str] = &["Color", "Level"];
const ENUM_IDS: &[&str] = &["red", "green", "blue", "x y", "e\"q", "\u{1F600}"];
const ACTION_IDS: &[&str] = &["view", "edit", "delete", "share", "list all"];
const GROUP_IDS: &[&str] = &["readOnly", "write", "all"];
pub const ATTR_NAMES: &[&str] = &["a", "b", "n", "s", "flag", "ref", "items", "rec", "d", "ip", "t", "du", "has space", "if"];
pub const EIDS: &[&str] = &["a", "b", "c", "d"];
const EXTS: &[&'static str] = &["decimal", "ipaddr", "datetime", "duration"];

struct TyGen<'a> {
    /// entity types that may be referenced (qualified names)
    etypes: &'a [String],
    /// the enumerated ones among them
    enums: &'a [String],
    commons: &'a [(String, STy)],
}

impl TyGen<'_> {
    fn gen(&self, r: &mut Rng, depth: u32) -> STy {
        if !self.commons.is_empty() && r.chance(12) {
            let (n, t) = r.pick(self.commons);
            return STy::Common(n.clone(), Box::new(t.clone()));
        }
        let k = if depth == 0 { r.below(8) } else { r.below(13) };
        match k {
            0 => STy::Bool,
            1 | 2 => STy::Long,
            3 => STy::Str,
            4 | 5 => {
                let enums: Vec<&String> = self.etypes.iter().filter(|t| self.enums.contains(t)).collect();
                if !enums.is_empty() && r.chance(45) { STy::Entity((*r.pick(&enums)).clone()) } else { STy::Entity(r.pick(self.etypes).clone()) }
            }
            6 | 7 => STy::Ext(*r.pick(EXTS)),
            8 | 9 => STy::Set(Box::new(self.gen(r, depth - 1))),
            _ => STy::Record(self.gen_attrs(r, depth - 1, 3)),
        }
    }
    fn gen_attrs(&self, r: &mut Rng, depth: u32, max: usize) -> Vec<AttrSpec> {
        let n = r.below(max + 1);
        let mut names: Vec<&str> = Vec::new();
        while names.len() < n {
            let a = *r.pick(ATTR_NAMES);
            if !names.contains(&a) {
                names.push(a);
            }
        }
        names.sort();
        names
            .into_iter()
            .map(|a| AttrSpec { name: a.to_string(), ty: self.gen(r, depth), required: r.chance(60) })
            .collect()
    }
}

/// 2–5 entity types (some enumerated), 2–5 actions + 0–2 groups, 0–2 namespaces besides/instead of the empty one,
/// 0–2 common types
pub fn gen_schema_spec(r: &mut Rng) -> SchemaSpec {
    // namespaces: 0 → only "", 1 → one of {"" + NS, NS alone}, 2 → two of "", NS, A::B
    let namespaces: Vec<String> = match r.below(4) {
        0 => vec!["".into()],
        1 => vec![(*r.pick(NAMESPACES)).to_string()],
        2 => vec!["".into(), (*r.pick(NAMESPACES)).to_string()],
        _ => vec![NAMESPACES[0].into(), NAMESPACES[1].into()],
    };
    let n_std = 2 + r.below(3);
    let n_enum = if r.chance(65) { 1 + r.below(2) } else { 0 };
    let mut etypes: Vec<ETypeSpec> = Vec::new();
    for i in 0..n_std {
        let ns = r.pick(&namespaces).clone();
        let base = ETYPE_NAMES[i].to_string();
        etypes.push(ETypeSpec { name: qualify(&ns, &base), ns, base, member_of: vec![], attrs: vec![], tags: None, enum_ids: None });
    }
    for i in 0..n_enum {
        let ns = r.pick(&namespaces).clone();
        let base = ENUM_NAMES[i].to_string();
        let k = 1 + r.below(3);
        let mut ids: Vec<String> = Vec::new();
        while ids.len() < k {
            let c = (*r.pick(ENUM_IDS)).to_string();
            if !ids.contains(&c) {
                ids.push(c);
            }
        }
        etypes.push(ETypeSpec { name: qualify(&ns, &base), ns, base, member_of: vec![], attrs: vec![], tags: None, enum_ids: Some(ids) });
    }
    let all_names: Vec<String> = etypes.iter().map(|e| e.name.clone()).collect();
    let enum_names: Vec<String> = etypes.iter().filter(|e| e.enum_ids.is_some()).map(|e| e.name.clone()).collect();
    // common types (may reference entity types; the second may reference the first)
    let mut commons: Vec<CommonSpec> = Vec::new();
    let mut common_defs: Vec<(String, STy)> = Vec::new();
    let n_common = r.below(3);
    for i in 0..n_common {
        let ns = r.pick(&namespaces).clone();
        let base = format!("CT{i}");
        let tg = TyGen { etypes: &all_names, enums: &enum_names, commons: &common_defs };
        let ty = if r.chance(50) { STy::Record(tg.gen_attrs(r, 1, 3)) } else { tg.gen(r, 1) };
        common_defs.push((qualify(&ns, &base), ty.clone()));
        commons.push(CommonSpec { ns, base, ty });
    }
    // memberOfTypes: a standard type i may be a member of standard types j >= i (self loops allowed, e.g. Group in Group)
    // and of enumerated types (enumerated types cannot have parents themselves)
    for i in 0..n_std {
        for j in i..etypes.len() {
            let p = if j == i { 20 } else { 35 };
            if r.chance(p) {
                let n = etypes[j].name.clone();
                etypes[i].member_of.push(n);
            }
        }
    }
    // shapes and tags
    for i in 0..n_std {
        let tg = TyGen { etypes: &all_names, enums: &enum_names, commons: &common_defs };
        etypes[i].attrs = tg.gen_attrs(r, 2, 5);
        if r.chance(45) {
            etypes[i].tags = Some(tg.gen(r, 1));
        }
    }
    // actions: groups first so that memberOf only points to smaller indices
    let mut actions: Vec<ActionSpec> = Vec::new();
    let n_groups = r.below(3);
    let n_actions = 2 + r.below(4);
    for i in 0..n_groups {
        let ns = r.pick(&namespaces).clone();
        let mut member_of = Vec::new();
        for j in 0..i {
            if r.chance(50) {
                member_of.push(j);
            }
        }
        actions.push(ActionSpec { ns, id: GROUP_IDS[i].to_string(), member_of, applies: None });
    }
    for i in 0..n_actions {
        let ns = r.pick(&namespaces).clone();
        let mut member_of = Vec::new();
        for j in 0..actions.len() {
            if r.chance(35) {
                member_of.push(j);
            }
        }
        let tg = TyGen { etypes: &all_names, enums: &enum_names, commons: &common_defs };
        let pick_types = |r: &mut Rng| -> Vec<String> {
            let mut v: Vec<String> = Vec::new();
            let k = 1 + r.below(2);
            while v.len() < k.min(all_names.len()) {
                let t = r.pick(&all_names).clone();
                if !v.contains(&t) {
                    v.push(t);
                }
            }
            v
        };
        let principals = pick_types(r);
        let resources = pick_types(r);
        // context: fresh record, or a common type that is a record
        let rec_commons: Vec<&(String, STy)> = common_defs.iter().filter(|(_, t)| matches!(t.resolved(), STy::Record(_))).collect();
        let (context, context_common) = if !rec_commons.is_empty() && r.chance(25) {
            let (n, t) = *r.pick(&rec_commons);
            match t.resolved() {
                STy::Record(a) => (a.clone(), Some(n.clone())),
                _ => unreachable!(),
            }
        } else {
            (tg.gen_attrs(r, 2, 4), None)
        };
        actions.push(ActionSpec { ns, id: ACTION_IDS[i].to_string(), member_of, applies: Some(AppliesSpec { principals, resources, context, context_common }) });
    }
    SchemaSpec { namespaces, etypes, actions, commons }
}

fn ty_json(t: &STy) -> J {
    match t {
        STy::Bool => json!({"type": "Boolean"}),
        STy::Long => json!({"type": "Long"}),
        STy::Str => json!({"type": "String"}),
        STy::Set(e) => json!({"type": "Set", "element": ty_json(e)}),
        STy::Record(attrs) => json!({"type": "Record", "attributes": attrs_json(attrs)}),
        STy::Entity(n) => json!({"type": "Entity", "name": n}),
        STy::Ext(n) => json!({"type": "Extension", "name": n}),
        STy::Common(n, _) => json!({"type": n}),
    }
}

fn attrs_json(attrs: &[AttrSpec]) -> J {
    let mut m = Map::new();
    for a in attrs {
        let mut t = ty_json(&a.ty);
        if !a.required {
            t.as_object_mut().unwrap().insert("required".into(), J::Bool(false));
        }
        m.insert(a.name.clone(), t);
    }
    J::Object(m)
}

impl SchemaSpec {
    pub fn etype(&self, name: &str) -> Option<&ETypeSpec> {
        self.etypes.iter().find(|e| e.name == name)
    }
    pub fn action(&self, ty: &str, id: &str) -> Option<(usize, &ActionSpec)> {
        self.actions.iter().enumerate().find(|(_, a)| a.ty() == ty && a.id == id)
    }
    /// transitive closure of `memberOfTypes`: the types an entity of type `name` may have as ancestors
    pub fn allowed_ancestor_types(&self, name: &str) -> Vec<String> {
        let mut seen: BTreeSet<String> = BTreeSet::new();
        let mut todo: Vec<String> = self.etype(name).map(|e| e.member_of.clone()).unwrap_or_default();
        while let Some(t) = todo.pop() {
            if seen.insert(t.clone()) {
                if let Some(e) = self.etype(&t) {
                    todo.extend(e.member_of.iter().cloned());
                }
            }
        }
        seen.into_iter().collect()
    }
    /// all (transitive) ancestors of action `i` (indices)
    pub fn action_ancestors(&self, i: usize) -> Vec<usize> {
        let mut seen: BTreeSet<usize> = BTreeSet::new();
        let mut todo: Vec<usize> = self.actions[i].member_of.clone();
        while let Some(t) = todo.pop() {
            if seen.insert(t) {
                todo.extend(self.actions[t].member_of.iter().cloned());
            }
        }
        seen.into_iter().collect()
    }

    /// the Cedar JSON schema
    pub fn to_json(&self) -> J {
        let mut top = Map::new();
        for ns in &self.namespaces {
            let mut ets = Map::new();
            for e in self.etypes.iter().filter(|e| &e.ns == ns) {
                let v = match &e.enum_ids {
                    Some(ids) => json!({"enum": ids}),
                    None => {
                        let mut m = Map::new();
                        m.insert("memberOfTypes".into(), json!(e.member_of));
                        m.insert("shape".into(), json!({"type": "Record", "attributes": attrs_json(&e.attrs)}));
                        if let Some(t) = &e.tags {
                            m.insert("tags".into(), ty_json(t));
                        }
                        J::Object(m)
                    }
                };
                ets.insert(e.base.clone(), v);
            }
            let mut acts = Map::new();
            for a in self.actions.iter().filter(|a| &a.ns == ns) {
                let mut m = Map::new();
                if !a.member_of.is_empty() {
                    let ps: Vec<J> = a.member_of.iter().map(|&j| json!({"id": self.actions[j].id, "type": self.actions[j].ty()})).collect();
                    m.insert("memberOf".into(), J::Array(ps));
                }
                if let Some(ap) = &a.applies {
                    let ctx = match &ap.context_common {
                        Some(n) => json!({"type": n}),
                        None => json!({"type": "Record", "attributes": attrs_json(&ap.context)}),
                    };
                    m.insert("appliesTo".into(), json!({"principalTypes": ap.principals, "resourceTypes": ap.resources, "context": ctx}));
                }
                acts.insert(a.id.clone(), J::Object(m));
            }
            let mut cts = Map::new();
            for c in self.commons.iter().filter(|c| &c.ns == ns) {
                cts.insert(c.base.clone(), ty_json(&c.ty));
            }
            top.insert(ns.clone(), json!({"commonTypes": cts, "entityTypes": ets, "actions": acts}));
        }
        J::Object(top)
    }
}

/// a generated schema loaded by the real code
pub struct SchemaWorld {
    pub spec: SchemaSpec,
    pub json: J,
    /// Cedar-syntax rendering by the library (`Fragment::to_cedarschema`), when it succeeds
    pub cedar_text: Option<String>,
    pub schema: ValidatorSchema,
}

/// load the spec through `ValidatorSchema::from_json_value`; `Err(message)` if the real loader rejects it
pub fn load(spec: SchemaSpec) -> Result<SchemaWorld, String> {
    let json = spec.to_json();
    let schema = ValidatorSchema::from_json_value(json.clone(), Extensions::all_available()).map_err(|e| format!("{e}"))?;
    let cedar_text = json_schema::Fragment::<RawName>::from_json_value(json.clone()).ok().and_then(|f| f.to_cedarschema().ok());
    Ok(SchemaWorld { spec, json, cedar_text, schema })
}

/// generate until the real loader accepts (it always should; the number of rejected attempts is returned)
pub fn gen_schema_world(r: &mut Rng) -> (SchemaWorld, u32) {
    let mut rejected = 0;
    loop {
        let spec = gen_schema_spec(r);
        match load(spec) {
            Ok(w) => return (w, rejected),
            Err(e) => {
                rejected += 1;
                if rejected > 20 {
                    panic!("schema generator keeps producing rejected schemas: {e}");
                }
            }
        }
    }
}

// ------------------------------------------------------------------------------------------------
// data
// ------------------------------------------------------------------------------------------------

pub type Uid = (String, String);

#[derive(Clone, Debug, PartialEq)]
pub enum DVal {
    Bool(bool),
    Long(i64),
    Str(String),
    Ent(String, String),
    Set(Vec<DVal>),
    Rec(Vec<(String, DVal)>),
    /// constructor function (`decimal` | `ip` | `datetime` | `duration`) and its string argument
    Ext(&'static str, String),
}

pub fn mk_uid(u: &Uid) -> EntityUID {
    gen::mk_uid(&u.0, &u.1)
}

impl DVal {
    pub fn to_rexpr(&self) -> RestrictedExpr {
        match self {
            DVal::Bool(b) => RestrictedExpr::val(*b),
            DVal::Long(i) => RestrictedExpr::val(*i),
            DVal::Str(s) => RestrictedExpr::val(s.as_str()),
            DVal::Ent(t, i) => RestrictedExpr::val(gen::mk_uid(t, i)),
            DVal::Set(xs) => RestrictedExpr::set(xs.iter().map(|x| x.to_rexpr()).collect::<Vec<_>>()),
            DVal::Rec(kvs) => RestrictedExpr::record(kvs.iter().map(|(k, v)| (SmolStr::from(k.as_str()), v.to_rexpr())).collect::<Vec<_>>()).expect("unique keys"),
            DVal::Ext(f, a) => RestrictedExpr::call_extension_fn(gen::name(f), vec![RestrictedExpr::val(a.as_str())]),
        }
    }
    /// Cedar entity/context JSON with explicit escapes
    pub fn to_json(&self) -> J {
        match self {
            DVal::Bool(b) => J::Bool(*b),
            DVal::Long(i) => json!(i),
            DVal::Str(s) => J::String(s.clone()),
            DVal::Ent(t, i) => json!({"__entity": {"type": t, "id": i}}),
            DVal::Set(xs) => J::Array(xs.iter().map(|x| x.to_json()).collect()),
            DVal::Rec(kvs) => J::Object(kvs.iter().map(|(k, v)| (k.clone(), v.to_json())).collect()),
            DVal::Ext(f, a) => json!({"__extn": {"fn": f, "arg": a}}),
        }
    }
    /// nesting depth (0 for leaves)
    pub fn depth(&self) -> u32 {
        match self {
            DVal::Set(xs) => 1 + xs.iter().map(|x| x.depth()).max().unwrap_or(0),
            DVal::Rec(kvs) => 1 + kvs.iter().map(|(_, v)| v.depth()).max().unwrap_or(0),
            _ => 0,
        }
    }
}

#[derive(Clone, Debug, PartialEq)]
pub struct DEntity {
    pub uid: Uid,
    pub attrs: Vec<(String, DVal)>,
    /// the ancestors as given to the entry point (for stores: direct parents; for action entities: all ancestors)
    pub parents: Vec<Uid>,
    pub tags: Vec<(String, DVal)>,
}

impl DEntity {
    /// `Err` if `Entity::new` itself rejects (e.g. an action with a non-action parent)
    pub fn to_entity(&self) -> Result<Entity, String> {
        Entity::new(
            mk_uid(&self.uid),
            self.attrs.iter().map(|(k, v)| (SmolStr::from(k.as_str()), v.to_rexpr())),
            HashSet::new(),
            self.parents.iter().map(mk_uid).collect(),
            self.tags.iter().map(|(k, v)| (SmolStr::from(k.as_str()), v.to_rexpr())),
            Extensions::all_available(),
        )
        .map_err(|e| format!("{e}"))
    }
    pub fn to_json(&self) -> J {
        let kv = |kvs: &Vec<(String, DVal)>| J::Object(kvs.iter().map(|(k, v)| (k.clone(), v.to_json())).collect());
        json!({
            "uid": {"type": self.uid.0, "id": self.uid.1},
            "attrs": kv(&self.attrs),
            "parents": self.parents.iter().map(|p| json!({"type": p.0, "id": p.1})).collect::<Vec<_>>(),
            "tags": kv(&self.tags),
        })
    }
}

#[derive(Clone, Debug, PartialEq)]
pub struct DRequest {
    pub principal: Uid,
    pub action: Uid,
    pub resource: Uid,
    pub context: Vec<(String, DVal)>,
}

impl DRequest {
    pub fn to_context(&self) -> Context {
        Context::from_pairs(self.context.iter().map(|(k, v)| (SmolStr::from(k.as_str()), v.to_rexpr())), Extensions::all_available()).expect("context")
    }
    pub fn context_json(&self) -> J {
        J::Object(self.context.iter().map(|(k, v)| (k.clone(), v.to_json())).collect())
    }
}

/// strings that are not a valid literal of any extension type (so that a string at an extension-typed slot is
/// a type fault through the JSON route too, where strings are implicit constructor arguments)
const PLAIN_STRINGS: &[&str] = &["", "zz!", "hello world", "a\"b", "\u{1F600}x", "not-a-value"];

fn ext_fn(ext_ty: &str) -> &'static str {
    match ext_ty {
        "decimal" => "decimal",
        "ipaddr" => "ip",
        "datetime" => "datetime",
        _ => "duration",
    }
}

fn gen_ext(r: &mut Rng, ext_ty: &str) -> DVal {
    match ext_ty {
        "decimal" => DVal::Ext("decimal", (*r.pick(gen::DECIMALS_OK)).to_string()),
        "ipaddr" => DVal::Ext("ip", (*r.pick(gen::IPS_OK)).to_string()),
        "datetime" => DVal::Ext("datetime", (*r.pick(gen::DATETIMES_OK)).to_string()),
        _ => DVal::Ext("duration", (*r.pick(gen::DURATIONS_OK)).to_string()),
    }
}

/// a uid of the given (declared) type that is valid for it (enumerated types: one of the choices)
pub fn gen_uid_of(r: &mut Rng, spec: &SchemaSpec, ty: &str) -> Uid {
    match spec.etype(ty).and_then(|e| e.enum_ids.as_ref()) {
        Some(ids) => (ty.to_string(), r.pick(ids).clone()),
        None => (ty.to_string(), (*r.pick(EIDS)).to_string()),
    }
}

/// a value conforming to `ty`
pub fn gen_dval(r: &mut Rng, spec: &SchemaSpec, ty: &STy) -> DVal {
    match ty {
        STy::Bool => DVal::Bool(r.chance(50)),
        STy::Long => DVal::Long(gen::gen_long(r)),
        STy::Str => DVal::Str(if r.chance(50) { (*r.pick(PLAIN_STRINGS)).to_string() } else { gen::gen_string(r) }),
        STy::Entity(t) => {
            let u = gen_uid_of(r, spec, t);
            DVal::Ent(u.0, u.1)
        }
        STy::Ext(n) => gen_ext(r, n),
        STy::Set(e) => {
            let n = r.below(4);
            DVal::Set((0..n).map(|_| gen_dval(r, spec, e)).collect())
        }
        STy::Record(attrs) => DVal::Rec(gen_attr_values(r, spec, attrs)),
        STy::Common(_, t) => gen_dval(r, spec, t),
    }
}

/// required attributes always, optional ones with probability 1/2
pub fn gen_attr_values(r: &mut Rng, spec: &SchemaSpec, attrs: &[AttrSpec]) -> Vec<(String, DVal)> {
    let mut kvs = Vec::new();
    for a in attrs {
        if a.required || r.chance(50) {
            kvs.push((a.name.clone(), gen_dval(r, spec, &a.ty)));
        }
    }
    kvs
}

pub struct Store {
    pub entities: Vec<DEntity>,
}

/// candidate uids per type: standard types `EIDS`, enumerated types their choices
fn candidates(spec: &SchemaSpec) -> Vec<Uid> {
    let mut v = Vec::new();
    for e in &spec.etypes {
        match &e.enum_ids {
            Some(ids) => v.extend(ids.iter().map(|i| (e.name.clone(), i.clone()))),
            None => v.extend(EIDS.iter().map(|i| (e.name.clone(), i.to_string()))),
        }
    }
    v
}

/// a store conforming to the schema: entities present/absent, optional attributes present/absent, parents only of
/// (transitively) permitted types (present or dangling), tags where declared; sometimes the schema's action
/// entities (identical to their definition) are part of the store
pub fn gen_store(r: &mut Rng, spec: &SchemaSpec) -> Store {
    gen_store_with(r, spec, 55)
}

/// `gen_store` with the probability (percent) that a candidate uid is present; 100 = every uid the generators can
/// produce (`EIDS` x standard types, all enumerated choices) exists, so no reference is dangling (C18)
pub fn gen_store_with(r: &mut Rng, spec: &SchemaSpec, present_pct: u32) -> Store {
    let mut order = candidates(spec);
    for i in (1..order.len()).rev() {
        let j = r.below(i + 1);
        order.swap(i, j);
    }
    let mut entities = Vec::new();
    for (i, u) in order.iter().enumerate() {
        if !r.chance(present_pct) {
            continue;
        }
        let et = spec.etype(&u.0).unwrap();
        let allowed = spec.allowed_ancestor_types(&u.0);
        let mut parents: Vec<Uid> = Vec::new();
        let later: Vec<&Uid> = order[i + 1..].iter().filter(|p| allowed.contains(&p.0)).collect();
        if !later.is_empty() {
            for _ in 0..r.below(3) {
                let p = (*r.pick(&later)).clone();
                if !parents.contains(&p) {
                    parents.push(p);
                }
            }
        }
        let attrs = gen_attr_values(r, spec, &et.attrs);
        let mut tags = Vec::new();
        if let Some(tt) = &et.tags {
            for k in ["k1", "k2", "some tag"] {
                if r.chance(40) {
                    tags.push((k.to_string(), gen_dval(r, spec, tt)));
                }
            }
        }
        entities.push(DEntity { uid: u.clone(), attrs, parents, tags });
    }
    if r.chance(30) {
        for i in 0..spec.actions.len() {
            if r.chance(60) {
                entities.push(action_entity(spec, i));
            }
        }
    }
    Store { entities }
}

/// the action entity exactly as the schema defines it (no attributes, all transitive ancestors)
pub fn action_entity(spec: &SchemaSpec, i: usize) -> DEntity {
    DEntity {
        uid: spec.actions[i].uid(),
        attrs: vec![],
        parents: spec.action_ancestors(i).into_iter().map(|j| spec.actions[j].uid()).collect(),
        tags: vec![],
    }
}

/// the action entity with its *direct* `memberOf` parents only (as the schema text declares it), for actions that
/// have further, indirect ancestors
pub fn action_entity_direct(spec: &SchemaSpec, i: usize) -> Option<DEntity> {
    if spec.action_ancestors(i).len() == spec.actions[i].member_of.iter().collect::<BTreeSet<_>>().len() {
        return None;
    }
    Some(DEntity { uid: spec.actions[i].uid(), attrs: vec![], parents: spec.actions[i].member_of.iter().map(|&j| spec.actions[j].uid()).collect(), tags: vec![] })
}

/// a request conforming to a random action that applies to something
pub fn gen_request(r: &mut Rng, spec: &SchemaSpec) -> DRequest {
    let cands: Vec<&ActionSpec> = spec.actions.iter().filter(|a| a.applies.is_some()).collect();
    let a = *r.pick(&cands);
    let ap = a.applies.as_ref().unwrap();
    let pt = r.pick(&ap.principals).clone();
    let rt = r.pick(&ap.resources).clone();
    DRequest {
        principal: gen_uid_of(r, spec, &pt),
        action: a.uid(),
        resource: gen_uid_of(r, spec, &rt),
        context: gen_attr_values(r, spec, &ap.context),
    }
}

// ------------------------------------------------------------------------------------------------
// single-fault mutations
// ------------------------------------------------------------------------------------------------

/// violation classes of the C11 statement (one planted per mutated datum)
#[derive(Clone, Copy, Debug, PartialEq, Eq, PartialOrd, Ord)]
pub enum Fault {
    /// a value of another kind where the declared type wants something else (attr / tag / context, any depth)
    WrongType,
    /// a required record field / entity attribute / context attribute removed
    MissingRequired,
    /// an attribute the (closed) record / entity type / context does not declare
    UndeclaredAttr,
    /// a tag on an entity type that declares no tags
    UndeclaredTag,
    /// an ancestor whose type is not a (transitive) memberOf type
    AncestorType,
    /// an entity uid of an enumerated type whose id is not among the choices: the entity's own uid / principal / resource
    EnumIdTop,
    /// … nested inside an attribute / tag / context value
    EnumIdNested,
    /// … as a parent
    EnumIdParent,
    /// entity (or principal/resource) of a type the schema does not declare
    UndeclaredType,
    /// action (entity / request action) that the schema does not declare
    UndeclaredAction,
    /// action entity that differs from the schema's definition (attribute, tag, or ancestor set)
    ActionMismatch,
    /// principal type not among the action's `appliesTo`
    PrincipalType,
    /// resource type not among the action's `appliesTo`
    ResourceType,
}

impl Fault {
    pub fn name(&self) -> &'static str {
        match self {
            Fault::WrongType => "wrong-type",
            Fault::MissingRequired => "missing-required",
            Fault::UndeclaredAttr => "undeclared-attr",
            Fault::UndeclaredTag => "undeclared-tag",
            Fault::AncestorType => "ancestor-type",
            Fault::EnumIdTop => "enum-top",
            Fault::EnumIdNested => "enum-nested",
            Fault::EnumIdParent => "enum-parent",
            Fault::UndeclaredType => "undeclared-type",
            Fault::UndeclaredAction => "undeclared-action",
            Fault::ActionMismatch => "action-mismatch",
            Fault::PrincipalType => "principal-type",
            Fault::ResourceType => "resource-type",
        }
    }
}

/// where in a datum the fault sits
#[derive(Clone, Copy, Debug, PartialEq, Eq)]
pub enum Site {
    Attr,
    Tag,
    Context,
    Uid,
    Parent,
    Principal,
    Resource,
    Action,
}

#[derive(Clone, Debug)]
pub struct Planted {
    pub fault: Fault,
    pub site: Site,
    /// nesting depth of the faulty node below the attribute / tag / context map (0 = the attribute value itself,
    /// or the map itself for missing/undeclared attributes)
    pub depth: u32,
}

/// value whose kind differs from what `ty` wants (never an instance of `ty`)
fn wrong_value(r: &mut Rng, spec: &SchemaSpec, ty: &STy) -> DVal {
    let ty = ty.resolved();
    loop {
        let v = match r.below(9) {
            0 => DVal::Bool(r.chance(50)),
            1 => DVal::Long(r.range(-3, 40)),
            2 => DVal::Str((*r.pick(PLAIN_STRINGS)).to_string()),
            3 => {
                // an entity of another declared type, or of an undeclared one
                let t = if r.chance(70) { r.pick(&spec.etypes).name.clone() } else { "Nope::Missing".to_string() };
                if spec.etype(&t).is_some() {
                    let u = gen_uid_of(r, spec, &t);
                    DVal::Ent(u.0, u.1)
                } else {
                    DVal::Ent(t, "a".into())
                }
            }
            4 => DVal::Set(vec![DVal::Long(1)]),
            5 => DVal::Set(vec![DVal::Str("zz!".into()), DVal::Str("q".into())]),
            6 => DVal::Rec(vec![("zzz".into(), DVal::Long(0))]),
            7 => DVal::Rec(vec![]),
            _ => {
                let x = *r.pick(EXTS);
                gen_ext(r, x)
            }
        };
        let same_kind = match (&v, ty) {
            (DVal::Bool(_), STy::Bool) | (DVal::Long(_), STy::Long) | (DVal::Str(_), STy::Str) => true,
            (DVal::Ent(t, _), STy::Entity(t2)) => t == t2,
            // a set is a fault only through its elements: [1] for Set<not Long>, ["zz!","q"] for Set<not String>
            (DVal::Set(xs), STy::Set(e)) => match (&xs[0], e.resolved()) {
                (DVal::Long(_), STy::Long) | (DVal::Str(_), STy::Str) => true,
                _ => false,
            },
            // {} / {zzz: 0} against a record type: {} conforms iff nothing is required (handled as a different fault class)
            (DVal::Rec(_), STy::Record(_)) => true,
            (DVal::Ext(f, _), STy::Ext(n)) => *f == ext_fn(n),
            _ => false,
        };
        if !same_kind {
            return v;
        }
    }
}

/// all positions in `v : ty` where a local fault of the wanted class can be planted, as paths
#[derive(Clone, Debug)]
enum Step {
    Elem(usize),
    Field(usize),
}

fn collect_sites(spec: &SchemaSpec, v: &DVal, ty: &STy, fault: Fault, path: &mut Vec<Step>, out: &mut Vec<Vec<Step>>) {
    let ty = ty.resolved();
    let here = match fault {
        Fault::WrongType => true,
        Fault::MissingRequired => matches!((v, ty), (DVal::Rec(kvs), STy::Record(attrs)) if attrs.iter().any(|a| a.required && kvs.iter().any(|(k, _)| k == &a.name))),
        Fault::UndeclaredAttr => matches!((v, ty), (DVal::Rec(_), STy::Record(_))),
        Fault::EnumIdNested => matches!((v, ty), (DVal::Ent(_, _), STy::Entity(t)) if spec.etype(t).map_or(false, |e| e.enum_ids.is_some())),
        _ => false,
    };
    if here {
        out.push(path.clone());
    }
    match (v, ty) {
        (DVal::Set(xs), STy::Set(e)) => {
            for (i, x) in xs.iter().enumerate() {
                path.push(Step::Elem(i));
                collect_sites(spec, x, e, fault, path, out);
                path.pop();
            }
        }
        (DVal::Rec(kvs), STy::Record(attrs)) => {
            for (i, (k, x)) in kvs.iter().enumerate() {
                if let Some(a) = attrs.iter().find(|a| &a.name == k) {
                    path.push(Step::Field(i));
                    collect_sites(spec, x, &a.ty, fault, path, out);
                    path.pop();
                }
            }
        }
        _ => {}
    }
}

pub fn bad_enum_id(ids: &[String]) -> String {
    for c in ["nope", "RED", "a", ""] {
        if !ids.iter().any(|i| i == c) {
            return c.to_string();
        }
    }
    "zzzz".into()
}

fn plant_at(r: &mut Rng, spec: &SchemaSpec, v: &mut DVal, ty: &STy, fault: Fault, path: &[Step]) {
    let ty = ty.resolved();
    if let Some((step, rest)) = path.split_first() {
        match (step, v, ty) {
            (Step::Elem(i), DVal::Set(xs), STy::Set(e)) => plant_at(r, spec, &mut xs[*i], e, fault, rest),
            (Step::Field(i), DVal::Rec(kvs), STy::Record(attrs)) => {
                let a = attrs.iter().find(|a| a.name == kvs[*i].0).unwrap();
                plant_at(r, spec, &mut kvs[*i].1, &a.ty, fault, rest)
            }
            _ => unreachable!("path does not fit"),
        }
        return;
    }
    match fault {
        Fault::WrongType => *v = wrong_value(r, spec, ty),
        Fault::MissingRequired => {
            if let (DVal::Rec(kvs), STy::Record(attrs)) = (v, ty) {
                let req: Vec<usize> = kvs.iter().enumerate().filter(|(_, (k, _))| attrs.iter().any(|a| a.required && &a.name == k)).map(|(i, _)| i).collect();
                let i = *r.pick(&req);
                kvs.remove(i);
            }
        }
        Fault::UndeclaredAttr => {
            if let (DVal::Rec(kvs), STy::Record(attrs)) = (v, ty) {
                let name = ["extra", "zzz", "A"].iter().find(|n| !attrs.iter().any(|a| &a.name == *n)).unwrap().to_string();
                kvs.push((name, DVal::Long(7)));
                kvs.sort_by(|a, b| a.0.cmp(&b.0));
            }
        }
        Fault::EnumIdNested => {
            if let (DVal::Ent(_, id), STy::Entity(t)) = (v, ty) {
                *id = bad_enum_id(spec.etype(t).unwrap().enum_ids.as_ref().unwrap());
            }
        }
        _ => unreachable!(),
    }
}

/// plant `fault` somewhere (at a random nesting depth) in the attribute map `kvs : Record(attrs)`;
/// returns the depth, or `None` if this map offers no site for the fault
pub fn mutate_attr_map(r: &mut Rng, spec: &SchemaSpec, kvs: &mut Vec<(String, DVal)>, attrs: &[AttrSpec], fault: Fault) -> Option<u32> {
    let ty = STy::Record(attrs.to_vec());
    let mut v = DVal::Rec(std::mem::take(kvs));
    let mut sites = Vec::new();
    collect_sites(spec, &v, &ty, fault, &mut Vec::new(), &mut sites);
    // the map itself is not a value that can have the "wrong type"
    if fault == Fault::WrongType {
        sites.retain(|p| !p.is_empty());
    }
    let res = if sites.is_empty() {
        None
    } else {
        // prefer deep sites: pick two, keep the deeper
        let a = r.pick(&sites).clone();
        let b = r.pick(&sites).clone();
        let p = if a.len() >= b.len() { a } else { b };
        plant_at(r, spec, &mut v, &ty, fault, &p);
        // depth below the map: attribute value itself = 0
        Some(match fault {
            Fault::MissingRequired | Fault::UndeclaredAttr => p.len() as u32,
            _ => p.len() as u32 - 1,
        })
    };
    if let DVal::Rec(k) = v {
        *kvs = k;
    }
    res
}

/// plant one fault of the given class into a conformant entity; `None` if the class is not applicable here
pub fn mutate_entity(r: &mut Rng, spec: &SchemaSpec, e: &DEntity, fault: Fault) -> Option<(DEntity, Planted)> {
    let mut m = e.clone();
    let act = spec.action(&e.uid.0, &e.uid.1);
    if let Some((ai, _)) = act {
        // action entities
        return match fault {
            Fault::UndeclaredAction => {
                m.uid.1 = "noSuchAction".into();
                Some((m, Planted { fault, site: Site::Uid, depth: 0 }))
            }
            Fault::ActionMismatch => {
                match r.below(4) {
                    0 => m.attrs.push(("extra".into(), DVal::Long(1))),
                    1 => m.tags.push(("k1".into(), DVal::Long(1))),
                    2 if !spec.actions[ai].member_of.is_empty() => {
                        // drop a direct parent together with everything only reachable through it, so that no
                        // transitive-closure computation over the collection can bring the ancestor back
                        let drop = *r.pick(&spec.actions[ai].member_of);
                        let mut keep: BTreeSet<usize> = BTreeSet::new();
                        for &j in spec.actions[ai].member_of.iter().filter(|&&j| j != drop) {
                            keep.insert(j);
                            keep.extend(spec.action_ancestors(j));
                        }
                        if keep.contains(&drop) {
                            m.attrs.push(("extra".into(), DVal::Long(1)));
                        } else {
                            m.parents = keep.into_iter().map(|j| spec.actions[j].uid()).collect();
                        }
                    }
                    _ => {
                        // an extra (declared) action as ancestor
                        let others: Vec<Uid> = spec.actions.iter().enumerate().filter(|(j, a)| *j != ai && !m.parents.contains(&a.uid())).map(|(_, a)| a.uid()).collect();
                        if others.is_empty() {
                            m.attrs.push(("extra".into(), DVal::Long(1)));
                        } else {
                            m.parents.push(r.pick(&others).clone());
                        }
                    }
                }
                Some((m, Planted { fault, site: Site::Action, depth: 0 }))
            }
            _ => None,
        };
    }
    let et = spec.etype(&e.uid.0)?;
    let is_enum = et.enum_ids.is_some();
    match fault {
        Fault::WrongType | Fault::MissingRequired | Fault::UndeclaredAttr | Fault::EnumIdNested => {
            // in attributes or (wrong type / nested enum id only) in a tag value
            let tag_ok = et.tags.is_some() && !m.tags.is_empty() && matches!(fault, Fault::WrongType | Fault::EnumIdNested | Fault::MissingRequired | Fault::UndeclaredAttr);
            if tag_ok && r.chance(35) {
                let tt = et.tags.clone().unwrap();
                // view the tags as a record whose fields all have the tag type
                let pseudo: Vec<AttrSpec> = m.tags.iter().map(|(k, _)| AttrSpec { name: k.clone(), ty: tt.clone(), required: false }).collect();
                let mut tags = std::mem::take(&mut m.tags);
                // missing/undeclared are only meaningful strictly below the tag map
                let before = tags.clone();
                let d = mutate_attr_map(r, spec, &mut tags, &pseudo, fault);
                let top_level_map_fault = matches!(fault, Fault::MissingRequired | Fault::UndeclaredAttr) && d == Some(0);
                if let (Some(d), false) = (d, top_level_map_fault) {
                    m.tags = tags;
                    return Some((m, Planted { fault, site: Site::Tag, depth: d }));
                }
                m.tags = before;
            }
            if is_enum {
                if fault == Fault::UndeclaredAttr {
                    m.attrs.push(("extra".into(), DVal::Long(7)));
                    return Some((m, Planted { fault, site: Site::Attr, depth: 0 }));
                }
                return None;
            }
            let d = mutate_attr_map(r, spec, &mut m.attrs, &et.attrs, fault)?;
            Some((m, Planted { fault, site: Site::Attr, depth: d }))
        }
        Fault::UndeclaredTag => {
            if et.tags.is_some() {
                return None;
            }
            m.tags.push(("k1".into(), DVal::Long(1)));
            Some((m, Planted { fault, site: Site::Tag, depth: 0 }))
        }
        Fault::AncestorType => {
            let allowed = spec.allowed_ancestor_types(&e.uid.0);
            let mut bad: Vec<String> = spec.etypes.iter().map(|t| t.name.clone()).filter(|t| !allowed.contains(t)).collect();
            bad.push("Nope::Missing".into());
            let t = r.pick(&bad).clone();
            let p = if spec.etype(&t).is_some() { gen_uid_of(r, spec, &t) } else { (t, "a".into()) };
            // a fresh id, so that no cycle / duplicate interferes
            let p = if spec.etype(&p.0).map_or(true, |x| x.enum_ids.is_none()) { (p.0, "fresh".to_string()) } else { p };
            m.parents.push(p);
            Some((m, Planted { fault, site: Site::Parent, depth: 0 }))
        }
        Fault::EnumIdTop => {
            let ids = et.enum_ids.as_ref()?;
            m.uid.1 = bad_enum_id(ids);
            Some((m, Planted { fault, site: Site::Uid, depth: 0 }))
        }
        Fault::EnumIdParent => {
            let allowed = spec.allowed_ancestor_types(&e.uid.0);
            let enums: Vec<&ETypeSpec> = spec.etypes.iter().filter(|t| t.enum_ids.is_some() && allowed.contains(&t.name)).collect();
            if enums.is_empty() {
                return None;
            }
            let t = *r.pick(&enums);
            m.parents.push((t.name.clone(), bad_enum_id(t.enum_ids.as_ref().unwrap())));
            Some((m, Planted { fault, site: Site::Parent, depth: 0 }))
        }
        Fault::UndeclaredType => {
            m.uid.0 = "Nope::Missing".into();
            m.uid.1 = "fresh".into();
            Some((m, Planted { fault, site: Site::Uid, depth: 0 }))
        }
        _ => None,
    }
}

/// plant one fault of the given class into a conformant request
pub fn mutate_request(r: &mut Rng, spec: &SchemaSpec, q: &DRequest, fault: Fault) -> Option<(DRequest, Planted)> {
    let mut m = q.clone();
    let (_, a) = spec.action(&q.action.0, &q.action.1)?;
    let ap = a.applies.as_ref()?;
    match fault {
        Fault::WrongType | Fault::MissingRequired | Fault::UndeclaredAttr | Fault::EnumIdNested => {
            let d = mutate_attr_map(r, spec, &mut m.context, &ap.context, fault)?;
            Some((m, Planted { fault, site: Site::Context, depth: d }))
        }
        Fault::UndeclaredAction => {
            if r.chance(50) {
                m.action.1 = "noSuchAction".into();
            } else {
                m.action.0 = qualify("Nope", "Action");
            }
            Some((m, Planted { fault, site: Site::Action, depth: 0 }))
        }
        Fault::PrincipalType | Fault::ResourceType => {
            let ok = if fault == Fault::PrincipalType { &ap.principals } else { &ap.resources };
            let bad: Vec<&ETypeSpec> = spec.etypes.iter().filter(|t| !ok.contains(&t.name)).collect();
            if bad.is_empty() {
                return None;
            }
            let bt = r.pick(&bad).name.clone();
            let u = gen_uid_of(r, spec, &bt);
            if fault == Fault::PrincipalType {
                m.principal = u;
                Some((m, Planted { fault, site: Site::Principal, depth: 0 }))
            } else {
                m.resource = u;
                Some((m, Planted { fault, site: Site::Resource, depth: 0 }))
            }
        }
        Fault::UndeclaredType => {
            let u = ("Nope::Missing".to_string(), "a".to_string());
            if r.chance(50) {
                m.principal = u;
                Some((m, Planted { fault, site: Site::Principal, depth: 0 }))
            } else {
                m.resource = u;
                Some((m, Planted { fault, site: Site::Resource, depth: 0 }))
            }
        }
        Fault::EnumIdTop => {
            let pe = spec.etype(&q.principal.0).and_then(|t| t.enum_ids.as_ref());
            let re = spec.etype(&q.resource.0).and_then(|t| t.enum_ids.as_ref());
            match (pe, re) {
                (Some(ids), _) if re.is_none() || r.chance(50) => {
                    m.principal.1 = bad_enum_id(ids);
                    Some((m, Planted { fault, site: Site::Principal, depth: 0 }))
                }
                (_, Some(ids)) => {
                    m.resource.1 = bad_enum_id(ids);
                    Some((m, Planted { fault, site: Site::Resource, depth: 0 }))
                }
                _ => None,
            }
        }
        _ => None,
    }
}

pub const ENTITY_FAULTS: &[Fault] = &[
    Fault::WrongType, Fault::MissingRequired, Fault::UndeclaredAttr, Fault::UndeclaredTag, Fault::AncestorType,
    Fault::EnumIdTop, Fault::EnumIdNested, Fault::EnumIdParent, Fault::UndeclaredType, Fault::UndeclaredAction, Fault::ActionMismatch,
];
pub const REQUEST_FAULTS: &[Fault] = &[
    Fault::WrongType, Fault::MissingRequired, Fault::UndeclaredAttr, Fault::EnumIdNested, Fault::UndeclaredAction,
    Fault::PrincipalType, Fault::ResourceType, Fault::UndeclaredType, Fault::EnumIdTop,
];

/// summary of a spec for meta lines
pub fn describe(spec: &SchemaSpec) -> String {
    let mut m: BTreeMap<&str, usize> = BTreeMap::new();
    m.insert("ns", spec.namespaces.len());
    m.insert("etypes", spec.etypes.len());
    m.insert("enums", spec.etypes.iter().filter(|e| e.enum_ids.is_some()).count());
    m.insert("actions", spec.actions.len());
    m.insert("commons", spec.commons.len());
    format!("{m:?}")
}
