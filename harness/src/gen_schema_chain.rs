//! CHAIN SCHEMA WORLDS (C16, reusable by C17): `SchemaSpec`s (gen_schema.rs) whose entity-typed attributes, tags and
//! context fields form *chains and cycles*, so that dereference paths of every depth 0..5 are well typed:
//!   A.next: B, B.owner: A (2-cycles), A.next: A (self loops), longer cycles over 2–4 types, optional links (`ref?`),
//!   records containing entities (`rec: { ref: T, n: Long, inner: { ref: T } }`), sets of entities (`items: Set<T>`),
//!   entity-typed tags / record-with-entity tags / Long tags, context fields `e: T`, `rec: { ref: T }`, `items: Set<T>`,
//!   `opt?: T`, plain Bool/Long/String attributes to finish a path on, memberOf edges (incl. self membership), an action
//!   group.  Stores for these specs are *dense* (`gen_dense_store`) so that most dereferences succeed.
//! All randomness from `Rng`.
use crate::gen_schema::{self as gs, ActionSpec, AppliesSpec, AttrSpec, DEntity, ETypeSpec, STy, SchemaSpec, SchemaWorld, Store, Uid};
use crate::rng::Rng;

const NAMES: &[&str] = &["User", "Group", "Doc", "Folder"];

fn attr(name: &str, ty: STy, required: bool) -> AttrSpec {
    AttrSpec { name: name.to_string(), ty, required }
}

fn ent(t: &str) -> STy {
    STy::Entity(t.to_string())
}

/// a record type containing an entity reference (and, sometimes, a nested record containing another one)
fn rec_with(r: &mut Rng, t1: &str, t2: &str) -> STy {
    let mut attrs = vec![attr("n", STy::Long, true), attr("ref", ent(t1), r.chance(75))];
    if r.chance(50) {
        attrs.push(attr("rec", STy::Record(vec![attr("ref", ent(t2), true)]), r.chance(80)));
    }
    attrs.sort_by(|a, b| a.name.cmp(&b.name));
    STy::Record(attrs)
}

pub fn gen_chain_spec(r: &mut Rng) -> SchemaSpec {
    let ns: String = match r.below(3) {
        0 => "".into(),
        1 => "NS".into(),
        _ => "A::B".into(),
    };
    let k = 2 + r.below(3);
    let names: Vec<String> = (0..k).map(|i| gs::qualify(&ns, NAMES[i])).collect();
    let mut etypes: Vec<ETypeSpec> = Vec::new();
    for i in 0..k {
        let me = &names[i];
        let nxt = &names[(i + 1) % k];
        let prv = &names[(i + k - 1) % k];
        let any = names[r.below(k)].clone();
        let mut attrs = vec![
            // the cycle i -> i+1 -> … -> i
            attr("a", ent(nxt), true),
            attr("flag", STy::Bool, true),
            attr("n", STy::Long, r.chance(80)),
        ];
        if r.chance(70) {
            // back edge (2-cycles) or self loop
            attrs.push(attr("b", ent(if r.chance(60) { prv } else { me }), r.chance(60)));
        }
        if r.chance(60) {
            attrs.push(attr("ref", ent(&any), false));
        }
        if r.chance(60) {
            attrs.push(attr("rec", rec_with(r, nxt, me), r.chance(70)));
        }
        if r.chance(55) {
            attrs.push(attr("items", STy::Set(Box::new(ent(&any))), r.chance(80)));
        }
        if r.chance(40) {
            attrs.push(attr("s", STy::Str, true));
        }
        attrs.sort_by(|a, b| a.name.cmp(&b.name));
        let tags = match r.below(5) {
            0 | 1 => Some(ent(nxt)),
            2 => Some(rec_with(r, me, nxt)),
            3 => Some(STy::Long),
            _ => None,
        };
        let mut member_of = Vec::new();
        for j in i..k {
            if r.chance(if j == i { 25 } else { 45 }) {
                member_of.push(names[j].clone());
            }
        }
        etypes.push(ETypeSpec { name: me.clone(), ns: ns.clone(), base: NAMES[i].to_string(), member_of, attrs, tags, enum_ids: None });
    }
    let mut actions: Vec<ActionSpec> = Vec::new();
    let with_group = r.chance(50);
    if with_group {
        actions.push(ActionSpec { ns: ns.clone(), id: "all".into(), member_of: vec![], applies: None });
    }
    let n_actions = 1 + r.below(3);
    for i in 0..n_actions {
        let p = names[r.below(k)].clone();
        let rs = names[r.below(k)].clone();
        let mut principals = vec![p.clone()];
        if r.chance(25) {
            let q = names[r.below(k)].clone();
            if q != p {
                principals.push(q);
            }
        }
        let mut context = vec![attr("e", ent(&names[r.below(k)]), true)];
        if r.chance(60) {
            let (i1, i2) = (r.below(k), r.below(k));
            context.push(attr("rec", rec_with(r, &names[i1], &names[i2]), true));
        }
        if r.chance(50) {
            context.push(attr("ref", ent(&names[r.below(k)]), false));
        }
        if r.chance(50) {
            context.push(attr("items", STy::Set(Box::new(ent(&names[r.below(k)]))), true));
        }
        if r.chance(60) {
            context.push(attr("n", STy::Long, true));
        }
        context.sort_by(|a, b| a.name.cmp(&b.name));
        let member_of = if with_group && r.chance(60) { vec![0] } else { vec![] };
        actions.push(ActionSpec {
            ns: ns.clone(),
            id: ["view", "edit", "delete"][i].to_string(),
            member_of,
            applies: Some(AppliesSpec { principals, resources: vec![rs], context, context_common: None }),
        });
    }
    SchemaSpec { namespaces: vec![ns], etypes, actions, commons: vec![] }
}

pub fn gen_chain_world(r: &mut Rng) -> SchemaWorld {
    for _ in 0..20 {
        if let Ok(w) = gs::load(gen_chain_spec(r)) {
            return w;
        }
    }
    panic!("chain schema generator keeps producing rejected schemas");
}

/// like `gs::gen_store` but dense: most candidate entities exist, most tags are set, parents are frequent
pub fn gen_dense_store(r: &mut Rng, spec: &SchemaSpec, present_pct: u32) -> Store {
    let mut order: Vec<Uid> = Vec::new();
    for e in &spec.etypes {
        match &e.enum_ids {
            Some(ids) => order.extend(ids.iter().map(|i| (e.name.clone(), i.clone()))),
            None => order.extend(gs::EIDS.iter().map(|i| (e.name.clone(), i.to_string()))),
        }
    }
    for i in (1..order.len()).rev() {
        let j = r.below(i + 1);
        order.swap(i, j);
    }
    let mut entities = Vec::new();
    for (i, u) in order.iter().enumerate() {
        if !r.chance(present_pct) {
            continue;
        }
        let et = spec.etype(&u.0).unwrap();
        let allowed = spec.allowed_ancestor_types(&u.0);
        let later: Vec<&Uid> = order[i + 1..].iter().filter(|p| allowed.contains(&p.0)).collect();
        let mut parents: Vec<Uid> = Vec::new();
        if !later.is_empty() {
            for _ in 0..r.below(3) {
                let p = (*r.pick(&later)).clone();
                if !parents.contains(&p) {
                    parents.push(p);
                }
            }
        }
        let attrs = gs::gen_attr_values(r, spec, &et.attrs);
        let mut tags = Vec::new();
        if let Some(tt) = &et.tags {
            for k in ["k1", "k2", "some tag"] {
                if r.chance(65) {
                    tags.push((k.to_string(), gs::gen_dval(r, spec, tt)));
                }
            }
        }
        entities.push(DEntity { uid: u.clone(), attrs, parents, tags });
    }
    Store { entities }
}
