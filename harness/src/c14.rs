//! C14: type-aware partial evaluation (TPE) and permission queries are sound.
//! One case = one schema world (gen_schema.rs), 1–5 strictly valid static policies (gen_typed.rs), a conformant
//! concrete request + store, and a *partial* request / partial store obtained by ERASING parts of the concrete ones
//! (principal id, resource id, context; per entity: attributes, ancestors, tags, or the whole entity).  Consistent
//! completions are therefore available: the original, plus variations in which exactly the erased parts are
//! re-sampled conformantly (parents only where no entity with *known* ancestors can see the change).
//! 20% of the cases are the SET-MEMBERSHIP family (`member_case`): known, often empty or singleton, sets from the context or
//! from entity data combined by contains / containsAny / containsAll with operands that stay residual and error on some
//! completions (entities absent from the completion's store, overflow), under `!`, `||`, `&&`, `if`.
//!   S  (the statement on the implementation, `propfail`):
//!      * a definite TPE decision equals `Authorizer::is_authorized` on every sampled completion;
//!      * every residual policy (`get_policy(id)`, evaluated by the concrete evaluator) is satisfied / unsatisfied /
//!        erroring on a completion exactly when its original is; classes true/false/error are definite;
//!      * all views agree id by id: `policies()`, `policy_set()`, `get_policy`, `residual_policies()`, and
//!        `reauthorize` answers like authorizing the `policies()` view and like the concrete authorizer;
//!      * `query_resource` / `query_principal` == brute force over the candidate entities of the store;
//!      * `query_action` never omits an allowed action, never labels `Allow` an action that is not allowed.
//!   K  (correspondence) `(tpe …)`: decision? and id ↦ class against the model's `Tpe.interpret`, and
//!      `(tpe-re …)`: what the residuals evaluate to on a completion (residual shapes are never compared).
use crate::c02::panic_msg;
use crate::gen_schema::{self as gs, DEntity, DRequest, SchemaWorld, Uid};
use crate::gen_typed::{self as gt, GenOpts};
use crate::out::Out;
use crate::rng::Rng;
use crate::sx;
use crate::sx_schema;
use crate::Args;
use cedar_policy as api;
use cedar_policy_core::ast::{self, EntityUID, PolicyID, PolicySet, Value};
use cedar_policy_core::authorizer::{Authorizer, Decision};
use cedar_policy_core::entities::{Dereference, Entities, TCComputation};
use cedar_policy_core::evaluator::Evaluator;
use cedar_policy_core::extensions::Extensions;
use cedar_policy_core::parser;
use cedar_policy_core::tpe::entities::PartialEntities;
use cedar_policy_core::validator::typecheck::{PolicyCheck, Typechecker};
use cedar_policy_core::validator::{CoreSchema, ValidationMode};
use smol_str::SmolStr;
use std::collections::{BTreeMap, BTreeSet, HashSet};
use std::fmt::Write;
use std::panic::{catch_unwind, AssertUnwindSafe};

pub fn ext() -> &'static Extensions<'static> {
    Extensions::all_available()
}

// ------------------------------------------------------------------------------------------------
// shared with c15: world + valid policies + conformant request/store
// ------------------------------------------------------------------------------------------------

pub struct Pol {
    pub id: String,
    pub text: String,
    pub target: (String, usize, String),
}

pub struct Setup {
    pub w: SchemaWorld,
    pub schema_pub: api::Schema,
    pub pols: Vec<Pol>,
    pub ps: PolicySet,
    pub ps_pub: api::PolicySet,
}

/// a fixed schema with entity-valued attributes, so that policies can follow reference chains
/// (`principal.manager.manager.name`, `resource.parent.owner in Group::"a"`): several loading rounds for C15 and
/// residuals that dereference entities found in attribute values for C14
fn chain_spec() -> gs::SchemaSpec {
    use gs::{ActionSpec, AppliesSpec, AttrSpec, ETypeSpec, STy};
    let at = |n: &str, ty: STy, required: bool| AttrSpec { name: n.to_string(), ty, required };
    let user = || STy::Entity("User".into());
    let et = |n: &str, member_of: Vec<&str>, attrs: Vec<AttrSpec>, tags: Option<STy>| ETypeSpec { name: n.into(), ns: "".into(), base: n.into(), member_of: member_of.into_iter().map(String::from).collect(), attrs, tags, enum_ids: None };
    gs::SchemaSpec {
        namespaces: vec!["".into()],
        etypes: vec![
            et("User", vec!["Group"], vec![at("manager", user(), false), at("name", STy::Str, true), at("level", STy::Long, true), at("friends", STy::Set(Box::new(user())), true)], Some(STy::Str)),
            et("Group", vec!["Group"], vec![at("owner", user(), false)], None),
            et("Doc", vec!["Group"], vec![at("owner", user(), true), at("parent", STy::Entity("Doc".into()), false), at("public", STy::Bool, true)], None),
        ],
        actions: vec![
            ActionSpec { ns: "".into(), id: "readOnly".into(), member_of: vec![], applies: None },
            ActionSpec { ns: "".into(), id: "view".into(), member_of: vec![0], applies: Some(AppliesSpec { principals: vec!["User".into()], resources: vec!["Doc".into()], context: vec![at("via", user(), false), at("n", STy::Long, true)], context_common: None }) },
            ActionSpec { ns: "".into(), id: "edit".into(), member_of: vec![], applies: Some(AppliesSpec { principals: vec!["User".into()], resources: vec!["Doc".into(), "Group".into()], context: vec![], context_common: None }) },
        ],
        commons: vec![],
    }
}

fn chain_policy(r: &mut Rng) -> (String, usize) {
    let eid = |r: &mut Rng| (*r.pick(gs::EIDS)).to_string();
    let eff = if r.chance(70) { "permit" } else { "forbid" };
    let (u, g, d) = (eid(r), eid(r), eid(r));
    let pat = *r.pick(&["*", "a*", "*o*", "", "zz!"]);
    let lvl = r.range(-3, 5);
    let k = *r.pick(&["k1", "k2", "some tag"]);
    let pscope = match r.below(4) { 0 => format!("principal in Group::\"{g}\""), 1 => format!("principal == User::\"{u}\""), _ => "principal".into() };
    let (ai, ascope, rscope): (usize, String, String) = match r.below(5) {
        0 => (1, "action == Action::\"view\"".into(), "resource".into()),
        1 => (1, "action in Action::\"readOnly\"".into(), "resource is Doc".into()),
        2 => (1, "action".into(), format!("resource in Group::\"{g}\"")),
        3 => (2, "action == Action::\"edit\"".into(), "resource is Doc".into()),
        _ => (1, "action in [Action::\"view\", Action::\"edit\"]".into(), format!("resource == Doc::\"{d}\"")),
    };
    // bodies assume resource : Doc (all scopes above with `action`/readOnly/view keep it a Doc; `edit` is narrowed by `is Doc`)
    let guard_r = if rscope == "resource" || rscope.starts_with("resource in") { "resource is Doc && " } else { "" };
    let body = match r.below(14) {
        0 => format!("principal has manager && principal.manager has manager && principal.manager.manager.name like \"{pat}\""),
        1 => format!("{guard_r}resource.owner has manager && resource.owner.manager == principal"),
        2 => format!("{guard_r}resource has parent && resource.parent.owner.level > {lvl}"),
        3 => format!("{guard_r}resource.owner in Group::\"{g}\""),
        4 => format!("principal.hasTag(\"{k}\") && {guard_r}principal.getTag(\"{k}\") == resource.owner.name"),
        5 => format!("{guard_r}(resource.owner.friends.contains(User::\"{u}\") || principal in Group::\"{g}\")"),
        6 => format!("{guard_r}principal.level < resource.owner.level"),
        7 => format!("{guard_r}(if principal has manager then principal.manager.level + 1 > {lvl} else resource.public)"),
        8 => format!("User::\"{u}\" has manager && User::\"{u}\".manager.name like \"{pat}\""),
        9 => format!("{guard_r}resource has parent && resource.parent has parent && resource.parent.parent.owner.friends.contains(principal)"),
        10 => format!("principal has manager && principal.manager in Group::\"{g}\" && Group::\"{g}\" has owner && Group::\"{g}\".owner.level >= {lvl}"),
        11 => format!("{guard_r}resource.owner.friends.containsAny([principal, User::\"{u}\"]) && !(resource.owner.hasTag(\"{k}\"))"),
        12 => format!("{guard_r}(resource.public || (principal has manager && principal.manager == resource.owner))"),
        _ => format!("{guard_r}resource.owner.name like \"{pat}\" && Doc::\"{d}\" has parent && Doc::\"{d}\".parent.public"),
    };
    let ctx_body = if ai == 1 && ascope.contains("view") && !ascope.contains('[') && r.chance(35) {
        format!(" && context has via && context.via has manager && context.via.manager.friends.contains(principal) && context.n > {lvl}")
    } else {
        String::new()
    };
    let clause = if r.chance(85) { "when" } else { "unless" };
    (format!("{eff}({pscope}, {ascope}, {rscope}) {clause} {{ {body}{ctx_body} }};"), ai)
}

/// a setup from given policy texts (text, action index); texts the strict validator rejects are skipped
pub fn setup_from(w: SchemaWorld, texts: Vec<(String, usize)>) -> Option<Setup> {
    let mut pols = Vec::new();
    let mut ps = PolicySet::new();
    for (text, ai) in texts {
        if !gt::strict_accepts(&w, &text) {
            continue;
        }
        let id = format!("p{}", pols.len());
        let Ok(p) = parser::parse_policy(Some(PolicyID::from_string(&id)), &text) else { continue };
        if ps.add_static(p).is_err() {
            continue;
        }
        pols.push(Pol { id, text, target: ("User".into(), ai, "Doc".into()) });
    }
    if pols.is_empty() {
        return None;
    }
    let schema_pub: api::Schema = w.schema.clone().into();
    let ps_pub: api::PolicySet = ps.clone().into();
    Some(Setup { w, schema_pub, pols, ps, ps_pub })
}

pub fn chain_world() -> Option<SchemaWorld> {
    gs::load(chain_spec()).ok()
}

fn gen_chain_setup(r: &mut Rng, n: usize) -> Option<Setup> {
    let w = gs::load(chain_spec()).ok()?;
    let mut pols = Vec::new();
    let mut ps = PolicySet::new();
    let mut attempts = 0;
    while pols.len() < n && attempts < 40 * n {
        attempts += 1;
        let (text, ai) = chain_policy(r);
        if !gt::strict_accepts(&w, &text) {
            continue;
        }
        let id = format!("p{}", pols.len());
        let Ok(p) = parser::parse_policy(Some(PolicyID::from_string(&id)), &text) else { continue };
        if ps.add_static(p).is_err() {
            continue;
        }
        pols.push(Pol { id, text, target: ("User".into(), ai, "Doc".into()) });
    }
    if pols.is_empty() {
        return None;
    }
    let schema_pub: api::Schema = w.schema.clone().into();
    let ps_pub: api::PolicySet = ps.clone().into();
    Some(Setup { w, schema_pub, pols, ps, ps_pub })
}

/// schema world + `n` static policies accepted by the strict validator (ids p0, p1, …)
pub fn gen_setup(r: &mut Rng, n: usize) -> Option<Setup> {
    if r.chance(35) {
        return gen_chain_setup(r, n);
    }
    let (w, _) = gs::gen_schema_world(r);
    let opts = GenOpts { templates: false, near_miss_pct: 0, ill_typed_pct: 0, depth: 2 + r.below(2) as u32 };
    let mut pols = Vec::new();
    let mut ps = PolicySet::new();
    let mut attempts = 0;
    while pols.len() < n && attempts < 60 * n {
        attempts += 1;
        let gp = gt::gen_policy(r, &w, &opts);
        // most policies of a set talk about the same action (otherwise all but one are trivially false)
        if let Some(first) = pols.first() {
            let first: &Pol = first;
            if attempts % 4 != 0 && gp.target.1 != first.target.1 {
                continue;
            }
        }
        if !gt::strict_accepts(&w, &gp.text) {
            continue;
        }
        let id = format!("p{}", pols.len());
        let Ok(p) = parser::parse_policy(Some(PolicyID::from_string(&id)), &gp.text) else { continue };
        if ps.add_static(p).is_err() {
            continue;
        }
        pols.push(Pol { id, text: gp.text, target: gp.target });
    }
    if pols.is_empty() {
        return None;
    }
    let schema_pub: api::Schema = w.schema.clone().into();
    let ps_pub: api::PolicySet = ps.clone().into();
    Some(Setup { w, schema_pub, pols, ps, ps_pub })
}

pub fn build_entities(w: &SchemaWorld, ents: &[DEntity]) -> Option<Entities> {
    let es: Result<Vec<ast::Entity>, String> = ents.iter().map(|e| e.to_entity()).collect();
    let es = es.ok()?;
    let core = CoreSchema::new(&w.schema);
    match catch_unwind(AssertUnwindSafe(|| Entities::from_entities(es, Some(&core), TCComputation::ComputeNow, ext()))) {
        Ok(Ok(e)) => Some(e),
        _ => None,
    }
}

pub fn build_request(w: &SchemaWorld, q: &DRequest, validate: bool) -> Option<ast::Request> {
    let (pu, au, ru) = (gs::mk_uid(&q.principal), gs::mk_uid(&q.action), gs::mk_uid(&q.resource));
    match catch_unwind(AssertUnwindSafe(|| ast::Request::new((pu, None), (au, None), (ru, None), q.to_context(), if validate { Some(&w.schema) } else { None }, ext()))) {
        Ok(Ok(req)) => Some(req),
        _ => None,
    }
}

/// a conformant request whose environment is (mostly) the target of one of the policies
pub fn gen_request_near(r: &mut Rng, s: &Setup) -> DRequest {
    if r.chance(75) {
        let p = r.pick(&s.pols);
        gt::gen_request_for(r, &s.w.spec, p.target.1, &p.target.0, &p.target.2)
    } else {
        gs::gen_request(r, &s.w.spec)
    }
}

pub fn is_action(u: &Uid) -> bool {
    u.0 == "Action" || u.0.ends_with("::Action")
}

pub fn dec_name(d: Decision) -> &'static str {
    match d {
        Decision::Allow => "allow",
        Decision::Deny => "deny",
    }
}

pub fn req_text(q: &DRequest) -> String {
    format!("p={} a={} r={} ctx={}", gt::uid_text(&q.principal), gt::uid_text(&q.action), gt::uid_text(&q.resource), q.context_json())
}

pub fn store_json(ents: &[DEntity]) -> String {
    serde_json::Value::Array(ents.iter().map(|e| e.to_json()).collect()).to_string()
}

/// outcome of one policy on a concrete request/store: "true" | "false" | "error"
pub fn eval_class(ev: &Evaluator<'_>, p: &ast::Policy) -> Result<&'static str, String> {
    match catch_unwind(AssertUnwindSafe(|| ev.evaluate(p))) {
        Ok(Ok(true)) => Ok("true"),
        Ok(Ok(false)) => Ok("false"),
        Ok(Err(_)) => Ok("error"),
        Err(p) => Err(panic_msg(p)),
    }
}

/// the typed condition the TPE starts from (what `tpe::policy_residual_map` computes), as an untyped expression
pub fn typed_conditions(s: &Setup, action: &EntityUID, pty: &ast::EntityType, rty: &ast::EntityType) -> Option<Vec<(String, &'static str, String)>> {
    let tc = Typechecker::new(&s.w.schema, ValidationMode::Strict);
    let env = s.w.schema.unlinked_request_envs(ValidationMode::Strict).find(|env| env.action_entity_uid() == Some(action) && env.principal_entity_type() == Some(pty) && env.resource_entity_type() == Some(rty))?;
    let mut v = Vec::new();
    for pol in &s.pols {
        let p = s.ps.get(&PolicyID::from_string(&pol.id))?;
        let typed = match tc.typecheck_by_single_request_env(p.template(), &env) {
            PolicyCheck::Success(e) => e,
            PolicyCheck::Irrelevant(errs, e) if errs.is_empty() => e,
            _ => return None,
        };
        let e: ast::Expr = typed.into_expr::<ast::ExprBuilder<()>>();
        let eff = if p.effect() == ast::Effect::Permit { "permit" } else { "forbid" };
        v.push((pol.id.clone(), eff, sx::expr(&e)?));
    }
    Some(v)
}

/// typed-AST correspondence lines (`typedast shape|types`, see c14_typed.rs) for exactly the policies and the request
/// environment this case hands to TPE
pub fn typed_ast_lines(out: &mut Out, s: &Setup, action: &EntityUID, pty: &ast::EntityType, rty: &ast::EntityType, case: &str) {
    let tc = Typechecker::new(&s.w.schema, ValidationMode::Strict);
    let Some(env) = s.w.schema.unlinked_request_envs(ValidationMode::Strict).find(|env| env.action_entity_uid() == Some(action) && env.principal_entity_type() == Some(pty) && env.resource_entity_type() == Some(rty)) else { return };
    let ssx = sx_schema::schema(&s.w.schema);
    for pol in &s.pols {
        if let Some(p) = s.ps.get(&PolicyID::from_string(&pol.id)) {
            crate::c14_typed::emit(out, &tc, &ssx, p.template(), &env, &format!("{case} [tpe policy] {}", pol.text));
        }
    }
}

pub fn pols_sx(v: &[(String, &'static str, String)]) -> String {
    let mut o = String::new();
    for (id, eff, e) in v {
        write!(o, " (pol {} {eff} {e})", sx::qs(id)).unwrap();
    }
    o
}

// ------------------------------------------------------------------------------------------------
// erasure
// ------------------------------------------------------------------------------------------------

#[derive(Clone, Debug)]
struct PEnt {
    uid: Uid,
    present: bool,
    attrs: bool,
    anc: bool,
    tags: bool,
}

#[derive(Clone, Debug)]
struct PSpec {
    p_known: bool,
    r_known: bool,
    ctx_known: bool,
    ents: Vec<PEnt>,
}

fn all_ancestors(ents: &Entities, u: &Uid) -> Vec<Uid> {
    match ents.entity(&gs::mk_uid(u)) {
        Dereference::Data(e) => e.ancestors().map(|a| (a.entity_type().to_string(), <ast::Eid as AsRef<str>>::as_ref(a.eid()).to_string())).collect(),
        _ => vec![],
    }
}

fn gen_pspec(r: &mut Rng, store: &[DEntity], ents: &Entities) -> PSpec {
    let style = r.below(10);
    let mut pe: Vec<PEnt> = store
        .iter()
        .filter(|e| !is_action(&e.uid))
        .map(|e| {
            let (present, a, n, t) = match style {
                0 => (true, true, true, true),   // fully known store (from_concrete-like)
                1 => (false, false, false, false), // empty partial store
                _ => {
                    let m = r.below(100);
                    if m < 35 { (true, true, true, true) } else if m < 50 { (false, false, false, false) } else { (true, r.chance(55), r.chance(55), r.chance(55)) }
                }
            };
            PEnt { uid: e.uid.clone(), present, attrs: a, anc: n, tags: t }
        })
        .collect();
    // an entity with known ancestors may not have a present ancestor with unknown ancestors
    loop {
        let mut changed = false;
        for i in 0..pe.len() {
            if !(pe[i].present && pe[i].anc) {
                continue;
            }
            let anc = all_ancestors(ents, &pe[i].uid);
            if anc.iter().any(|a| pe.iter().any(|x| &x.uid == a && x.present && !x.anc)) {
                pe[i].anc = false;
                changed = true;
            }
        }
        if !changed {
            break;
        }
    }
    PSpec { p_known: !r.chance(40), r_known: !r.chance(40), ctx_known: !r.chance(35), ents: pe }
}

fn puid(u: &Uid, known: bool) -> api::PartialEntityUid {
    let cu: api::EntityUid = gs::mk_uid(u).into();
    if known {
        api::PartialEntityUid::from_concrete(cu)
    } else {
        api::PartialEntityUid::new(cu.type_name().clone(), None)
    }
}

fn build_partial(s: &Setup, q: &DRequest, store: &[DEntity], ents: &Entities, ps: &PSpec) -> Result<(api::PartialRequest, api::PartialEntities), String> {
    let ctx: Option<api::Context> = if ps.ctx_known { Some(q.to_context().into()) } else { None };
    let preq = api::PartialRequest::new(puid(&q.principal, ps.p_known), gs::mk_uid(&q.action).into(), puid(&q.resource, ps.r_known), ctx, &s.schema_pub).map_err(|e| format!("PartialRequest::new: {e}"))?;
    let mut pes = Vec::new();
    for pe in ps.ents.iter().filter(|e| e.present) {
        let de = store.iter().find(|e| e.uid == pe.uid).unwrap();
        let kv = |kvs: &Vec<(String, gs::DVal)>| -> BTreeMap<SmolStr, api::RestrictedExpression> { kvs.iter().map(|(k, v)| (SmolStr::from(k.as_str()), v.to_rexpr().into())).collect() };
        let anc: HashSet<api::EntityUid> = all_ancestors(ents, &pe.uid).iter().map(|a| gs::mk_uid(a).into()).collect();
        let e = api::PartialEntity::new(
            gs::mk_uid(&pe.uid).into(),
            if pe.attrs { Some(kv(&de.attrs)) } else { None },
            if pe.anc { Some(anc) } else { None },
            if pe.tags { Some(kv(&de.tags)) } else { None },
            &s.schema_pub,
        )
        .map_err(|e| format!("PartialEntity::new: {e}"))?;
        pes.push(e);
    }
    let pents = api::PartialEntities::from_partial_entities(pes, &s.schema_pub).map_err(|e| format!("PartialEntities: {e}"))?;
    Ok((preq, pents))
}

// ------------------------------------------------------------------------------------------------
// completions
// ------------------------------------------------------------------------------------------------

/// reachability over direct parents in `store` (dangling parents are leaves)
fn reach(store: &[DEntity], from: &Uid) -> BTreeSet<Uid> {
    let mut seen = BTreeSet::new();
    let mut todo = vec![from.clone()];
    while let Some(u) = todo.pop() {
        if let Some(e) = store.iter().find(|e| e.uid == u) {
            for p in &e.parents {
                if seen.insert(p.clone()) {
                    todo.push(p.clone());
                }
            }
        }
    }
    seen
}

/// a variation of (q, store) that differs only in erased parts
fn vary(r: &mut Rng, s: &Setup, q: &DRequest, store: &[DEntity], ps: &PSpec) -> (DRequest, Vec<DEntity>) {
    let spec = &s.w.spec;
    let mut q2 = q.clone();
    if !ps.p_known && r.chance(70) {
        q2.principal = gs::gen_uid_of(r, spec, &q.principal.0);
    }
    if !ps.r_known && r.chance(70) {
        q2.resource = gs::gen_uid_of(r, spec, &q.resource.0);
    }
    if !ps.ctx_known && r.chance(80) {
        if let Some((_, a)) = spec.action(&q.action.0, &q.action.1) {
            if let Some(ap) = &a.applies {
                q2.context = gs::gen_attr_values(r, spec, &ap.context);
            }
        }
    }
    let mut st: Vec<DEntity> = store.to_vec();
    // entities whose ancestor sets are pinned by the partial store
    let pinned: Vec<Uid> = ps.ents.iter().filter(|e| e.present && e.anc).map(|e| e.uid.clone()).collect();
    let visible_to_pinned = |st: &[DEntity], u: &Uid| pinned.iter().any(|p| p == u || reach(st, p).contains(u));
    for pe in &ps.ents {
        let Some(i) = st.iter().position(|e| e.uid == pe.uid) else { continue };
        let et = spec.etype(&pe.uid.0).unwrap().clone();
        let erased_all = !pe.present;
        if (erased_all || !pe.attrs) && r.chance(60) {
            st[i].attrs = gs::gen_attr_values(r, spec, &et.attrs);
        }
        if (erased_all || !pe.tags) && r.chance(60) {
            let mut tags = Vec::new();
            if let Some(tt) = &et.tags {
                for k in ["k1", "k2", "some tag", "k3"] {
                    if r.chance(40) {
                        tags.push((k.to_string(), gs::gen_dval(r, spec, tt)));
                    }
                }
            }
            st[i].tags = tags;
        }
        if (erased_all || !pe.anc) && r.chance(60) && !visible_to_pinned(&st, &pe.uid) {
            // new direct parents: permitted types, no cycle; parents may be dangling
            let allowed = spec.allowed_ancestor_types(&pe.uid.0);
            let mut parents: Vec<Uid> = Vec::new();
            if !allowed.is_empty() {
                for _ in 0..r.below(3) {
                    let t = r.pick(&allowed).clone();
                    let p = gs::gen_uid_of(r, spec, &t);
                    if p != pe.uid && !reach(&st, &p).contains(&pe.uid) && !parents.contains(&p) {
                        parents.push(p);
                    }
                }
            }
            st[i].parents = parents;
        }
    }
    // a dropped entity that nobody pinned may also be absent in the completion
    for pe in ps.ents.iter().filter(|e| !e.present) {
        if r.chance(25) && !visible_to_pinned(&st, &pe.uid) {
            st.retain(|e| e.uid != pe.uid);
        }
    }
    // an entity the partial store does not mention may appear
    if r.chance(30) {
        let cands: Vec<&gs::ETypeSpec> = spec.etypes.iter().filter(|e| e.enum_ids.is_none()).collect();
        if !cands.is_empty() {
            let et = *r.pick(&cands);
            let u = gs::gen_uid_of(r, spec, &et.name);
            if !st.iter().any(|e| e.uid == u) && !visible_to_pinned(&st, &u) {
                st.push(DEntity { uid: u, attrs: gs::gen_attr_values(r, spec, &et.attrs), parents: vec![], tags: vec![] });
            }
        }
    }
    (q2, st)
}

// ------------------------------------------------------------------------------------------------
// serialisation for the model
// ------------------------------------------------------------------------------------------------

fn kvs_sx(tag: &str, none: &str, m: Option<&BTreeMap<SmolStr, Value>>) -> String {
    match m {
        None => format!("({none})"),
        Some(m) => {
            let mut o = format!("({tag}");
            for (k, v) in m {
                write!(o, " ({} {})", sx::qs(k), sx::value(v)).unwrap();
            }
            o.push(')');
            o
        }
    }
}

pub fn pents_sx(pe: &PartialEntities) -> String {
    let mut v: Vec<(String, String)> = Vec::new();
    for e in pe.entities() {
        let anc = match e.ancestors() {
            None => "(noanc)".to_string(),
            Some(a) => {
                let mut xs: Vec<String> = a.iter().map(sx::uid).collect();
                xs.sort();
                format!("(anc{}{})", if xs.is_empty() { "" } else { " " }, xs.join(" "))
            }
        };
        v.push((sx::uid(e.uid()), format!("(pent {} {} {} {})", sx::uid(e.uid()), kvs_sx("attrs", "noattrs", e.attrs()), anc, kvs_sx("tags", "notags", e.tags()))));
    }
    v.sort();
    format!("(pents{}{})", if v.is_empty() { "" } else { " " }, v.into_iter().map(|x| x.1).collect::<Vec<_>>().join(" "))
}

fn preq_sx(q: &DRequest, ps: &PSpec, ctx: &Value) -> String {
    let pu = |u: &Uid, k: bool| if k { sx::uid(&gs::mk_uid(u)) } else { format!("(unk {})", sx::qs(&u.0)) };
    let c = if ps.ctx_known {
        let full = sx::request(&gs::mk_uid(&q.principal), &gs::mk_uid(&q.action), &gs::mk_uid(&q.resource), ctx);
        let i = full.find("(ctx").unwrap();
        full[i..full.len() - 1].to_string()
    } else {
        "(noctx)".to_string()
    };
    format!("(preq {} {} {} {c})", pu(&q.principal, ps.p_known), sx::uid(&gs::mk_uid(&q.action)), pu(&q.resource, ps.r_known))
}

pub fn ctx_value(req: &ast::Request) -> Value {
    match req.context() {
        Some(ast::Context::Value(m)) => Value::record_arc(m.clone(), None),
        _ => Value::empty_record(None),
    }
}

// ------------------------------------------------------------------------------------------------
// one case
// ------------------------------------------------------------------------------------------------

fn classes_of(resp: &api::TpeResponse<'_>) -> BTreeMap<String, &'static str> {
    let mut m = BTreeMap::new();
    let mut put = |it: &mut dyn Iterator<Item = &api::PolicyId>, c: &'static str| {
        for id in it {
            let s: &str = id.as_ref();
            m.insert(s.to_string(), c);
        }
    };
    put(&mut resp.true_permits(), "true");
    put(&mut resp.true_forbids(), "true");
    put(&mut resp.false_permits(), "false");
    put(&mut resp.false_forbids(), "false");
    put(&mut resp.error_permits(), "error");
    put(&mut resp.error_forbids(), "error");
    put(&mut resp.residual_permits(), "residual");
    put(&mut resp.residual_forbids(), "residual");
    m
}

fn pol_text(p: &api::Policy) -> String {
    p.to_string()
}

fn sorted_ids<'a>(it: impl Iterator<Item = &'a PolicyID>) -> Vec<String> {
    let mut v: Vec<String> = it.map(|i| { let s: &str = i.as_ref(); s.to_string() }).collect();
    v.sort();
    v
}

fn err_ids(resp: &cedar_policy_core::authorizer::Response) -> Vec<String> {
    let mut v: Vec<String> = resp
        .diagnostics
        .errors
        .iter()
        .map(|e| match e {
            cedar_policy_core::authorizer::AuthorizationError::PolicyEvaluationError { id, .. } => { let s: &str = id.as_ref(); s.to_string() }
        })
        .collect();
    v.sort();
    v
}

fn views_check(out: &mut Out, s: &Setup, resp: &api::TpeResponse<'_>, classes: &BTreeMap<String, &'static str>, case: &str) {
    let ids: BTreeSet<String> = s.pols.iter().map(|p| p.id.clone()).collect();
    // policies()
    let mut pols: BTreeMap<String, String> = BTreeMap::new();
    let mut n = 0;
    for p in resp.policies() {
        n += 1;
        let id: &str = p.id().as_ref();
        pols.insert(id.to_string(), pol_text(&p));
    }
    if n != ids.len() || pols.keys().cloned().collect::<BTreeSet<_>>() != ids {
        out.propfail("view policies() does not list exactly the input ids", case, &format!("{:?}", pols.keys().collect::<Vec<_>>()));
    }
    if classes.keys().cloned().collect::<BTreeSet<_>>() != ids {
        out.propfail("the eight buckets do not partition the input ids", case, &format!("{classes:?}"));
    }
    // get_policy
    let mut by_id: BTreeMap<String, String> = BTreeMap::new();
    for id in &ids {
        match resp.get_policy(&api::PolicyId::new(id)) {
            None => out.propfail("view get_policy(id) is None for an input id", case, id),
            Some(p) => {
                let t = pol_text(&p);
                if pols.get(id) != Some(&t) {
                    out.propfail("views policies() and get_policy(id) differ", case, &format!("{id}: policies()=`{:?}` get_policy=`{t}`", pols.get(id)));
                }
                // bucket vs the residual itself
                let r = resp.as_ref().get_residual_policy(&PolicyID::from_string(id)).map(|rp| rp.get_residual());
                if let Some(r) = r {
                    let c = if r.is_true() { "true" } else if r.is_false() { "false" } else if r.is_error() { "error" } else { "residual" };
                    if classes.get(id) != Some(&c) {
                        out.propfail("bucket of a policy differs from the class of its residual", case, &format!("{id}: bucket={:?} residual={c}", classes.get(id)));
                    }
                }
                by_id.insert(id.clone(), t);
            }
        }
    }
    if resp.get_policy(&api::PolicyId::new("no-such-policy")).is_some() {
        out.propfail("view get_policy(id) answers for an id that is not in the set", case, "no-such-policy");
    }
    // policy_set()
    let pset = resp.policy_set();
    if pset.policies().count() != ids.len() {
        out.propfail("view policy_set() has a different number of policies", case, &format!("{}", pset.policies().count()));
    }
    for id in &ids {
        match pset.policy(&api::PolicyId::new(id)) {
            None => out.propfail("view policy_set() lacks an input id", case, id),
            Some(p) => {
                let t = pol_text(p);
                let original = s.ps_pub.policy(&api::PolicyId::new(id)).map(pol_text);
                if by_id.get(id) != Some(&t) && original.as_ref() == Some(&t) {
                    out.count("view_policy_set_is_the_original");
                    out.propfail("view policy_set() presents the original policy, not the residual that get_policy(id) / policies() present", case, &format!("{id} [class {}]: policy_set()=`{}` get_policy=`{}`", classes.get(id).unwrap_or(&"?"), t.replace('\n', " "), by_id.get(id).cloned().unwrap_or_default().replace('\n', " ")));
                } else if by_id.get(id) != Some(&t) {
                    out.count("view_policy_set_differs");
                    out.propfail("view policy_set() presents a different policy than get_policy(id)", case, &format!("{id} [class {}]: policy_set()=`{}` get_policy=`{}`", classes.get(id).unwrap_or(&"?"), t.replace('\n', " "), by_id.get(id).cloned().unwrap_or_default().replace('\n', " ")));
                } else {
                    out.count("view_policy_set_same");
                }
            }
        }
    }
    // residual_policies()
    let mut rp: BTreeMap<String, String> = BTreeMap::new();
    for p in resp.residual_policies() {
        let id: &str = p.id().as_ref();
        rp.insert(id.to_string(), pol_text(&p));
    }
    let want: BTreeSet<String> = classes.iter().filter(|(_, c)| **c == "residual").map(|(k, _)| k.clone()).collect();
    if rp.keys().cloned().collect::<BTreeSet<_>>() != want {
        out.propfail("view residual_policies() is not exactly the residual buckets", case, &format!("{:?} vs {:?}", rp.keys().collect::<Vec<_>>(), want));
    }
    for (id, t) in &rp {
        if by_id.get(id) != Some(t) {
            out.propfail("views residual_policies() and get_policy(id) differ", case, id);
        }
    }
}

struct Completion {
    q: DRequest,
    store: Vec<DEntity>,
    req: ast::Request,
    ents: Entities,
    original: bool,
}

#[allow(clippy::too_many_arguments)]
fn check_completion(out: &mut Out, s: &Setup, resp: &api::TpeResponse<'_>, classes: &BTreeMap<String, &'static str>, c: &Completion, case: &str, model_prefix: Option<&str>) {
    let auth = Authorizer::new();
    let cdesc = format!("{case} COMPLETION[{}] {} store={}", if c.original { "original" } else { "variation" }, req_text(&c.q), store_json(&c.store));
    // reauthorize also decides whether the completion is consistent
    let re = match catch_unwind(AssertUnwindSafe(|| resp.as_ref().reauthorize(&c.req, &c.ents))) {
        Ok(x) => x,
        Err(p) => {
            out.propfail("panic in reauthorize", &cdesc, &panic_msg(p));
            return;
        }
    };
    let re = match re {
        Ok(x) => x,
        Err(e) => {
            if c.original {
                out.propfail("reauthorize rejects the completion the partial inputs were erased from", &cdesc, &e.to_string());
            } else {
                out.count("variation_rejected_by_reauthorize");
                out.sample(format!("variation rejected: {e}"));
            }
            return;
        }
    };
    out.count("completions");
    let conc = match catch_unwind(AssertUnwindSafe(|| auth.is_authorized(c.req.clone(), &s.ps, &c.ents))) {
        Ok(x) => x,
        Err(p) => {
            out.propfail("panic in is_authorized", &cdesc, &panic_msg(p));
            return;
        }
    };
    if let Some(d) = resp.decision() {
        let d = if d == api::Decision::Allow { Decision::Allow } else { Decision::Deny };
        if d != conc.decision {
            out.propfail("definite TPE decision differs from the concrete decision on a consistent completion", &cdesc, &format!("tpe={} concrete={}", dec_name(d), dec_name(conc.decision)));
        }
        out.count("definite_decision_checked");
    }
    // reauthorize vs concrete
    if re.decision != conc.decision || sorted_ids(re.diagnostics.reason.iter()) != sorted_ids(conc.diagnostics.reason.iter()) || err_ids(&re) != err_ids(&conc) {
        out.propfail(
            "reauthorize differs from the concrete authorizer",
            &cdesc,
            &format!("reauthorize=({} {:?} {:?}) concrete=({} {:?} {:?})", dec_name(re.decision), sorted_ids(re.diagnostics.reason.iter()), err_ids(&re), dec_name(conc.decision), sorted_ids(conc.diagnostics.reason.iter()), err_ids(&conc)),
        );
    }
    // reauthorize vs authorizing the policies() view
    let mut view = PolicySet::new();
    for p in resp.policies() {
        let cp: &ast::Policy = p.as_ref();
        let _ = view.add(cp.clone());
    }
    if let Ok(v) = catch_unwind(AssertUnwindSafe(|| auth.is_authorized(c.req.clone(), &view, &c.ents))) {
        if v.decision != re.decision || sorted_ids(v.diagnostics.reason.iter()) != sorted_ids(re.diagnostics.reason.iter()) || err_ids(&v) != err_ids(&re) {
            out.propfail("reauthorize differs from authorizing the policies() view", &cdesc, &format!("view=({} {:?} {:?}) reauthorize=({} {:?} {:?})", dec_name(v.decision), sorted_ids(v.diagnostics.reason.iter()), err_ids(&v), dec_name(re.decision), sorted_ids(re.diagnostics.reason.iter()), err_ids(&re)));
        }
    }
    // per policy: residual vs original
    let ev = Evaluator::new(c.req.clone(), &c.ents, ext());
    let mut re_classes: Vec<(String, &'static str)> = Vec::new();
    for pol in &s.pols {
        let Some(orig) = s.ps.get(&PolicyID::from_string(&pol.id)) else { continue };
        let Some(resid) = resp.get_policy(&api::PolicyId::new(&pol.id)) else { continue };
        let (o, rr) = match (eval_class(&ev, orig), eval_class(&ev, resid.as_ref())) {
            (Ok(o), Ok(rr)) => (o, rr),
            (a, b) => {
                out.propfail("panic evaluating a policy / residual", &cdesc, &format!("{a:?} {b:?}"));
                continue;
            }
        };
        out.count(&format!("residual_eval:{}:{rr}", classes.get(&pol.id).unwrap_or(&"?")));
        re_classes.push((pol.id.clone(), rr));
        if o != rr {
            out.propfail(
                "residual policy and original policy differ on a consistent completion",
                &cdesc,
                &format!("{} `{}`: original={o} residual={rr} residual policy=`{}`", pol.id, pol.text, pol_text(&resid).replace('\n', " ")),
            );
        }
        let cl = classes.get(&pol.id).copied().unwrap_or("?");
        if cl != "residual" && cl != o {
            out.propfail("definite class of a policy differs from the original's outcome on a consistent completion", &cdesc, &format!("{} `{}`: class={cl} original={o}", pol.id, pol.text));
        }
    }
    if let Some(prefix) = model_prefix {
        if let Some(es) = sx::entities(&c.ents) {
            let rq = sx::request(&gs::mk_uid(&c.q.principal), &gs::mk_uid(&c.q.action), &gs::mk_uid(&c.q.resource), &ctx_value(&c.req));
            let mut reply = String::from("(re");
            for (id, cl) in &re_classes {
                write!(reply, " ({} {cl})", sx::qs(id)).unwrap();
            }
            reply.push(')');
            out.line(format!("(tpe-re {prefix} {rq} {es})"), reply, cdesc.clone());
            out.count("tpe_re_lines");
        }
    }
}

fn sorted_uids(v: impl Iterator<Item = api::EntityUid>) -> Vec<String> {
    let mut v: Vec<String> = v.map(|u| u.to_string()).collect();
    v.sort();
    v
}

fn queries_check(out: &mut Out, s: &Setup, c: &Completion, case: &str) {
    let auth = Authorizer::new();
    let cdesc = format!("{case} QUERY {} store={}", req_text(&c.q), store_json(&c.store));
    let ents_pub: api::Entities = c.ents.clone().into();
    let ctx: api::Context = c.q.to_context().into();
    let (pu, au, ru) = (gs::mk_uid(&c.q.principal), gs::mk_uid(&c.q.action), gs::mk_uid(&c.q.resource));
    let brute = |principal: Option<&EntityUID>, resource: Option<&EntityUID>, ty: &ast::EntityType| -> Vec<String> {
        let mut v = Vec::new();
        for e in c.ents.iter().filter(|e| e.uid().entity_type() == ty) {
            let p = principal.cloned().unwrap_or_else(|| e.uid().clone());
            let r = resource.cloned().unwrap_or_else(|| e.uid().clone());
            let Ok(req) = ast::Request::new((p, None), (au.clone(), None), (r, None), c.q.to_context(), None::<&cedar_policy_core::validator::ValidatorSchema>, ext()) else { continue };
            if auth.is_authorized(req, &s.ps, &c.ents).decision == Decision::Allow {
                v.push(api::EntityUid::from(e.uid().clone()).to_string());
            }
        }
        v.sort();
        v
    };
    // resource query
    match api::ResourceQueryRequest::new(pu.clone().into(), au.clone().into(), ru.entity_type().clone().into(), ctx.clone(), &s.schema_pub) {
        Ok(rq) => match catch_unwind(AssertUnwindSafe(|| s.ps_pub.query_resource(&rq, &ents_pub, &s.schema_pub).map(|it| sorted_uids(it)))) {
            Ok(Ok(got)) => {
                let want = brute(Some(&pu), None, ru.entity_type());
                out.count("query_resource");
                if !want.is_empty() { out.count("query_resource_nonempty"); }
                if got != want {
                    out.propfail("query_resource differs from brute force over the candidates", &cdesc, &format!("got {got:?} want {want:?}"));
                }
            }
            Ok(Err(e)) => { out.count("query_resource_error"); out.sample(format!("query_resource error: {e}")); }
            Err(p) => out.propfail("panic in query_resource", &cdesc, &panic_msg(p)),
        },
        Err(_) => out.count("query_resource_request_rejected"),
    }
    match api::PrincipalQueryRequest::new(pu.entity_type().clone().into(), au.clone().into(), ru.clone().into(), ctx.clone(), &s.schema_pub) {
        Ok(pq) => match catch_unwind(AssertUnwindSafe(|| s.ps_pub.query_principal(&pq, &ents_pub, &s.schema_pub).map(|it| sorted_uids(it)))) {
            Ok(Ok(got)) => {
                let want = brute(None, Some(&ru), pu.entity_type());
                out.count("query_principal");
                if !want.is_empty() { out.count("query_principal_nonempty"); }
                if got != want {
                    out.propfail("query_principal differs from brute force over the candidates", &cdesc, &format!("got {got:?} want {want:?}"));
                }
            }
            Ok(Err(e)) => { out.count("query_principal_error"); out.sample(format!("query_principal error: {e}")); }
            Err(p) => out.propfail("panic in query_principal", &cdesc, &panic_msg(p)),
        },
        Err(_) => out.count("query_principal_request_rejected"),
    }
}

#[allow(clippy::too_many_arguments)]
fn action_query_check(out: &mut Out, r: &mut Rng, s: &Setup, q: &DRequest, ps: &PSpec, pents: &api::PartialEntities, comps: &[Completion], case: &str) {
    let ctx: Option<api::Context> = if ps.ctx_known { Some(q.to_context().into()) } else { None };
    let Ok(aq) = api::ActionQueryRequest::new(puid(&q.principal, ps.p_known), puid(&q.resource, ps.r_known), ctx, s.schema_pub.clone()) else { return };
    let got: Vec<(String, Option<api::Decision>)> = match catch_unwind(AssertUnwindSafe(|| s.ps_pub.query_action(&aq, pents).map(|it| it.map(|(a, d)| (a.to_string(), d)).collect::<Vec<_>>()))) {
        Ok(Ok(v)) => v,
        Ok(Err(e)) => { out.count("query_action_error"); out.sample(format!("query_action error: {e}")); return; }
        Err(p) => { out.propfail("panic in query_action", case, &panic_msg(p)); return; }
    };
    out.count("query_action");
    for (_, d) in &got {
        out.count(&format!("query_action_label:{}", match d { Some(api::Decision::Allow) => "allow", Some(api::Decision::Deny) => "deny", None => "unknown" }));
        if *d == Some(api::Decision::Deny) {
            out.propfail("query_action returns an action labelled Deny", case, &format!("{got:?}"));
        }
    }
    let auth = Authorizer::new();
    for c in comps {
        for a in s.w.spec.actions.iter().filter(|a| a.applies.is_some()) {
            let auid = a.uid();
            let mut q2 = c.q.clone();
            q2.action = auid.clone();
            if !ps.ctx_known && auid != c.q.action {
                q2.context = gs::gen_attr_values(r, &s.w.spec, &a.applies.as_ref().unwrap().context);
            }
            let Some(req) = build_request(&s.w, &q2, true) else { continue };
            let d = auth.is_authorized(req, &s.ps, &c.ents).decision;
            let name = api::EntityUid::from(gs::mk_uid(&auid)).to_string();
            let label = got.iter().find(|(n, _)| *n == name).map(|x| x.1);
            out.count("query_action_completions");
            let cdesc = || format!("{case} ACTION-QUERY action={name} COMPLETION {} store={}", req_text(&q2), store_json(&c.store));
            if d == Decision::Allow && label.is_none() {
                out.propfail("query_action omits an action that is allowed on a consistent completion", &cdesc(), &format!("returned {got:?}"));
            }
            if label == Some(Some(api::Decision::Allow)) && d != Decision::Allow {
                out.propfail("query_action labels an action definitely allowed that is denied on a consistent completion", &cdesc(), &format!("returned {got:?}"));
            }
            if d == Decision::Allow { out.count("query_action_allowed_completions"); }
        }
    }
}


// ------------------------------------------------------------------------------------------------
// set-membership family: known (often EMPTY or singleton) sets combined with operands that stay residual
// ------------------------------------------------------------------------------------------------

/// a fixed schema with set-valued context fields and entity attributes of three element types (entities, longs,
/// strings), next to the reference chains of `chain_spec`: `contains` / `containsAny` / `containsAll` between a set
/// that partial evaluation knows and an operand it does not know
pub fn member_spec() -> gs::SchemaSpec {
    use gs::{ActionSpec, AppliesSpec, AttrSpec, ETypeSpec, STy};
    let at = |n: &str, ty: STy, required: bool| AttrSpec { name: n.to_string(), ty, required };
    let user = || STy::Entity("User".into());
    let set = |t: STy| STy::Set(Box::new(t));
    let et = |n: &str, member_of: Vec<&str>, attrs: Vec<AttrSpec>, tags: Option<STy>| ETypeSpec { name: n.into(), ns: "".into(), base: n.into(), member_of: member_of.into_iter().map(String::from).collect(), attrs, tags, enum_ids: None };
    gs::SchemaSpec {
        namespaces: vec!["".into()],
        etypes: vec![
            et("User", vec!["Group"], vec![at("manager", user(), false), at("name", STy::Str, true), at("level", STy::Long, true), at("friends", set(user()), true), at("scores", set(STy::Long), true)], Some(STy::Str)),
            et("Group", vec!["Group"], vec![at("owner", user(), false)], None),
            et("Doc", vec!["Group"], vec![at("owner", user(), true), at("parent", STy::Entity("Doc".into()), false), at("public", STy::Bool, true), at("editors", set(user()), true), at("labels", set(STy::Str), true)], None),
        ],
        actions: vec![
            ActionSpec { ns: "".into(), id: "readOnly".into(), member_of: vec![], applies: None },
            ActionSpec {
                ns: "".into(),
                id: "view".into(),
                member_of: vec![0],
                applies: Some(AppliesSpec {
                    principals: vec!["User".into()],
                    resources: vec!["Doc".into()],
                    context: vec![at("blocked", set(user()), true), at("allow", set(user()), true), at("nums", set(STy::Long), true), at("labels", set(STy::Str), true), at("via", user(), false), at("n", STy::Long, true)],
                    context_common: None,
                }),
            },
        ],
        commons: vec![],
    }
}

/// `<set>.<op>(<operand>)` (both orders for the set-set operators) under `!`, `||`, `&&`, `if`, in `when` / `unless`
/// of permits and forbids, so that "errors" and "false" lead to different outcomes.  Sets: context fields, attributes
/// of principal / resource / a literal entity / an entity reached through an attribute.  Operands: request variables,
/// attribute chains (erroring when an entity on the way is absent from the store of the completion), guarded optional
/// attributes and tags, arithmetic that overflows for some completions.
pub fn member_policy(r: &mut Rng) -> (String, usize) {
    let eid = |r: &mut Rng| (*r.pick(gs::EIDS)).to_string();
    let (u, g) = (eid(r), eid(r));
    let k = *r.pick(&["k1", "k2", "some tag"]);
    let big = *r.pick(&["9223372036854775807", "9223372036854775806", "1", "0"]);
    // (guard, set expression, element expression, set-valued operand expressions) per element type
    let kind = r.below(3);
    let (set_srcs, elems, sets2): (Vec<String>, Vec<(String, String)>, Vec<(String, String)>) = match kind {
        0 => (
            vec!["context.blocked".into(), "context.allow".into(), "principal.friends".into(), "resource.editors".into(), format!("User::\"{u}\".friends"), "resource.owner.friends".into()],
            vec![
                ("".into(), "principal".into()),
                ("".into(), "resource.owner".into()),
                ("".into(), format!("User::\"{u}\"")),
                ("resource.owner has manager && ".into(), "resource.owner.manager".into()),
                ("principal has manager && ".into(), "principal.manager".into()),
                ("context has via && ".into(), "context.via".into()),
                ("resource has parent && ".into(), "resource.parent.owner".into()),
                ("".into(), "(if resource.public then resource.owner else principal)".into()),
            ],
            vec![
                ("".into(), "[resource.owner]".into()),
                ("".into(), "[resource.owner, principal]".into()),
                ("".into(), "resource.owner.friends".into()),
                ("".into(), "resource.editors".into()),
                ("".into(), "context.allow".into()),
                ("principal has manager && ".into(), "principal.manager.friends".into()),
                ("resource has parent && ".into(), "[resource.parent.owner]".into()),
            ],
        ),
        1 => (
            vec!["context.nums".into(), "principal.scores".into(), "resource.owner.scores".into(), format!("User::\"{u}\".scores")],
            vec![
                ("".into(), "principal.level".into()),
                ("".into(), "resource.owner.level".into()),
                ("".into(), format!("context.n + {big}")),
                ("".into(), format!("principal.level * {}", r.range(2, 5))),
                ("".into(), "resource.owner.level - context.n".into()),
                ("principal has manager && ".into(), "principal.manager.level".into()),
            ],
            vec![
                ("".into(), "[resource.owner.level]".into()),
                ("".into(), format!("[context.n + {big}, 1]")),
                ("".into(), "resource.owner.scores".into()),
                ("".into(), "principal.scores".into()),
                ("".into(), "[principal.level - context.n]".into()),
            ],
        ),
        _ => (
            vec!["context.labels".into(), "resource.labels".into()],
            vec![
                ("".into(), "principal.name".into()),
                ("".into(), "resource.owner.name".into()),
                (format!("principal.hasTag(\"{k}\") && "), format!("principal.getTag(\"{k}\")")),
                (format!("resource.owner.hasTag(\"{k}\") && "), format!("resource.owner.getTag(\"{k}\")")),
                ("resource has parent && ".into(), "resource.parent.owner.name".into()),
            ],
            vec![
                ("".into(), "[resource.owner.name]".into()),
                ("".into(), "[principal.name, resource.owner.name]".into()),
                ("".into(), "resource.labels".into()),
                (format!("principal.hasTag(\"{k}\") && "), format!("[principal.getTag(\"{k}\")]")),
            ],
        ),
    };
    let s = r.pick(&set_srcs).clone();
    let (guard, test) = match r.below(7) {
        5 | 6 => {
            // can-error analysis stress: an operator the analysis may regard as error-free (`in`, `hasTag`, `==`, `contains`, `like`, `has`)
            // whose RIGHT (or left) operand can still error on a completion (attribute chain through an entity that may be missing),
            // conjoined with a constant so that folding to the constant is only sound if the operand cannot error
            let risky = match r.below(8) {
                0 => "principal in resource.owner.friends".to_string(),
                1 => "principal in [resource.owner, resource.owner.manager]".to_string(),
                2 => "principal.hasTag(resource.owner.name)".to_string(),
                3 => "resource.owner.friends.contains(principal)".to_string(),
                4 => format!("User::\"{u}\" in resource.owner.friends"),
                5 => "resource.owner.name like \"a*\"".to_string(),
                6 => "principal == resource.owner.manager".to_string(),
                _ => "resource.owner.manager has manager".to_string(),
            };
            let gd = if risky.contains("resource.owner.manager") { "resource.owner has manager && ".to_string() } else { String::new() };
            let t = match r.below(4) {
                0 => format!("(({risky}) && false)"),
                1 => format!("(({risky}) || true)"),
                2 => format!("(({risky}) && context.n < context.n)"),
                _ => format!("(false || (({risky}) && false))"),
            };
            (gd, t)
        }
        0 | 1 => {
            let (gd, e) = r.pick(&elems).clone();
            (gd, format!("{s}.contains({e})"))
        }
        2 => {
            let (gd, e) = r.pick(&sets2).clone();
            if r.chance(70) { (gd, format!("{s}.containsAny({e})")) } else { (gd, format!("{e}.containsAny({s})")) }
        }
        3 => {
            let (gd, e) = r.pick(&sets2).clone();
            if r.chance(50) { (gd, format!("{s}.containsAll({e})")) } else { (gd, format!("{e}.containsAll({s})")) }
        }
        _ => {
            let (gd, e) = r.pick(&elems).clone();
            (gd, format!("{s}.isEmpty() || {s}.contains({e})"))
        }
    };
    let other = match r.below(4) {
        0 => "resource.public".to_string(),
        1 => format!("principal.level > {}", r.range(-3, 5)),
        2 => format!("principal in Group::\"{g}\""),
        _ => "context.n < 3".to_string(),
    };
    let body = match r.below(9) {
        0 => format!("{guard}{test}"),
        1 | 2 => format!("{guard}!{test}"),
        3 => format!("{guard}({test} || {other})"),
        4 => format!("{guard}({other} || !({test}))"),
        5 => format!("{guard}(if {test} then {other} else true)"),
        6 => format!("{guard}(if !({test}) then true else {other})"),
        7 => format!("{guard}!({test} || {other})"),
        _ => format!("{guard}!({test} && {other})"),
    };
    let eff = if r.chance(65) { "permit" } else { "forbid" };
    let pscope = match r.below(4) { 0 => format!("principal in Group::\"{g}\""), 1 => format!("principal == User::\"{u}\""), _ => "principal".into() };
    let ascope = if r.chance(70) { "action == Action::\"view\"" } else { "action in Action::\"readOnly\"" };
    let rscope = match r.below(3) { 0 => "resource is Doc".to_string(), 1 => format!("resource in Group::\"{g}\""), _ => "resource".into() };
    let clause = if r.chance(75) { "when" } else { "unless" };
    (format!("{eff}({pscope}, {ascope}, {rscope}) {clause} {{ {body} }};"), 1)
}

/// sets become empty (45%) or singletons (25%): the membership tests above are decided by the known set alone
pub fn shrink_sets(r: &mut Rng, kvs: &mut Vec<(String, gs::DVal)>) {
    for (_, v) in kvs.iter_mut() {
        if let gs::DVal::Set(xs) = v {
            let m = r.below(100);
            if m < 45 {
                xs.clear();
            } else if m < 70 {
                xs.truncate(1);
            }
        }
    }
}

fn member_case(out: &mut Out, r: &mut Rng, cname: &str, k_var: usize) {
    let Ok(w) = gs::load(member_spec()) else { out.count("member_world_rejected"); return };
    let n_pol = 1 + r.below(3);
    let texts: Vec<(String, usize)> = (0..4 * n_pol).map(|_| member_policy(r)).collect();
    let Some(mut s) = setup_from(w, texts) else { out.count("no_valid_policies"); return };
    if s.pols.len() > n_pol {
        // keep the first n_pol accepted policies
        let keep: Vec<(String, usize)> = s.pols.iter().take(n_pol).map(|p| (p.text.clone(), p.target.1)).collect();
        let Ok(w) = gs::load(member_spec()) else { return };
        let Some(s2) = setup_from(w, keep) else { return };
        s = s2;
    }
    let mut store = gs::gen_store(r, &s.w.spec).entities;
    for e in store.iter_mut() {
        shrink_sets(r, &mut e.attrs);
    }
    let Some(ents) = build_entities(&s.w, &store) else { out.count("store_rejected_by_rust_validation"); return };
    let mut q = gt::gen_request_for(r, &s.w.spec, 1, "User", "Doc");
    shrink_sets(r, &mut q.context);
    let mut ps = gen_pspec(r, &store, &ents);
    // the sets of the context are mostly known, the entities the operands talk about mostly not
    ps.ctx_known = r.chance(80);
    ps.r_known = r.chance(45);
    out.count("family:set-membership");
    run_case(out, r, &s, store, q, ps, &format!("{cname} family=set-membership"), k_var);
}

fn one_case(out: &mut Out, r: &mut Rng, cname: &str, k_var: usize) {
    if r.chance(20) {
        return member_case(out, r, cname, k_var);
    }
    let n_pol = 1 + r.below(5);
    let Some(s) = gen_setup(r, n_pol) else { out.count("no_valid_policies"); return };
    let store = gs::gen_store(r, &s.w.spec).entities;
    let Some(ents) = build_entities(&s.w, &store) else { out.count("store_rejected_by_rust_validation"); return };
    let q = gen_request_near(r, &s);
    let ps = gen_pspec(r, &store, &ents);
    run_case(out, r, &s, store, q, ps, cname, k_var);
}

/// the minimal input of the `policy_set()` finding, and a hand-made case per statement clause
fn probes(out: &mut Out, r: &mut Rng) {
    let Ok(w) = gs::load(chain_spec()) else { return };
    let text = "permit(principal == User::\"a\", action == Action::\"view\", resource) when { resource.owner == principal };";
    let Some(s) = setup_from(w, vec![(text.to_string(), 1)]) else { return };
    let ent = |t: &str, i: &str, attrs: Vec<(&str, gs::DVal)>| DEntity { uid: (t.into(), i.into()), attrs: attrs.into_iter().map(|(k, v)| (k.to_string(), v)).collect(), parents: vec![], tags: vec![] };
    let store = vec![
        ent("User", "a", vec![("name", gs::DVal::Str("x".into())), ("level", gs::DVal::Long(1)), ("friends", gs::DVal::Set(vec![]))]),
        ent("Doc", "d", vec![("owner", gs::DVal::Ent("User".into(), "a".into())), ("public", gs::DVal::Bool(false))]),
    ];
    let q = DRequest { principal: ("User".into(), "a".into()), action: ("Action".into(), "view".into()), resource: ("Doc".into(), "d".into()), context: vec![("n".into(), gs::DVal::Long(0))] };
    let ps = PSpec { p_known: true, r_known: false, ctx_known: true, ents: store.iter().map(|e| PEnt { uid: e.uid.clone(), present: true, attrs: true, anc: true, tags: true }).collect() };
    run_case(out, r, &s, store, q, ps, "probe=policy_set-view", 2);
}

#[allow(clippy::too_many_arguments)]
fn run_case(out: &mut Out, r: &mut Rng, s: &Setup, store: Vec<DEntity>, q: DRequest, ps: PSpec, cname: &str, k_var: usize) {
    let Some(ents) = build_entities(&s.w, &store) else { out.count("store_rejected_by_rust_validation"); return };
    let Some(req) = build_request(&s.w, &q, true) else { out.count("request_rejected_by_rust_validation"); return };
    let case = format!(
        "{cname} policies=[{}] PARTIAL p={} r={} ctx={} ents=[{}] FROM {} store={} schema={}",
        s.pols.iter().map(|p| format!("{}: {}", p.id, p.text)).collect::<Vec<_>>().join(" "),
        if ps.p_known { "known" } else { "unknown" },
        if ps.r_known { "known" } else { "unknown" },
        if ps.ctx_known { "known" } else { "unknown" },
        ps.ents.iter().map(|e| format!("{}:{}", gt::uid_text(&e.uid), if !e.present { "absent".to_string() } else { format!("{}{}{}", if e.attrs { "A" } else { "-" }, if e.anc { "N" } else { "-" }, if e.tags { "T" } else { "-" }) })).collect::<Vec<_>>().join(" "),
        req_text(&q),
        store_json(&store),
        s.w.json
    );
    let (preq, pents) = match catch_unwind(AssertUnwindSafe(|| build_partial(&s, &q, &store, &ents, &ps))) {
        Ok(Ok(x)) => x,
        Ok(Err(e)) => {
            out.count("partial_inputs_rejected");
            out.sample(format!("partial inputs rejected: {e}"));
            return;
        }
        Err(p) => {
            out.propfail("panic constructing partial inputs", &case, &panic_msg(p));
            return;
        }
    };
    let resp = match catch_unwind(AssertUnwindSafe(|| s.ps_pub.tpe(&preq, &pents, &s.schema_pub))) {
        Ok(Ok(x)) => x,
        Ok(Err(e)) => {
            out.count("tpe_error");
            out.propfail("tpe fails on validated policies and valid partial inputs", &case, &e.to_string());
            return;
        }
        Err(p) => {
            out.propfail("panic in tpe", &case, &panic_msg(p));
            return;
        }
    };
    out.cases += 1;
    let classes = classes_of(&resp);
    for c in classes.values() {
        out.count(&format!("class:{c}"));
    }
    out.count(&format!("decision:{}", match resp.decision() { Some(api::Decision::Allow) => "allow", Some(api::Decision::Deny) => "deny", None => "none" }));
    out.count(&format!("erased:p={} r={} ctx={}", !ps.p_known as u8, !ps.r_known as u8, !ps.ctx_known as u8));
    for e in &ps.ents {
        out.count(if !e.present { "ent:absent" } else if e.attrs && e.anc && e.tags { "ent:full" } else { "ent:partial" });
        if e.present && !e.anc { out.count("ent:ancestors_unknown"); }
        if e.present && !e.tags { out.count("ent:tags_unknown"); }
        if e.present && !e.attrs { out.count("ent:attrs_unknown"); }
    }
    views_check(out, &s, &resp, &classes, &case);
    // model line
    let (pu, au, ru) = (gs::mk_uid(&q.principal), gs::mk_uid(&q.action), gs::mk_uid(&q.resource));
    let mut prefix: Option<String> = None;
    if let Some(tcs) = typed_conditions(&s, &au, pu.entity_type(), ru.entity_type()) {
        let pfx = format!("{} {} (pols{})", preq_sx(&q, &ps, &ctx_value(&req)), pents_sx(pents.as_ref()), pols_sx(&tcs));
        let mut reply = format!("(tpe {} (", match resp.decision() { Some(api::Decision::Allow) => "allow", Some(api::Decision::Deny) => "deny", None => "none" });
        reply.push_str(&classes.iter().map(|(id, c)| format!("({} {c})", sx::qs(id))).collect::<Vec<_>>().join(" "));
        reply.push_str("))");
        out.line(format!("(tpe {pfx})"), reply, case.clone());
        out.count("tpe_lines");
        prefix = Some(pfx);
        // every 4th case: the typed-AST correspondence for exactly these policies in exactly this environment
        if case.bytes().map(|b| b as u32).sum::<u32>() % 4 == 0 {
            typed_ast_lines(out, &s, &au, pu.entity_type(), ru.entity_type(), &case);
        }
    } else {
        out.count("typed_conditions_unavailable");
    }
    let _ = sx_schema::schema; // the schema itself is not needed by the model (the typed conditions carry what TPE uses)
    // completions
    let mut comps = vec![Completion { q: q.clone(), store: store.clone(), req, ents, original: true }];
    for _ in 0..k_var {
        let (q2, st2) = vary(r, &s, &q, &store, &ps);
        let Some(req2) = build_request(&s.w, &q2, true) else { out.count("variation_request_rejected"); continue };
        let Some(ents2) = build_entities(&s.w, &st2) else { out.count("variation_store_rejected"); continue };
        if q2 == q && st2 == store { out.count("variation_identical"); continue; }
        comps.push(Completion { q: q2, store: st2, req: req2, ents: ents2, original: false });
    }
    for (i, c) in comps.iter().enumerate() {
        check_completion(out, &s, &resp, &classes, c, &case, if i < 2 { prefix.as_deref() } else { None });
    }
    queries_check(out, &s, &comps[0], &case);
    if comps.len() > 1 {
        queries_check(out, &s, &comps[comps.len() - 1], &case);
    }
    // completions that reauthorize accepts are the consistent ones for the action query
    let consistent: Vec<Completion> = comps.into_iter().filter(|c| matches!(catch_unwind(AssertUnwindSafe(|| resp.as_ref().reauthorize(&c.req, &c.ents))), Ok(Ok(_)))).collect();
    action_query_check(out, r, &s, &q, &ps, &pents, &consistent, &case);
    let erased = !ps.p_known || !ps.r_known || !ps.ctx_known || ps.ents.iter().any(|e| !(e.present && e.attrs && e.anc && e.tags));
    if erased && classes.values().any(|c| *c == "residual") {
        out.nontrivial(&format!("{}|{}|{}", s.pols.iter().map(|p| p.text.clone()).collect::<Vec<_>>().join(";"), preq_sx(&q, &ps, &ctx_value(&consistent.first().map(|c| c.req.clone()).unwrap_or_else(|| build_request(&s.w, &q, false).unwrap()))), pents_sx(pents.as_ref())));
    }
    out.sample(format!("decision={:?} classes={classes:?} {}", resp.decision(), s.pols.iter().map(|p| p.text.clone()).collect::<Vec<_>>().join(" ")));
}

pub fn run(args: &Args, out: &mut Out) {
    let mut rng = Rng::new(args.seed);
    let k_var = if args.thorough { 8 } else { 4 };
    probes(out, &mut rng.fork());
    for case in 0..args.n {
        let mut r = rng.fork();
        let sub = r.0;
        one_case(out, &mut r, &format!("case={case} sub={sub}"), k_var);
    }
}
