//! Rust objects -> s-expression text for the Lean driver (DESIGN.md appendix A/B).
//! This serialiser is the only translation the correspondence trusts.
use cedar_policy_core::ast::{
    BinaryOp, EntityUID, Expr, ExprKind, Literal, PatternElem, SlotId, Type, UnaryOp, Value,
    ValueKind, Var, PartialValue,
};
use cedar_policy_core::entities::Entities;
use cedar_policy_core::evaluator::EvaluationError;
use std::fmt::Write;

pub fn qs(s: &str) -> String {
    let mut o = String::with_capacity(s.len() + 2);
    o.push('"');
    for c in s.chars() {
        match c {
            '"' => o.push_str("\\\""),
            '\\' => o.push_str("\\\\"),
            c if (' '..='~').contains(&c) => o.push(c),
            c => {
                write!(o, "\\u{{{:x}}}", c as u32).unwrap();
            }
        }
    }
    o.push('"');
    o
}

pub fn uid(u: &EntityUID) -> String {
    let eid: &str = u.eid().as_ref();
    format!("(e {} {})", qs(&u.entity_type().to_string()), qs(eid))
}

pub fn lit(l: &Literal) -> String {
    match l {
        Literal::Bool(b) => format!("(b {b})"),
        Literal::Long(i) => format!("(i {i})"),
        Literal::String(s) => format!("(s {})", qs(s)),
        Literal::EntityUID(u) => uid(u),
    }
}

/// canonical extension value from the internal state (Debug of the private structs)
pub fn ext_canon(dbg: &str) -> Option<String> {
    let num = |key: &str| -> Option<String> {
        let i = dbg.find(key)? + key.len();
        let rest = &dbg[i..];
        let end = rest.find(|c: char| !(c.is_ascii_digit() || c == '-')).unwrap_or(rest.len());
        Some(rest[..end].to_string())
    };
    if dbg.starts_with("Decimal") {
        Some(format!("(dec {})", num("value: ")?))
    } else if dbg.starts_with("DateTime") {
        Some(format!("(dt {})", num("epoch: ")?))
    } else if dbg.starts_with("Duration") {
        Some(format!("(dur {})", num("ms: ")?))
    } else if dbg.starts_with("IPAddr") {
        let i = dbg.find("addr: ")? + 6;
        let rest = &dbg[i..];
        let end = rest.find(',')?;
        let addr: std::net::IpAddr = rest[..end].parse().ok()?;
        let prefix = num("prefix: ")?;
        Some(match addr {
            std::net::IpAddr::V4(a) => format!("(ip 4 {} {})", u32::from(a), prefix),
            std::net::IpAddr::V6(a) => format!("(ip 6 {} {})", u128::from(a), prefix),
        })
    } else {
        None
    }
}

pub fn value(v: &Value) -> String {
    match &v.value {
        ValueKind::Lit(l) => lit(l),
        ValueKind::Set(s) => {
            let mut xs: Vec<String> = s.iter().map(value).collect();
            xs.sort();
            xs.dedup();
            let mut o = String::from("(set");
            for x in xs {
                o.push(' ');
                o.push_str(&x);
            }
            o.push(')');
            o
        }
        ValueKind::Record(r) => {
            let mut o = String::from("(rec");
            for (k, v) in r.iter() {
                write!(o, " ({} {})", qs(k), value(v)).unwrap();
            }
            o.push(')');
            o
        }
        ValueKind::ExtensionValue(ev) => {
            let dbg = format!("{:?}", ev.value());
            ext_canon(&dbg).unwrap_or_else(|| format!("(unknown-ext {})", qs(&dbg)))
        }
    }
}

pub fn err_class(e: &EvaluationError) -> &'static str {
    match e {
        EvaluationError::TypeError(_) => "type",
        EvaluationError::EntityDoesNotExist(_) => "entity",
        EvaluationError::EntityAttrDoesNotExist(_) => "attr",
        EvaluationError::RecordAttrDoesNotExist(_) => "attr",
        EvaluationError::IntegerOverflow(_) => "overflow",
        EvaluationError::FailedExtensionFunctionLookup(_) => "ext",
        EvaluationError::FailedExtensionFunctionExecution(_) => "ext",
        EvaluationError::WrongNumArguments(_) => "ext",
        EvaluationError::UnlinkedSlot(_) => "slot",
        EvaluationError::NonValue(_) => "residual",
        EvaluationError::RecursionLimit(_) => "recursion",
        _ => "other",
    }
}

pub fn result(r: &Result<Value, EvaluationError>) -> String {
    match r {
        Ok(v) => format!("(ok {})", value(v)),
        Err(e) => format!("(err {})", err_class(e)),
    }
}

fn var(v: Var) -> &'static str {
    match v {
        Var::Principal => "principal",
        Var::Action => "action",
        Var::Resource => "resource",
        Var::Context => "context",
    }
}

pub fn tyann(t: &Type) -> String {
    match t {
        Type::Bool => "bool".into(),
        Type::Long => "long".into(),
        Type::String => "string".into(),
        Type::Set => "set".into(),
        Type::Record => "record".into(),
        Type::Entity { ty } => format!("(entity {})", qs(&ty.to_string())),
        Type::Extension { name } => format!("(ext {})", qs(&name.to_string())),
    }
}

/// `None` when the expression uses something outside the protocol (tolerant-ast error nodes)
pub fn expr(e: &Expr) -> Option<String> {
    expr_with(e, &|_, s| s)
}

/// the same printer over `Expr<T>` for any node data `T` (e.g. the typechecker's `Expr<Option<Type>>`); every node's text is
/// passed through `wrap` together with the node (`expr` = the identity wrap)
pub fn expr_with<T>(e: &Expr<T>, wrap: &dyn Fn(&Expr<T>, String) -> String) -> Option<String> {
    let expr = |x: &Expr<T>| expr_with(x, wrap);
    Some(wrap(e, match e.expr_kind() {
        ExprKind::Lit(l) => format!("(lit {})", lit(l)),
        ExprKind::Var(v) => format!("(var {})", var(*v)),
        ExprKind::Slot(s) => format!(
            "(slot {})",
            if *s == SlotId::principal() { "principal" } else { "resource" }
        ),
        ExprKind::Unknown(u) => match &u.type_annotation {
            None => format!("(unk {})", qs(&u.name)),
            Some(t) => format!("(unk {} {})", qs(&u.name), tyann(t)),
        },
        ExprKind::If { test_expr, then_expr, else_expr } => format!(
            "(ite {} {} {})",
            expr(test_expr)?,
            expr(then_expr)?,
            expr(else_expr)?
        ),
        ExprKind::And { left, right } => format!("(and {} {})", expr(left)?, expr(right)?),
        ExprKind::Or { left, right } => format!("(or {} {})", expr(left)?, expr(right)?),
        ExprKind::UnaryApp { op, arg } => format!(
            "(un {} {})",
            match op {
                UnaryOp::Not => "not",
                UnaryOp::Neg => "neg",
                UnaryOp::IsEmpty => "isEmpty",
            },
            expr(arg)?
        ),
        ExprKind::BinaryApp { op, arg1, arg2 } => format!(
            "(bin {} {} {})",
            match op {
                BinaryOp::Eq => "eq",
                BinaryOp::Less => "less",
                BinaryOp::LessEq => "lessEq",
                BinaryOp::Add => "add",
                BinaryOp::Sub => "sub",
                BinaryOp::Mul => "mul",
                BinaryOp::In => "in",
                BinaryOp::Contains => "contains",
                BinaryOp::ContainsAll => "containsAll",
                BinaryOp::ContainsAny => "containsAny",
                BinaryOp::GetTag => "getTag",
                BinaryOp::HasTag => "hasTag",
            },
            expr(arg1)?,
            expr(arg2)?
        ),
        ExprKind::ExtensionFunctionApp { fn_name, args } => {
            let mut o = format!("(call {}", qs(&fn_name.to_string()));
            for a in args.iter() {
                o.push(' ');
                o.push_str(&expr(a)?);
            }
            o.push(')');
            o
        }
        ExprKind::GetAttr { expr: e, attr } => format!("(get {} {})", expr(e)?, qs(attr)),
        ExprKind::HasAttr { expr: e, attr } => format!("(has {} {})", expr(e)?, qs(attr)),
        ExprKind::Like { expr: e, pattern } => {
            format!("(like {} {})", expr(e)?, pattern_sx(pattern.get_elems()))
        }
        ExprKind::Is { expr: e, entity_type } => {
            format!("(is {} {})", expr(e)?, qs(&entity_type.to_string()))
        }
        ExprKind::Set(xs) => {
            let mut o = String::from("(set");
            for a in xs.iter() {
                o.push(' ');
                o.push_str(&expr(a)?);
            }
            o.push(')');
            o
        }
        ExprKind::Record(m) => {
            let mut o = String::from("(rec");
            for (k, v) in m.iter() {
                write!(o, " ({} {})", qs(k), expr(v)?).unwrap();
            }
            o.push(')');
            o
        }
        #[allow(unreachable_patterns)]
        _ => return None,
    }))
}

pub fn pattern_sx(elems: &[PatternElem]) -> String {
    let mut o = String::from("(pat");
    for pe in elems {
        match pe {
            PatternElem::Char(c) => write!(o, " {}", *c as u32).unwrap(),
            PatternElem::Wildcard => o.push_str(" star"),
        }
    }
    o.push(')');
    o
}

fn pv(p: &PartialValue) -> Option<String> {
    match p {
        PartialValue::Value(v) => Some(value(v)),
        PartialValue::Residual(_) => None,
    }
}

/// the store as the evaluator sees it: per entity attrs, *all* ancestors, tags.
/// `None` if some attribute is a residual (partial store) — such stores use another op.
pub fn entities(es: &Entities) -> Option<String> {
    let mut ents: Vec<(String, String)> = Vec::new();
    for e in es.iter() {
        let mut o = format!("(ent {} (attrs", uid(e.uid()));
        let mut attrs: Vec<_> = e.attrs().collect();
        attrs.sort_by(|a, b| a.0.cmp(b.0));
        for (k, v) in attrs {
            write!(o, " ({} {})", qs(k), pv(v)?).unwrap();
        }
        o.push_str(") (anc");
        let mut anc: Vec<String> = e.ancestors().map(uid).collect();
        anc.sort();
        for a in anc {
            o.push(' ');
            o.push_str(&a);
        }
        o.push_str(") (tags");
        let mut tags: Vec<_> = e.tags().collect();
        tags.sort_by(|a, b| a.0.cmp(b.0));
        for (k, v) in tags {
            write!(o, " ({} {})", qs(k), pv(v)?).unwrap();
        }
        o.push_str("))");
        ents.push((uid(e.uid()), o));
    }
    ents.sort();
    let mut o = String::from("(entities");
    for (_, e) in ents {
        o.push(' ');
        o.push_str(&e);
    }
    o.push(')');
    Some(o)
}

pub fn request(p: &EntityUID, a: &EntityUID, r: &EntityUID, ctx: &Value) -> String {
    let mut o = format!("(req {} {} {} (ctx", uid(p), uid(a), uid(r));
    if let ValueKind::Record(rec) = &ctx.value {
        for (k, v) in rec.iter() {
            write!(o, " ({} {})", qs(k), value(v)).unwrap();
        }
    }
    o.push_str("))");
    o
}

pub fn ids<'a>(xs: impl Iterator<Item = String>) -> String {
    let mut v: Vec<String> = xs.map(|s| qs(&s)).collect();
    v.sort();
    format!("({})", v.join(" "))
}
