//! C19: the JSON/FFI interface (cedar_policy::ffi), its stateful cache and the CLI give exactly the answers
//! of the Rust API. Implementation-vs-implementation (out.propfail on mismatch); only the cache histories
//! also go to the Lean model (`(ffi (ops …))`).
//!   stream c19    : (a) stateless is_authorized in every input shape vs Authorizer::is_authorized on API-parsed inputs
//!                   (b) validate / check_parse_* / format / conversions vs the API
//!   stream c19h   : (c) cache histories: stateful vs stateless on the latest registered documents, and vs the model
//!   stream c19cli : (d) the `cedar` binary built from /repo: exit status + printed decision vs the API
use crate::c01::{self, PolSpec};
use crate::gen::{self, ExprGen, Ty, World};
use crate::out::Out;
use crate::rng::Rng;
use crate::sx;
use crate::Args;
use cedar_policy as cp;
use cedar_policy::ffi;
use cedar_policy_core::ast::{Context, Effect, Entity, EntityUID, RestrictedExpr};
use cedar_policy_core::entities::{Entities, NoEntitiesSchema, TCComputation};
use cedar_policy_core::extensions::Extensions;
use serde_json::{json, Map, Value};
use smol_str::SmolStr;
use std::collections::{HashMap, HashSet};
use std::panic::{catch_unwind, AssertUnwindSafe};
use std::str::FromStr;

// ---------------------------------------------------------------------------------------------
// canonical answers

pub fn canon(decision_allow: bool, reasons: Vec<String>, errs: Vec<String>) -> String {
    format!("(resp {} {} {})", if decision_allow { "allow" } else { "deny" }, sx::ids(reasons.into_iter()), sx::ids(errs.into_iter()))
}

fn canon_api(r: &cp::Response) -> String {
    canon(
        r.decision() == cp::Decision::Allow,
        r.diagnostics().reason().map(|i| AsRef::<str>::as_ref(i).to_string()).collect(),
        r.diagnostics().errors().map(|e| match e { cp::AuthorizationError::PolicyEvaluationError(e) => AsRef::<str>::as_ref(e.policy_id()).to_string() }).collect(),
    )
}

fn canon_ffi_typed(a: &ffi::AuthorizationAnswer) -> String {
    match a {
        ffi::AuthorizationAnswer::Failure { .. } => "failure".into(),
        ffi::AuthorizationAnswer::Success { response, .. } => canon(
            response.decision() == cp::Decision::Allow,
            response.diagnostics().reason().map(|i| AsRef::<str>::as_ref(i).to_string()).collect(),
            response.diagnostics().errors().map(|e| AsRef::<str>::as_ref(&e.policy_id).to_string()).collect(),
        ),
    }
}

/// canonical form of a serialized `AuthorizationAnswer`
fn canon_ffi_json(v: &Value) -> String {
    match v["type"].as_str() {
        Some("failure") => "failure".into(),
        Some("success") => {
            let d = &v["response"]["diagnostics"];
            let strs = |x: &Value, f: &dyn Fn(&Value) -> Option<String>| -> Vec<String> {
                x.as_array().map(|a| a.iter().map(|e| f(e).unwrap_or_else(|| "<?>".into())).collect()).unwrap_or_else(|| vec!["<not-an-array>".into()])
            };
            let dec = v["response"]["decision"].as_str().unwrap_or("?");
            if dec != "allow" && dec != "deny" { return format!("(bad-decision {dec})"); }
            canon(dec == "allow", strs(&d["reason"], &|e| e.as_str().map(String::from)), strs(&d["errors"], &|e| e["policyId"].as_str().map(String::from)))
        }
        _ => format!("(bad-answer {})", v),
    }
}

fn is_success(v: &Value) -> Option<bool> {
    match v["type"].as_str() { Some("success") => Some(true), Some("failure") => Some(false), _ => None }
}

fn chain<E: std::error::Error>(e: E) -> String {
    let mut s = e.to_string();
    let mut src = e.source();
    while let Some(x) = src { s.push_str(": "); s.push_str(&x.to_string()); src = x.source(); }
    s
}

fn guard<T>(f: impl FnOnce() -> T) -> Result<T, String> {
    catch_unwind(AssertUnwindSafe(f)).map_err(crate::c02::panic_msg)
}

// ---------------------------------------------------------------------------------------------
// documents: schema (both syntaxes), policy sets (every shape) with the API-built reference

#[derive(Clone)]
pub enum SchemaIn { Json(Value), Cedar(String) }

impl SchemaIn {
    fn to_ffi(&self) -> Value { match self { SchemaIn::Json(v) => v.clone(), SchemaIn::Cedar(s) => Value::String(s.clone()) } }
    fn api(&self) -> Result<cp::Schema, String> {
        match self {
            SchemaIn::Json(v) => cp::Schema::from_json_value(v.clone()).map_err(|e| e.to_string()),
            SchemaIn::Cedar(s) => cp::Schema::from_cedarschema_str(s).map(|(s, _)| s).map_err(|e| e.to_string()),
        }
    }
    fn api_fragment(&self) -> Result<cp::SchemaFragment, String> {
        match self {
            SchemaIn::Json(v) => cp::SchemaFragment::from_json_value(v.clone()).map_err(|e| e.to_string()),
            SchemaIn::Cedar(s) => cp::SchemaFragment::from_cedarschema_str(s).map(|(s, _)| s).map_err(|e| e.to_string()),
        }
    }
    fn kind(&self) -> &'static str { match self { SchemaIn::Json(_) => "schema-json", SchemaIn::Cedar(_) => "schema-cedar" } }
}

fn ty_json(t: Ty, depth: u32) -> Value {
    match t {
        Ty::Bool => json!({"type": "Boolean"}),
        Ty::Long => json!({"type": "Long"}),
        Ty::Str => json!({"type": "String"}),
        Ty::Entity => json!({"type": "Entity", "name": "User"}),
        Ty::SetLong => json!({"type": "Set", "element": {"type": "Long"}}),
        Ty::SetStr => json!({"type": "Set", "element": {"type": "String"}}),
        Ty::SetEntity => json!({"type": "Set", "element": {"type": "Entity", "name": "User"}}),
        Ty::Record => rec_json(depth, &[]),
        Ty::Decimal => json!({"type": "Extension", "name": "decimal"}),
        Ty::Ip => json!({"type": "Extension", "name": "ipaddr"}),
        Ty::Datetime => json!({"type": "Extension", "name": "datetime"}),
        Ty::Duration => json!({"type": "Extension", "name": "duration"}),
    }
}

/// record of all attributes of the pool, all optional; nested records one level shallower
fn rec_json(depth: u32, drop: &[&str]) -> Value {
    let mut attrs = Map::new();
    for (k, t) in gen::ATTRS {
        if drop.contains(k) { continue; }
        if *t == Ty::Record && depth == 0 { continue; }
        let mut tj = ty_json(*t, depth.saturating_sub(1));
        tj.as_object_mut().unwrap().insert("required".into(), Value::Bool(false));
        attrs.insert((*k).into(), tj);
    }
    json!({"type": "Record", "attributes": attrs})
}

fn ty_cedar(t: Ty, depth: u32) -> String {
    match t {
        Ty::Bool => "Bool".into(),
        Ty::Long => "Long".into(),
        Ty::Str => "String".into(),
        Ty::Entity => "User".into(),
        Ty::SetLong => "Set<Long>".into(),
        Ty::SetStr => "Set<String>".into(),
        Ty::SetEntity => "Set<User>".into(),
        Ty::Record => rec_cedar(depth, &[]),
        Ty::Decimal => "decimal".into(),
        Ty::Ip => "ipaddr".into(),
        Ty::Datetime => "datetime".into(),
        Ty::Duration => "duration".into(),
    }
}

fn rec_cedar(depth: u32, drop: &[&str]) -> String {
    let mut s = String::from("{");
    let mut first = true;
    for (k, t) in gen::ATTRS {
        if drop.contains(k) { continue; }
        if *t == Ty::Record && depth == 0 { continue; }
        if !first { s.push_str(", "); }
        first = false;
        s.push_str(&format!("\"{}\"?: {}", k, ty_cedar(*t, depth.saturating_sub(1))));
    }
    s.push('}');
    s
}

pub struct SchemaSpec {
    pub tag: usize,
    /// action id -> (principal types, resource types)
    pub applies: Vec<(&'static str, Vec<&'static str>, Vec<&'static str>)>,
    /// attribute left out of every action's context type
    pub ctx_drop: Option<&'static str>,
}

pub const ACTIONS: &[&str] = &["a", "b", "c", "d"];

pub fn gen_schema_spec(r: &mut Rng, tag: usize, full: bool) -> SchemaSpec {
    let mut applies = Vec::new();
    for a in ACTIONS {
        let ps: Vec<&'static str> = if full || r.chance(60) { vec!["User", "Group"] } else if r.chance(70) { vec!["User"] } else { vec!["Group"] };
        let rs: Vec<&'static str> = if full || r.chance(60) { vec!["NS::Doc", "Group"] } else if r.chance(70) { vec!["NS::Doc"] } else { vec!["Group"] };
        applies.push((*a, ps, rs));
    }
    let ctx_drop = if !full && r.chance(10) { Some(gen::ATTRS[r.below(gen::ATTRS.len())].0) } else { None };
    SchemaSpec { tag, applies, ctx_drop }
}

impl SchemaSpec {
    pub fn json(&self) -> Value {
        let ent = |parents: Vec<&str>| json!({"memberOfTypes": parents, "shape": rec_json(3, &[]), "tags": {"type": "Long"}});
        let drop: Vec<&str> = self.ctx_drop.iter().cloned().collect();
        let mut actions = Map::new();
        let g = format!("g{}", self.tag);
        actions.insert(g.clone(), json!({}));
        for (a, ps, rs) in &self.applies {
            actions.insert((*a).into(), json!({"memberOf": [{"id": g}], "appliesTo": {"principalTypes": ps, "resourceTypes": rs, "context": rec_json(3, &drop)}}));
        }
        json!({
            "": {"entityTypes": {"User": ent(vec!["Group"]), "Group": ent(vec!["Group"])}, "actions": actions},
            "NS": {"entityTypes": {"Doc": ent(vec!["Group", "NS::Doc"])}, "actions": {}}
        })
    }
    pub fn cedar(&self) -> String {
        let drop: Vec<&str> = self.ctx_drop.iter().cloned().collect();
        let shape = rec_cedar(3, &[]);
        let mut s = String::new();
        s.push_str(&format!("entity User in [Group] {shape} tags Long;\n"));
        s.push_str(&format!("entity Group in [Group] {shape} tags Long;\n"));
        s.push_str(&format!("namespace NS {{ entity Doc in [Group, NS::Doc] {shape} tags Long; }}\n"));
        s.push_str(&format!("action \"g{}\";\n", self.tag));
        for (a, ps, rs) in &self.applies {
            s.push_str(&format!("action \"{a}\" in [\"g{}\"] appliesTo {{ principal: [{}], resource: [{}], context: {} }};\n", self.tag, ps.join(", "), rs.join(", "), rec_cedar(3, &drop)));
        }
        s
    }
    pub fn doc(&self, cedar_syntax: bool) -> SchemaIn { if cedar_syntax { SchemaIn::Cedar(self.cedar()) } else { SchemaIn::Json(self.json()) } }
}

/// a restricted expression of the schema's type for `ty` (entity-typed values are Users)
fn gen_rexpr_s(r: &mut Rng, ty: Ty, depth: u32) -> RestrictedExpr {
    let user = |r: &mut Rng| gen::mk_uid("User", gen::EIDS[r.below(4)]);
    match ty {
        Ty::Entity => RestrictedExpr::val(user(r)),
        Ty::SetEntity => { let n = r.below(4); RestrictedExpr::set((0..n).map(|_| RestrictedExpr::val(user(r))).collect::<Vec<_>>()) }
        Ty::Record => {
            let mut kvs: Vec<(SmolStr, RestrictedExpr)> = Vec::new();
            if depth > 0 {
                for (k, t) in gen::ATTRS { if r.chance(25) { kvs.push(((*k).into(), gen_rexpr_s(r, *t, depth - 1))); } }
            }
            RestrictedExpr::record(kvs).expect("no dup keys")
        }
        t => gen::gen_rexpr(r, t, depth),
    }
}

/// a world that conforms to every `SchemaSpec` with full appliesTo lists (no action entities in the store)
pub fn gen_world_s(r: &mut Rng) -> World {
    let mut present: Vec<EntityUID> = Vec::new();
    for ty in ["User", "Group", "NS::Doc"] {
        for eid in &gen::EIDS[..4] { if r.chance(60) { present.push(gen::mk_uid(ty, eid)); } }
    }
    let mut order = present.clone();
    for i in (1..order.len()).rev() { let j = r.below(i + 1); order.swap(i, j); }
    let allowed = |child: &EntityUID, parent: &EntityUID| -> bool {
        let (c, p) = (child.entity_type().to_string(), parent.entity_type().to_string());
        p == "Group" || (c == "NS::Doc" && p == "NS::Doc")
    };
    let mut ents = Vec::new();
    for (i, u) in order.iter().enumerate() {
        let mut parents = HashSet::new();
        for _ in 0..r.below(3) {
            if i + 1 < order.len() {
                let j = i + 1 + r.below(order.len() - i - 1);
                if allowed(u, &order[j]) { parents.insert(order[j].clone()); }
            }
        }
        let mut attrs: Vec<(SmolStr, RestrictedExpr)> = Vec::new();
        for (k, t) in gen::ATTRS { if r.chance(55) { attrs.push(((*k).into(), gen_rexpr_s(r, *t, 2))); } }
        let mut tags: Vec<(SmolStr, RestrictedExpr)> = Vec::new();
        for (k, t) in gen::TAGS { if r.chance(40) { tags.push(((*k).into(), gen_rexpr_s(r, *t, 1))); } }
        ents.push(Entity::new(u.clone(), attrs, HashSet::new(), parents, tags, Extensions::all_available()).expect("entity"));
    }
    let entities = Entities::from_entities(ents, None::<&NoEntitiesSchema>, TCComputation::ComputeNow, Extensions::all_available()).expect("acyclic");
    let principal = gen::mk_uid(if r.chance(75) { "User" } else { "Group" }, gen::EIDS[r.below(4)]);
    let action = gen::mk_uid("Action", ACTIONS[r.below(4)]);
    let resource = gen::mk_uid(if r.chance(75) { "NS::Doc" } else { "Group" }, gen::EIDS[r.below(4)]);
    let mut ctx: Vec<(SmolStr, RestrictedExpr)> = Vec::new();
    for (k, t) in gen::ATTRS { if r.chance(55) { ctx.push(((*k).into(), gen_rexpr_s(r, *t, 2))); } }
    let context = Context::from_pairs(ctx, Extensions::all_available()).expect("context");
    World { entities, uids_present: present, principal, action, resource, context }
}

/// `gen::gen_world` minus what no JSON entity document can express: action entities with non-action ancestors
/// (`Entities::from_json_value` rejects them with or without a schema)
pub fn gen_world_json(r: &mut Rng) -> World {
    let mut w = gen::gen_world(r);
    let is_action = |u: &EntityUID| u.entity_type().to_string() == "Action";
    let mut ents: Vec<Entity> = w.entities.iter().cloned().collect();
    for e in ents.iter_mut() {
        if is_action(e.uid()) {
            let bad: Vec<EntityUID> = e.ancestors().filter(|a| !is_action(a)).cloned().collect();
            for b in bad { e.remove_parent(&b); e.remove_indirect_ancestor(&b); }
        }
    }
    // recompute the closure from the remaining direct parents
    for e in ents.iter_mut() { e.remove_all_indirect_ancestors(); }
    w.entities = Entities::from_entities(ents, None::<&NoEntitiesSchema>, TCComputation::ComputeNow, Extensions::all_available()).expect("still acyclic");
    w
}

pub fn uid_json(r: &mut Rng, u: &EntityUID) -> Value {
    let (t, i) = (u.entity_type().to_string(), AsRef::<str>::as_ref(u.eid()).to_string());
    if r.chance(50) { json!({"type": t, "id": i}) } else { json!({"__entity": {"type": t, "id": i}}) }
}

pub struct WorldJson { pub principal: Value, pub action: Value, pub resource: Value, pub context: Value, pub entities: Value }

pub fn world_json(r: &mut Rng, w: &World) -> Result<WorldJson, String> {
    let entities = cp::Entities::from(w.entities.clone()).to_json_value().map_err(|e| format!("entities to_json: {e}"))?;
    let context = cp::Context::from(w.context.clone()).to_json_value().map_err(|e| format!("context to_json: {e}"))?;
    Ok(WorldJson { principal: uid_json(r, &w.principal), action: uid_json(r, &w.action), resource: uid_json(r, &w.resource), context, entities })
}

#[derive(Clone, Copy, PartialEq, Debug)]
pub enum Shape { Concat, Set, Map }

pub struct PsetDoc {
    pub json: Value,
    pub reference: Result<cp::PolicySet, String>,
    /// id in this document -> id of the generating spec
    pub unrename: HashMap<String, String>,
    pub desc: String,
}

fn pid(s: &str) -> cp::PolicyId { cp::PolicyId::new(s) }

/// Build the FFI document and — through the API's own constructors, one policy at a time — the reference set.
/// `est_pct`: share of policies/templates given as JSON (EST) instead of text (not for Concat).
/// `corrupt`: 0 none, 1 syntax error, 2 link to a missing template, 3 link without slot values, 4 template among the statics, 5 clashing ids
pub fn build_pset(r: &mut Rng, specs: &[PolSpec], shape: Shape, est_pct: u32, corrupt: u32, extra_static: &[(String, String)]) -> PsetDoc {
    let mut reference: Result<cp::PolicySet, String> = Ok(cp::PolicySet::new());
    let mut unrename = HashMap::new();
    let mut fail = |reference: &mut Result<cp::PolicySet, String>, e: String| { if reference.is_ok() { *reference = Err(e); } };
    let mut statics: Vec<(String, String)> = extra_static.to_vec();
    for s in specs.iter().filter(|s| s.link.is_none()) { statics.push((s.id.clone(), s.text.clone())); }
    if corrupt == 1 && !statics.is_empty() { let k = r.below(statics.len()); statics[k].1 = statics[k].1.replacen("(", "((", 1); }
    if corrupt == 4 { statics.push(("tmpl-in-static".into(), "permit(principal == ?principal, action, resource);".into())); }
    let est_of = |text: &str| -> Option<Value> { cp::Policy::parse(None, text).ok().and_then(|p| p.to_json().ok()) };
    let mut pieces: Vec<String> = Vec::new();
    let static_json: Value = match shape {
        Shape::Concat => {
            for (k, (id, text)) in statics.iter().enumerate() {
                let new_id = format!("policy{k}");
                unrename.insert(new_id.clone(), id.clone());
                match cp::Policy::parse(Some(pid(&new_id)), text) {
                    Ok(p) => { if let Ok(ps) = reference.as_mut() { if let Err(e) = ps.add(p) { fail(&mut reference, e.to_string()); } } }
                    Err(e) => fail(&mut reference, e.to_string()),
                }
                pieces.push(text.clone());
            }
            let sep = *r.pick(&["\n", " ", "\n// c\n", ""]);
            Value::String(pieces.join(sep))
        }
        Shape::Set | Shape::Map => {
            let mut arr = Vec::new();
            let mut map = Map::new();
            let mut parsed = Vec::new();
            for (id, text) in statics.iter() {
                let id_opt = if shape == Shape::Map { Some(pid(id)) } else { None };
                unrename.insert(if shape == Shape::Map { id.clone() } else { "policy0".into() }, id.clone());
                let est = if r.chance(est_pct) { est_of(text) } else { None };
                let (doc, res) = match est {
                    Some(j) => (j.clone(), cp::Policy::from_json(id_opt, j).map_err(|e| e.to_string())),
                    None => (Value::String(text.clone()), cp::Policy::parse(id_opt, text).map_err(|e| e.to_string())),
                };
                match res { Ok(p) => parsed.push(p), Err(e) => fail(&mut reference, e) }
                if shape == Shape::Map { map.insert(id.clone(), doc); } else { arr.push(doc); }
            }
            if reference.is_ok() { reference = cp::PolicySet::from_policies(parsed).map_err(|e| e.to_string()); }
            if shape == Shape::Map { Value::Object(map) } else { Value::Array(arr) }
        }
    };
    let mut templates = Map::new();
    let mut links = Vec::new();
    for s in specs.iter() {
        let Some((lp, lr)) = &s.link else { continue };
        let tid = format!("T-{}", s.id);
        let est = if r.chance(est_pct) { cp::Template::parse(None, &s.text).ok().and_then(|t| t.to_json().ok()) } else { None };
        let (doc, res) = match est {
            Some(j) => (j.clone(), cp::Template::from_json(Some(pid(&tid)), j).map_err(|e| e.to_string())),
            None => (Value::String(s.text.clone()), cp::Template::parse(Some(pid(&tid)), &s.text).map_err(|e| e.to_string())),
        };
        templates.insert(tid.clone(), doc);
        match res {
            Ok(t) => { if let Ok(ps) = reference.as_mut() { if let Err(e) = ps.add_template(t) { fail(&mut reference, e.to_string()); } } }
            Err(e) => fail(&mut reference, e),
        }
        let link_tid = if corrupt == 2 { format!("{tid}-missing") } else { tid.clone() };
        let new_id = if corrupt == 5 && !statics.is_empty() && shape == Shape::Map { statics[0].0.clone() } else { s.id.clone() };
        unrename.entry(new_id.clone()).or_insert(s.id.clone());
        let mut vals_json = Map::new();
        let mut vals = HashMap::new();
        if corrupt != 3 {
            if let Some(u) = lp { vals_json.insert("?principal".into(), uid_json(r, u)); vals.insert(cp::SlotId::principal(), cp::EntityUid::from(u.clone())); }
            if let Some(u) = lr { vals_json.insert("?resource".into(), uid_json(r, u)); vals.insert(cp::SlotId::resource(), cp::EntityUid::from(u.clone())); }
        }
        links.push(json!({"templateId": link_tid, "newId": new_id, "values": vals_json}));
        if let Ok(ps) = reference.as_mut() {
            if let Err(e) = ps.link(pid(&link_tid), pid(&new_id), vals) { fail(&mut reference, e.to_string()); }
        }
    }
    let mut doc = Map::new();
    // omit empty members sometimes: all three have serde defaults
    if !(statics.is_empty() && r.chance(50)) { doc.insert("staticPolicies".into(), static_json); }
    if !(templates.is_empty() && r.chance(50)) { doc.insert("templates".into(), Value::Object(templates)); }
    if !(links.is_empty() && r.chance(50)) { doc.insert("templateLinks".into(), Value::Array(links)); }
    let desc = format!("{:?} est{}% corrupt{} :: {}", shape, est_pct, corrupt,
        specs.iter().map(|s| format!("{}{}: {}", s.id, if s.link.is_some() { "[linked]" } else { "" }, s.text)).collect::<Vec<_>>().join(" || "));
    PsetDoc { json: Value::Object(doc), reference, unrename, desc }
}

pub fn gen_specs(r: &mut Rng, g: &mut ExprGen, w: &World, max: usize) -> Vec<PolSpec> {
    let n = r.below(max + 1);
    (0..n).map(|i| {
        let eff = if r.chance(65) { Effect::Permit } else { Effect::Forbid };
        let outcome = if r.chance(50) { 3 } else { r.below(3) as u32 };
        let t = r.chance(30);
        let mut s = c01::gen_policy(r, g, w, &format!("p{i}"), eff, outcome, t);
        if let Some((None, None)) = s.link { s.link = None; } // no slot: a static policy (Template::parse rejects it)
        s
    }).collect()
}

/// the Rust API on the same inputs: every piece parsed by the API's own constructors
pub fn ref_auth(wj: &WorldJson, schema: &Option<SchemaIn>, validate: bool, ps: &Result<cp::PolicySet, String>) -> Result<String, String> {
    let schema = match schema { Some(s) => Some(s.api()?), None => None };
    let p = cp::EntityUid::from_json(wj.principal.clone()).map_err(|e| e.to_string())?;
    let a = cp::EntityUid::from_json(wj.action.clone()).map_err(|e| e.to_string())?;
    let r = cp::EntityUid::from_json(wj.resource.clone()).map_err(|e| e.to_string())?;
    let ctx = cp::Context::from_json_value(wj.context.clone(), schema.as_ref().map(|s| (s, &a))).map_err(|e| e.to_string())?;
    let req = cp::Request::new(p, a, r, ctx, if validate { schema.as_ref() } else { None }).map_err(|e| e.to_string())?;
    let ents = cp::Entities::from_json_value(wj.entities.clone(), schema.as_ref()).map_err(chain)?;
    let ps = ps.as_ref().map_err(|e| e.clone())?;
    Ok(canon_api(&cp::Authorizer::new().is_authorized(&req, ps, &ents)))
}

pub fn auth_call_json(r: &mut Rng, wj: &WorldJson, schema: &Option<SchemaIn>, validate: bool, policies: &Value) -> Value {
    let mut m = Map::new();
    m.insert("principal".into(), wj.principal.clone());
    m.insert("action".into(), wj.action.clone());
    m.insert("resource".into(), wj.resource.clone());
    m.insert("context".into(), wj.context.clone());
    if let Some(s) = schema { m.insert("schema".into(), s.to_ffi()); }
    if !(validate && r.chance(50)) { m.insert("validateRequest".into(), Value::Bool(validate)); } // default is true
    m.insert("policies".into(), policies.clone());
    m.insert("entities".into(), wj.entities.clone());
    Value::Object(m)
}

/// the stateless FFI through its three entry points; they must agree with each other
fn ffi_auth(call: &Value, out: &mut Out, desc: &str, all_routes: bool) -> Option<String> {
    let a = match guard(|| ffi::is_authorized_json(call.clone())) {
        Ok(Ok(v)) => canon_ffi_json(&v),
        Ok(Err(e)) => format!("(not-a-call {})", e.to_string().chars().take(80).collect::<String>()),
        Err(p) => { out.propfail("panic in ffi::is_authorized_json", desc, &p); return None; }
    };
    if !all_routes { return Some(a); }
    out.count("auth_three_entry_points");
    let b = match guard(|| serde_json::from_value::<ffi::AuthorizationCall>(call.clone()).map(ffi::is_authorized)) {
        Ok(Ok(ans)) => canon_ffi_typed(&ans),
        Ok(Err(e)) => format!("(not-a-call {})", e.to_string().chars().take(80).collect::<String>()),
        Err(p) => { out.propfail("panic in ffi::is_authorized", desc, &p); return None; }
    };
    let c = match guard(|| ffi::is_authorized_json_str(&call.to_string())) {
        Ok(Ok(s)) => serde_json::from_str::<Value>(&s).map(|v| canon_ffi_json(&v)).unwrap_or_else(|_| "(unparsable-answer)".into()),
        Ok(Err(e)) => format!("(not-a-call {})", e.to_string().chars().take(80).collect::<String>()),
        Err(p) => { out.propfail("panic in ffi::is_authorized_json_str", desc, &p); return None; }
    };
    if a != b || a != c {
        out.propfail("ffi is_authorized / _json / _json_str disagree", desc, &format!("json {a} ; typed {b} ; str {c} ; call {call}"));
    }
    Some(a)
}

/// mutations that make a schema world non-conformant (or the request invalid)
fn mutate_world(r: &mut Rng, w: &mut World, wj: &mut WorldJson) -> &'static str {
    match r.below(6) {
        0 => { w.principal = gen::mk_uid("Action", "a"); wj.principal = uid_json(r, &w.principal); "principal-of-action-type" }
        1 => { w.principal = gen::mk_uid("Nope", "a"); wj.principal = uid_json(r, &w.principal); "principal-of-unknown-type" }
        2 => { w.action = gen::mk_uid("Action", "zz"); wj.action = uid_json(r, &w.action); "unknown-action" }
        3 => { wj.context.as_object_mut().unwrap().insert("n".into(), json!("not a long")); "context-wrong-type" }
        4 => { wj.context.as_object_mut().unwrap().insert("undeclared".into(), json!(1)); "context-extra-attr" }
        _ => {
            if let Some(e) = wj.entities.as_array_mut().and_then(|a| a.first_mut()) { e["attrs"]["n"] = json!("not a long"); }
            "entity-attr-wrong-type"
        }
    }
}

// ---------------------------------------------------------------------------------------------
// (a) stateless authorization

fn auth_case(r: &mut Rng, g: &mut ExprGen, out: &mut Out, idx: u64) {
    let with_schema = r.chance(55);
    let mut w = if with_schema { gen_world_s(r) } else { gen_world_json(r) };
    let mut wj = match world_json(r, &w) { Ok(x) => x, Err(e) => { out.count("world_not_serializable"); out.count(&format!("unser_{}", e.chars().take(40).collect::<String>())); return; } };
    let (schema, sdesc) = if with_schema {
        let spec = { let full = r.chance(35); gen_schema_spec(r, idx as usize % 10, full) };
        let cedar = r.chance(50);
        (Some(spec.doc(cedar)), format!("{} drop={:?} applies={:?}", if cedar { "schema-cedar" } else { "schema-json" }, spec.ctx_drop, spec.applies))
    } else { (None, "no-schema".to_string()) };
    let mutation = if with_schema && r.chance(25) { mutate_world(r, &mut w, &mut wj) } else { "conformant" };
    let specs = gen_specs(r, g, &w, 6);
    let shape = *r.pick(&[Shape::Concat, Shape::Map, Shape::Map, Shape::Set]);
    let specs: Vec<PolSpec> = if shape == Shape::Set && r.chance(70) { specs.into_iter().filter(|s| s.link.is_some()).chain(std::iter::once(c01::gen_policy(r, g, &w, "p9", Effect::Permit, 3, false))).collect() } else { specs };
    let est_pct = if shape == Shape::Concat { 0 } else { *r.pick(&[0, 50, 100]) };
    let corrupt = if r.chance(12) { 1 + r.below(5) as u32 } else { 0 };
    let doc = build_pset(r, &specs, shape, est_pct, corrupt, &[]);
    // validate_request on and off on the same inputs
    let mut answers = Vec::new();
    for validate in [true, false] {
        let call = auth_call_json(r, &wj, &schema, validate, &doc.json);
        let desc = format!("auth {sdesc} {mutation} validate={validate} {}", doc.desc);
        let Some(got) = ffi_auth(&call, out, &desc, idx % 3 == 0) else { continue };
        let want = match guard(|| ref_auth(&wj, &schema, validate, &doc.reference)) {
            Ok(Ok(s)) => s,
            Ok(Err(e)) => { out.count(&format!("auth_failure_because_{}", e.chars().take(48).collect::<String>().replace('\n', " "))); "failure".to_string() }
            Err(p) => { out.propfail("panic in the API route", &desc, &p); continue; }
        };
        out.count("auth_calls");
        out.count(&format!("auth_shape_{:?}{}", shape, if est_pct > 0 { "+est" } else { "" }));
        out.count(&format!("auth_{}", schema.as_ref().map(|s| s.kind()).unwrap_or("no-schema")));
        if got != want {
            out.propfail("ffi::is_authorized differs from Authorizer::is_authorized on the same inputs", &desc, &format!("ffi {got} ; api {want} ; call {call}"));
        }
        out.count(if got == "failure" { "auth_failure" } else if got.starts_with("(resp allow") { "auth_allow" } else { "auth_deny" });
        if got != "failure" {
            if specs.iter().any(|s| s.link.is_some()) { out.count("auth_success_with_links"); }
            if got.contains("(resp") && !got.ends_with("())") { out.count("auth_success_with_erroring"); }
            out.nontrivial(&format!("{}{}{}", doc.json, wj.context, validate));
        }
        out.sample(format!("{desc} ==> {got}"));
        answers.push(got.clone());
        // independent route: the core authorizer on the generated objects (no JSON, no API parsing)
        if schema.is_none() && corrupt == 0 && shape != Shape::Set && got != "failure" {
            let ident = |s: &str| s.to_string();
            let order: Vec<usize> = (0..specs.len()).collect();
            if let Ok(cps) = c01::build(&specs, &order, &ident) {
                let resp = cedar_policy_core::authorizer::Authorizer::new().is_authorized(w.request(), &cps, &w.entities);
                let core = c01::resp_sx(&resp, &ident);
                let unren = |s: &str| doc.unrename.get(s).cloned().unwrap_or_else(|| s.to_string());
                let got_unren = match serde_json::from_value::<ffi::AuthorizationCall>(call.clone()).map(ffi::is_authorized) {
                    Ok(ffi::AuthorizationAnswer::Success { response, .. }) => canon(
                        response.decision() == cp::Decision::Allow,
                        response.diagnostics().reason().map(|i| unren(i.as_ref())).collect(),
                        response.diagnostics().errors().map(|e| unren(e.policy_id.as_ref())).collect()),
                    _ => "failure".into(),
                };
                out.count("auth_core_route");
                if core != got_unren {
                    out.propfail("ffi::is_authorized differs from the core authorizer on the generated objects", &desc, &format!("ffi {got_unren} ; core {core}"));
                }
            }
        }
    }
    if answers.len() == 2 && answers[0] != answers[1] { out.count("auth_validate_request_matters"); }
    if mutation != "conformant" { out.count(&format!("auth_mut_{mutation}")); }
}

// ---------------------------------------------------------------------------------------------
// (b) validate, check_parse_*, format, conversions

fn sorted_ids(v: &Value, key: &str) -> String {
    let mut ids: Vec<String> = v[key].as_array().map(|a| a.iter().map(|e| e["policyId"].as_str().unwrap_or("<?>").to_string()).collect()).unwrap_or_else(|| vec!["<not-an-array>".into()]);
    ids.sort();
    format!("({})", ids.iter().map(|s| sx::qs(s)).collect::<Vec<_>>().join(" "))
}

fn validate_case(r: &mut Rng, g: &mut ExprGen, out: &mut Out, idx: u64) {
    let w = gen_world_s(r);
    let spec = { let full = r.chance(50); gen_schema_spec(r, idx as usize % 10, full) };
    let schema = if r.chance(12) {
        // a schema document that does not parse / is not a valid schema
        match r.below(3) { 0 => SchemaIn::Cedar("entity User in [Nope];".into()), 1 => SchemaIn::Cedar("entity User {".into()), _ => SchemaIn::Json(json!({"": {"entityTypes": {"User": {"memberOfTypes": ["Nope"]}}, "actions": {}}})) }
    } else { spec.doc(r.chance(50)) };
    // policies: a mix of schema-directed well-typed ones and random ones
    let mut specs = Vec::new();
    let n = 1 + r.below(4);
    for i in 0..n {
        let id = format!("p{i}");
        if r.chance(55) {
            let cond = *r.pick(&["principal.n > 0", "principal has s && principal.s == \"a\"", "context has b && context.b", "resource in Group::\"a\"", "principal.f == User::\"a\"",
                "context.n < 3", "principal.nosuch", "principal.n == \"x\"", "1 + \"a\" == 2", "principal.hasTag(\"k1\") && principal.getTag(\"k1\") > 1", "context.d.lessThan(decimal(\"1.0\"))", "true"]);
            let scope = *r.pick(&["principal, action, resource", "principal is User, action == Action::\"a\", resource", "principal, action in [Action::\"a\", Action::\"b\"], resource is NS::Doc", "principal == User::\"a\", action, resource in Group::\"b\"", "principal is Nope, action, resource"]);
            specs.push(PolSpec { id, text: format!("{} ({scope}) when {{ {cond} }};", if r.chance(70) { "permit" } else { "forbid" }), link: None });
        } else {
            let (eff, t) = (if r.chance(70) { Effect::Permit } else { Effect::Forbid }, r.chance(35));
            specs.push(c01::gen_policy(r, g, &w, &id, eff, 3, t));
        }
    }
    let shape = *r.pick(&[Shape::Concat, Shape::Map, Shape::Map]);
    let est_pct = if shape == Shape::Concat { 0 } else { *r.pick(&[0, 50, 100]) };
    let corrupt = if r.chance(10) { 1 + r.below(5) as u32 } else { 0 };
    let doc = build_pset(r, &specs, shape, est_pct, corrupt, &[]);
    let permissive = r.chance(30);
    let mut call = Map::new();
    if permissive || r.chance(50) { call.insert("validationSettings".into(), json!({"mode": if permissive { "permissive" } else { "strict" }})); }
    call.insert("schema".into(), schema.to_ffi());
    call.insert("policies".into(), doc.json.clone());
    let call = Value::Object(call);
    let desc = format!("validate {} {} {}", schema.kind(), if permissive { "permissive" } else { "strict" }, doc.desc);
    let got = match guard(|| ffi::validate_json(call.clone())) {
        Ok(Ok(v)) => match is_success(&v) {
            Some(true) => format!("(validated errors {} warnings {})", sorted_ids(&v, "validationErrors"), sorted_ids(&v, "validationWarnings")),
            Some(false) => "failure".to_string(),
            None => format!("(bad-answer {v})"),
        },
        Ok(Err(e)) => format!("(not-a-call {e})"),
        Err(p) => { out.propfail("panic in ffi::validate_json", &desc, &p); return; }
    };
    let want = guard(|| -> Result<String, String> {
        let ps = doc.reference.as_ref().map_err(|e| e.clone())?;
        let sch = schema.api()?;
        let res = cp::Validator::new(sch).validate(ps, if permissive { cp::ValidationMode::Permissive } else { cp::ValidationMode::Strict });
        let mut e: Vec<String> = res.validation_errors().map(|e| sx::qs(e.policy_id().as_ref())).collect();
        let mut w: Vec<String> = res.validation_warnings().map(|e| sx::qs(e.policy_id().as_ref())).collect();
        e.sort(); w.sort();
        Ok(format!("(validated errors ({}) warnings ({}))", e.join(" "), w.join(" ")))
    });
    let want = match want { Ok(Ok(s)) => s, Ok(Err(_)) => "failure".into(), Err(p) => { out.propfail("panic in the API route (validate)", &desc, &p); return; } };
    out.count("validate_calls");
    out.count(if got == "failure" { "validate_failure" } else if got.starts_with("(validated errors ()") { "validate_passed" } else { "validate_errors" });
    if got != want {
        out.propfail("ffi::validate differs from Validator::validate on the same inputs", &desc, &format!("ffi {got} ; api {want} ; call {call}"));
    }
    out.nontrivial(&call.to_string());
    out.sample(format!("{desc} ==> {got}"));
}

fn check_parse_case(r: &mut Rng, g: &mut ExprGen, out: &mut Out, idx: u64) {
    let mut w = gen_world_s(r);
    let Ok(mut wj) = world_json(r, &w) else { out.count("world_not_serializable"); return };
    let spec = { let full = r.chance(50); gen_schema_spec(r, idx as usize % 10, full) };
    let schema = if r.chance(15) { SchemaIn::Cedar("entity User in [Nope];".into()) } else { spec.doc(r.chance(50)) };
    let mutation = if r.chance(35) { mutate_world(r, &mut w, &mut wj) } else { "conformant" };
    let tf = |b: bool| if b { "success" } else { "failure" }.to_string();
    let ans = |res: Result<Result<Value, serde_json::Error>, String>, out: &mut Out, what: &str, desc: &str| -> Option<String> {
        match res {
            Ok(Ok(v)) => Some(v["type"].as_str().map(String::from).unwrap_or_else(|| format!("(bad-answer {v})"))),
            Ok(Err(e)) => Some(format!("(not-a-call {e})")),
            Err(p) => { out.propfail(&format!("panic in ffi::{what}"), desc, &p); None }
        }
    };
    // policy set
    {
        let specs = gen_specs(r, g, &w, 4);
        let shape = *r.pick(&[Shape::Concat, Shape::Map, Shape::Set]);
        let corrupt = if r.chance(35) { 1 + r.below(5) as u32 } else { 0 };
        let doc = build_pset(r, &specs, shape, if shape == Shape::Concat { 0 } else { 50 }, corrupt, &[]);
        let desc = format!("check_parse_policy_set {}", doc.desc);
        if let Some(got) = ans(guard(|| ffi::check_parse_policy_set_json(doc.json.clone())), out, "check_parse_policy_set_json", &desc) {
            out.count("check_parse_policy_set"); out.count(&format!("check_parse_policy_set_{got}"));
            if got != tf(doc.reference.is_ok()) { out.propfail("ffi::check_parse_policy_set differs from the API's parse verdict", &desc, &format!("ffi {got} ; api {:?} ; doc {}", doc.reference.as_ref().err(), doc.json)); }
        }
    }
    // schema
    {
        let desc = format!("check_parse_schema {}", schema.to_ffi());
        if let Some(got) = ans(guard(|| ffi::check_parse_schema_json(schema.to_ffi())), out, "check_parse_schema_json", &desc) {
            out.count("check_parse_schema"); out.count(&format!("check_parse_schema_{got}"));
            if got != tf(schema.api().is_ok()) { out.propfail("ffi::check_parse_schema differs from the API's parse verdict", &desc, &format!("ffi {got} ; api {:?}", schema.api().err())); }
        }
    }
    // entities, with and without schema
    for with_schema in [false, true] {
        let mut call = Map::new();
        call.insert("entities".into(), wj.entities.clone());
        if with_schema { call.insert("schema".into(), schema.to_ffi()); }
        let call = Value::Object(call);
        let desc = format!("check_parse_entities schema={with_schema} {mutation} {}", schema.kind());
        if let Some(got) = ans(guard(|| ffi::check_parse_entities_json(call.clone())), out, "check_parse_entities_json", &desc) {
            let want = (|| -> Result<(), String> {
                let s = if with_schema { Some(schema.api()?) } else { None };
                cp::Entities::from_json_value(wj.entities.clone(), s.as_ref()).map(|_| ()).map_err(|e| e.to_string())
            })();
            out.count("check_parse_entities"); out.count(&format!("check_parse_entities_{got}"));
            if got != tf(want.is_ok()) { out.propfail("ffi::check_parse_entities differs from Entities::from_json_value", &desc, &format!("ffi {got} ; api {:?} ; call {call}", want.err())); }
        }
    }
    // scope variables (principal/action/resource against the schema)
    {
        let call = json!({"principal": wj.principal, "action": wj.action, "resource": wj.resource, "schema": schema.to_ffi()});
        let desc = format!("check_parse_scope_variables {mutation} applies={:?} p={} a={} r={}", spec.applies, w.principal, w.action, w.resource);
        if let Some(got) = ans(guard(|| ffi::check_parse_scope_variables_json(call.clone())), out, "check_parse_scope_variables_json", &desc) {
            let want = (|| -> Result<(), String> {
                let s = schema.api()?;
                let p = cp::EntityUid::from_json(wj.principal.clone()).map_err(|e| e.to_string())?;
                let a = cp::EntityUid::from_json(wj.action.clone()).map_err(|e| e.to_string())?;
                let r = cp::EntityUid::from_json(wj.resource.clone()).map_err(|e| e.to_string())?;
                cp::validate_scope_variables(&p, &a, &r, &s).map_err(|e| e.to_string())
            })();
            out.count("check_parse_scope_variables"); out.count(&format!("check_parse_scope_variables_{got}"));
            if got != tf(want.is_ok()) { out.propfail("ffi::check_parse_scope_variables differs from validate_scope_variables", &desc, &format!("ffi {got} ; api {:?} ; call {call}", want.err())); }
        }
    }
    // context, with schema+action / without
    for with_schema in [false, true] {
        let mut call = Map::new();
        call.insert("context".into(), wj.context.clone());
        if with_schema { call.insert("schema".into(), schema.to_ffi()); call.insert("action".into(), wj.action.clone()); }
        let call = Value::Object(call);
        let desc = format!("check_parse_context schema={with_schema} {mutation} drop={:?}", spec.ctx_drop);
        if let Some(got) = ans(guard(|| ffi::check_parse_context_json(call.clone())), out, "check_parse_context_json", &desc) {
            let want = (|| -> Result<(), String> {
                if with_schema {
                    let a = cp::EntityUid::from_json(wj.action.clone()).map_err(|e| e.to_string())?;
                    let s = schema.api()?;
                    let c = cp::Context::from_json_value(wj.context.clone(), Some((&s, &a))).map_err(|e| e.to_string())?;
                    c.validate(&s, &a).map_err(|e| e.to_string())
                } else {
                    cp::Context::from_json_value(wj.context.clone(), None).map(|_| ()).map_err(|e| e.to_string())
                }
            })();
            out.count("check_parse_context"); out.count(&format!("check_parse_context_{got}"));
            if got != tf(want.is_ok()) { out.propfail("ffi::check_parse_context differs from Context::from_json_value + validate", &desc, &format!("ffi {got} ; api {:?} ; call {call}", want.err())); }
        }
    }
}

fn policies_text(r: &mut Rng, g: &mut ExprGen, w: &World, max: usize) -> String {
    let specs = gen_specs(r, g, w, max);
    let mut s = String::new();
    for sp in &specs {
        if r.chance(20) { s.push_str("// a comment\n"); }
        if r.chance(15) { s.push_str(&format!("@anno(\"v{}\")\n", r.below(5))); }
        s.push_str(&sp.text);
        s.push_str(*r.pick(&["\n", "\n\n", " ", "  // trailing\n"]));
    }
    if r.chance(12) { s.push_str("permit(principal, action"); }
    s
}

fn format_case(r: &mut Rng, g: &mut ExprGen, out: &mut Out) {
    let w = gen::gen_world(r);
    let text = policies_text(r, g, &w, 4);
    let (lw, iw) = (*r.pick(&[80usize, 40, 20, 120, 1]), *r.pick(&[2isize, 4, 0, 8]));
    let mut call = Map::new();
    call.insert("policyText".into(), Value::String(text.clone()));
    let defaults = lw == 80 && iw == 2 && r.chance(60);
    if !defaults { call.insert("lineWidth".into(), json!(lw)); call.insert("indentWidth".into(), json!(iw)); }
    let call = Value::Object(call);
    let desc = format!("format lw={lw} iw={iw} defaults={defaults} :: {text}");
    let got = match guard(|| ffi::format_json(call.clone())) {
        Ok(Ok(v)) => match is_success(&v) { Some(true) => format!("ok:{}", v["formatted_policy"].as_str().or(v["formattedPolicy"].as_str()).unwrap_or("<no text>")), Some(false) => "failure".into(), None => format!("(bad-answer {v})") },
        Ok(Err(e)) => format!("(not-a-call {e})"),
        Err(p) => { out.propfail("panic in ffi::format_json", &desc, &p); return; }
    };
    let want = match guard(|| cedar_policy_formatter::policies_str_to_pretty(&text, &cedar_policy_formatter::Config { line_width: lw, indent_width: iw })) {
        Ok(Ok(s)) => format!("ok:{s}"), Ok(Err(_)) => "failure".into(),
        Err(p) => { out.propfail("panic in policies_str_to_pretty", &desc, &p); return; }
    };
    out.count("format_calls"); out.count(if got == "failure" { "format_failure" } else { "format_success" });
    if got != want { out.propfail("ffi::format differs from policies_str_to_pretty", &desc, &format!("ffi {got:?} ; api {want:?}")); }
}

fn answer_of<T>(res: Result<T, String>, out: &mut Out, what: &str, desc: &str) -> Option<T> {
    match res { Ok(v) => Some(v), Err(p) => { out.propfail(&format!("panic in ffi::{what}"), desc, &p); None } }
}

/// EST of a policy text re-parsed by the API (the comparison key "after re-parsing")
fn reparse_policy(text: &str) -> Result<Value, String> { cp::Policy::parse(None, text).map_err(|e| e.to_string())?.to_json().map_err(|e| e.to_string()) }
fn reparse_template(text: &str) -> Result<Value, String> { cp::Template::parse(None, text).map_err(|e| e.to_string())?.to_json().map_err(|e| e.to_string()) }

fn convert_case(r: &mut Rng, g: &mut ExprGen, out: &mut Out, idx: u64) {
    let w = gen::gen_world(r);
    // --- policies and templates
    let template = r.chance(40);
    let eff = if r.chance(60) { Effect::Permit } else { Effect::Forbid };
    let mut sp = c01::gen_policy(r, g, &w, "p", eff, 3, template);
    if r.chance(10) { sp.text = sp.text.replacen("(", "((", 1); }
    let text = sp.text.clone();
    let desc = format!("convert {} :: {text}", if template { "template" } else { "policy" });
    let as_ffi_policy = |v: Value| serde_json::from_value::<ffi::Policy>(v);
    let as_ffi_template = |v: Value| serde_json::from_value::<ffi::Template>(v);
    // text -> JSON
    let got = if template { guard(|| as_ffi_template(Value::String(text.clone())).map(|t| serde_json::to_value(ffi::template_to_json(t)).unwrap())) }
              else { guard(|| as_ffi_policy(Value::String(text.clone())).map(|t| serde_json::to_value(ffi::policy_to_json(t)).unwrap())) };
    let mut est: Option<Value> = None;
    if let Some(Ok(v)) = answer_of(got, out, "policy_to_json/template_to_json", &desc) {
        let want = if template { reparse_template(&text) } else { reparse_policy(&text) };
        out.count("convert_to_json");
        match (is_success(&v), &want) {
            (Some(true), Ok(wj)) => {
                let j = v["json"].clone();
                // compare after re-parsing the FFI's JSON through the API
                let back = if template { cp::Template::from_json(None, j.clone()).map_err(|e| e.to_string()).and_then(|t| t.to_json().map_err(|e| e.to_string())) }
                           else { cp::Policy::from_json(None, j.clone()).map_err(|e| e.to_string()).and_then(|t| t.to_json().map_err(|e| e.to_string())) };
                if back.as_ref() != Ok(wj) { out.propfail("ffi::policy_to_json/template_to_json: converted document differs from the API's after re-parsing", &desc, &format!("ffi {j} ; reparsed {back:?} ; api {wj}")); }
                if &j == wj { out.count("convert_to_json_identical"); }
                est = Some(j);
            }
            (Some(false), Err(_)) => out.count("convert_to_json_both_fail"),
            _ => out.propfail("ffi::policy_to_json/template_to_json: success/failure differs from the API", &desc, &format!("ffi {v} ; api {want:?}")),
        }
    }
    // JSON -> text
    if let Some(mut j) = est {
        if r.chance(10) { j["effect"] = json!("allow"); }
        let got = if template { guard(|| as_ffi_template(j.clone()).map(|t| serde_json::to_value(ffi::template_to_text(t)).unwrap())) }
                  else { guard(|| as_ffi_policy(j.clone()).map(|t| serde_json::to_value(ffi::policy_to_text(t)).unwrap())) };
        if let Some(Ok(v)) = answer_of(got, out, "policy_to_text/template_to_text", &desc) {
            let want: Result<String, String> = if template { cp::Template::from_json(None, j.clone()).map(|t| t.to_string()).map_err(|e| e.to_string()) } else { cp::Policy::from_json(None, j.clone()).map(|t| t.to_string()).map_err(|e| e.to_string()) };
            out.count("convert_to_text");
            match (is_success(&v), &want) {
                (Some(true), Ok(wt)) => {
                    let t = v["text"].as_str().unwrap_or("<no text>").to_string();
                    let (a, b) = if template { (reparse_template(&t), reparse_template(wt)) } else { (reparse_policy(&t), reparse_policy(wt)) };
                    if a.is_err() || a != b { out.propfail("ffi::policy_to_text/template_to_text: converted document differs from the API's after re-parsing", &desc, &format!("ffi {t:?} -> {a:?} ; api {wt:?} -> {b:?}")); }
                    if &t == wt { out.count("convert_to_text_identical"); }
                }
                (Some(false), Err(_)) => out.count("convert_to_text_both_fail"),
                _ => out.propfail("ffi::policy_to_text/template_to_text: success/failure differs from the API", &desc, &format!("ffi {v} ; api {want:?}")),
            }
        }
    }
    // --- policy set text -> parts
    {
        let text = policies_text(r, g, &w, 4);
        let desc = format!("policy_set_text_to_parts :: {text}");
        if let Some(v) = answer_of(guard(|| serde_json::to_value(ffi::policy_set_text_to_parts(&text)).unwrap()), out, "policy_set_text_to_parts", &desc) {
            let want = cp::PolicySet::from_str(&text);
            out.count("convert_text_to_parts");
            match (is_success(&v), &want) {
                (Some(true), Ok(ps)) => {
                    let key = |res: Vec<Result<Value, String>>| { let mut v: Vec<String> = res.into_iter().map(|x| x.map(|j| j.to_string()).unwrap_or_else(|e| format!("ERR {e}"))).collect(); v.sort(); v };
                    let strs = |x: &Value| -> Vec<String> { x.as_array().map(|a| a.iter().map(|s| s.as_str().unwrap_or("<?>").to_string()).collect()).unwrap_or_default() };
                    let got_p = key(strs(&v["policies"]).iter().map(|t| reparse_policy(t)).collect());
                    let want_p = key(ps.policies().map(|p| p.to_json().map_err(|e| e.to_string())).collect());
                    let got_t = key(strs(&v["policy_templates"]).iter().map(|t| reparse_template(t)).collect());
                    let want_t = key(ps.templates().map(|p| p.to_json().map_err(|e| e.to_string())).collect());
                    if got_p != want_p || got_t != want_t { out.propfail("ffi::policy_set_text_to_parts differs from PolicySet::from_str after re-parsing", &desc, &format!("ffi {v}")); }
                }
                (Some(false), Err(_)) => out.count("convert_text_to_parts_both_fail"),
                _ => out.propfail("ffi::policy_set_text_to_parts: success/failure differs from the API", &desc, &format!("ffi {v} ; api ok={}", want.is_ok())),
            }
        }
    }
    // --- schemas
    {
        let spec = { let full = r.chance(50); gen_schema_spec(r, idx as usize % 10, full) };
        let cedar_in = r.chance(50);
        let schema = if r.chance(15) {
            if cedar_in { SchemaIn::Cedar((*r.pick(&["entity User in [Nope];", "entity User {", "action a appliesTo { principal: [User], resource: [User] };"])).to_string()) }
            else { SchemaIn::Json(json!({"": {"entityTypes": {"User": {"memberOfTypes": ["Nope"]}}, "actions": {}}})) }
        } else { spec.doc(cedar_in) };
        let desc = format!("convert schema {} :: {}", schema.kind(), schema.to_ffi());
        let ffi_schema = |s: &SchemaIn| serde_json::from_value::<ffi::Schema>(s.to_ffi());
        let frag_key = |j: &Value| -> Result<String, String> { cp::SchemaFragment::from_json_value(j.clone()).map_err(|e| e.to_string())?.to_json_value().map(|v| v.to_string()).map_err(|e| e.to_string()) };
        // -> JSON
        if let Some(Ok(v)) = answer_of(guard(|| ffi_schema(&schema).map(|s| serde_json::to_value(ffi::schema_to_json(s)).unwrap())), out, "schema_to_json", &desc) {
            let want = (|| -> Result<Value, String> {
                let j = schema.api_fragment()?.to_json_value().map_err(|e| e.to_string())?;
                cp::Schema::from_json_value(j.clone()).map_err(|e| e.to_string())?; // the FFI also insists on a valid schema
                Ok(j)
            })();
            out.count("convert_schema_to_json");
            match (is_success(&v), &want) {
                (Some(true), Ok(wj)) => {
                    let (a, b) = (frag_key(&v["json"]), frag_key(wj));
                    if a.is_err() || a != b { out.propfail("ffi::schema_to_json: converted document differs from the API's after re-parsing", &desc, &format!("ffi {} ; api {wj}", v["json"])); }
                    if &v["json"] == wj { out.count("convert_schema_to_json_identical"); }
                }
                (Some(false), Err(_)) => out.count("convert_schema_to_json_both_fail"),
                _ => out.propfail("ffi::schema_to_json: success/failure differs from the API", &desc, &format!("ffi {v} ; api {want:?}")),
            }
        }
        // Cedar text -> JSON with resolved types
        if let SchemaIn::Cedar(text) = &schema {
            if let Some(v) = answer_of(guard(|| serde_json::to_value(ffi::schema_to_json_with_resolved_types(text)).unwrap()), out, "schema_to_json_with_resolved_types", &desc) {
                let want = cp::schema_str_to_json_with_resolved_types(text).map(|(j, _)| j).map_err(|e| e.to_string());
                out.count("convert_schema_resolved_types");
                match (is_success(&v), &want) {
                    (Some(true), Ok(wj)) => if &v["json"] != wj { out.propfail("ffi::schema_to_json_with_resolved_types differs from the API", &desc, &format!("ffi {} ; api {wj}", v["json"])); },
                    (Some(false), Err(_)) => out.count("convert_schema_resolved_types_both_fail"),
                    _ => out.propfail("ffi::schema_to_json_with_resolved_types: success/failure differs from the API", &desc, &format!("ffi {v} ; api {want:?}")),
                }
            }
        }
        // -> text
        if let Some(Ok(v)) = answer_of(guard(|| ffi_schema(&schema).map(|s| serde_json::to_value(ffi::schema_to_text(s)).unwrap())), out, "schema_to_text", &desc) {
            let want = (|| -> Result<String, String> {
                let f = schema.api_fragment()?;
                let t = f.to_cedarschema().map_err(|e| e.to_string())?;
                TryInto::<cp::Schema>::try_into(f).map_err(|e| e.to_string())?;
                Ok(t)
            })();
            out.count("convert_schema_to_text");
            let text_key = |t: &str| -> Result<String, String> { cp::SchemaFragment::from_cedarschema_str(t).map_err(|e| e.to_string())?.0.to_json_value().map(|v| v.to_string()).map_err(|e| e.to_string()) };
            match (is_success(&v), &want) {
                (Some(true), Ok(wt)) => {
                    let t = v["text"].as_str().unwrap_or("<no text>");
                    let (a, b) = (text_key(t), text_key(wt));
                    if a.is_err() || a != b { out.propfail("ffi::schema_to_text: converted document differs from the API's after re-parsing", &desc, &format!("ffi {t:?} -> {a:?} ; api {wt:?} -> {b:?}")); }
                    if t == wt { out.count("convert_schema_to_text_identical"); }
                }
                (Some(false), Err(_)) => out.count("convert_schema_to_text_both_fail"),
                _ => out.propfail("ffi::schema_to_text: success/failure differs from the API", &desc, &format!("ffi {v} ; api {want:?}")),
            }
        }
    }
}

// ---------------------------------------------------------------------------------------------
// (c) cache histories

/// probe policies: which policies document / which schema a stateful call used is read off the erroring ids
fn probe_policies(tag: usize) -> Vec<(String, String)> {
    let mut v = vec![(format!("tag{tag}"), "permit(principal, action, resource) when { 1 + \"a\" == 2 };".to_string())];
    for k in 0..10 {
        v.push((format!("s{k}"), format!("permit(principal, action, resource) when {{ if action in Action::\"g{k}\" then 1 + \"a\" == 2 else false }};")));
    }
    v
}

fn used_tags(canon: &str) -> String {
    // canon = (resp d (reasons) (errs)) ; ids are quoted strings
    let errs = canon.rsplit_once(" (").map(|(_, e)| e.trim_end_matches(')').to_string()).unwrap_or_default();
    let ids: Vec<String> = errs.split(' ').map(|s| s.trim_matches('"').to_string()).collect();
    let p: Vec<&String> = ids.iter().filter(|s| s.starts_with("tag")).collect();
    let sc: Vec<&String> = ids.iter().filter(|s| s.len() == 2 && s.starts_with('s') && s.as_bytes()[1].is_ascii_digit()).collect();
    let pt = if p.len() == 1 { p[0][3..].to_string() } else { format!("?{}", p.len()) };
    let st = match sc.len() { 0 => "none".to_string(), 1 => sc[0][1..].to_string(), n => format!("?{n}") };
    format!("(used {pt} {st})")
}

fn history_case(r: &mut Rng, g: &mut ExprGen, out: &mut Out, prefix: &str) {
    let npn = 2 + r.below(2);
    let pnames: Vec<String> = (0..npn).map(|i| format!("{prefix}P{i}")).collect();
    let snames: Vec<String> = (0..2).map(|i| format!("{prefix}S{i}")).collect();
    let mut shadow_p: HashMap<String, PsetDoc> = HashMap::new();
    let mut shadow_s: HashMap<String, SchemaIn> = HashMap::new();
    let w0 = gen_world_s(r);
    let len = 1 + r.below(10);
    let (mut ptag, mut stag) = (0usize, 0usize);
    let (mut req_ops, mut replies, mut descs) = (Vec::new(), Vec::new(), Vec::new());
    let mut interesting = (false, false, false); // re-registration, failed preparse over an existing entry, stateful read after those
    for _ in 0..len {
        // until something is registered, registrations are more likely than reads
        let kind = if shadow_p.is_empty() && r.chance(50) { 0 } else if shadow_s.is_empty() && r.chance(25) { 7 } else { r.below(20) };
        match kind {
            0..=5 => {
                let name = r.pick(&pnames).clone();
                let specs = gen_specs(r, g, &w0, 3);
                let corrupt = if r.chance(30) { 1 + r.below(5) as u32 } else { 0 };
                let est = *r.pick(&[0, 50]);
                let doc = build_pset(r, &specs, Shape::Map, est, corrupt, &probe_policies(ptag));
                let verdict = doc.reference.is_ok();
                let reply = match guard(|| serde_json::from_value::<ffi::PolicySet>(doc.json.clone()).map(|d| ffi::preparse_policy_set(name.clone(), d))) {
                    Ok(Ok(ffi::CheckParseAnswer::Success)) => "ok",
                    Ok(Ok(ffi::CheckParseAnswer::Failure { .. })) => "fail",
                    Ok(Err(e)) => { out.propfail("harness: policy-set document is not an ffi::PolicySet", &doc.desc, &e.to_string()); return; }
                    Err(p) => { out.propfail("panic in ffi::preparse_policy_set", &doc.desc, &p); return; }
                };
                req_ops.push(format!("(pp {} {} {})", sx::qs(&name), ptag, if verdict { "ok" } else { "bad" }));
                replies.push(reply.to_string());
                descs.push(format!("pp {name} #{ptag} {}", if verdict { "ok" } else { "bad" }));
                out.count(if verdict { "hist_preparse_policies_ok" } else { "hist_preparse_policies_bad" });
                if shadow_p.contains_key(&name) { if verdict { interesting.0 = true } else { interesting.1 = true } }
                if verdict { shadow_p.insert(name, doc); }
                ptag += 1;
            }
            6..=9 => {
                let name = r.pick(&snames).clone();
                let spec = gen_schema_spec(r, stag, true);
                let doc = if r.chance(30) {
                    match r.below(3) { 0 => SchemaIn::Cedar("entity User in [Nope];".into()), 1 => SchemaIn::Cedar("entity User {".into()), _ => SchemaIn::Json(json!({"": {"entityTypes": {"User": {"memberOfTypes": ["Nope"]}}, "actions": {}}})) }
                } else { spec.doc(r.chance(50)) };
                let verdict = doc.api().is_ok();
                let reply = match guard(|| serde_json::from_value::<ffi::Schema>(doc.to_ffi()).map(|d| ffi::preparse_schema(name.clone(), d))) {
                    Ok(Ok(ffi::CheckParseAnswer::Success)) => "ok",
                    Ok(Ok(ffi::CheckParseAnswer::Failure { .. })) => "fail",
                    Ok(Err(e)) => { out.propfail("harness: schema document is not an ffi::Schema", &doc.to_ffi().to_string(), &e.to_string()); return; }
                    Err(p) => { out.propfail("panic in ffi::preparse_schema", &doc.to_ffi().to_string(), &p); return; }
                };
                req_ops.push(format!("(ps {} {} {})", sx::qs(&name), stag, if verdict { "ok" } else { "bad" }));
                replies.push(reply.to_string());
                descs.push(format!("ps {name} #{stag} {} {}", doc.kind(), if verdict { "ok" } else { "bad" }));
                out.count(if verdict { "hist_preparse_schema_ok" } else { "hist_preparse_schema_bad" });
                if shadow_s.contains_key(&name) { if verdict { interesting.0 = true } else { interesting.1 = true } }
                if verdict { shadow_s.insert(name, doc); }
                stag += 1;
            }
            _ => {
                // mostly names that have an entry, sometimes one that has none (never registered / only failed registrations)
                let known = |r: &mut Rng, pool: &Vec<String>, have: Vec<&String>| -> String {
                    if !have.is_empty() && r.chance(75) { let mut h: Vec<&String> = have; h.sort(); (*r.pick(&h)).clone() } else { r.pick(pool).clone() }
                };
                let pname = if r.chance(6) { format!("{prefix}missing") } else { known(r, &pnames, shadow_p.keys().collect()) };
                let sname = if r.chance(if shadow_s.is_empty() { 70 } else { 30 }) { None } else if r.chance(6) { Some(format!("{prefix}missing")) } else { Some(known(r, &snames, shadow_s.keys().collect())) };
                let validate = r.chance(50);
                let w = gen_world_s(r);
                let Ok(wj) = world_json(r, &w) else { out.count("world_not_serializable"); return };
                let mut m = Map::new();
                m.insert("principal".into(), wj.principal.clone());
                m.insert("action".into(), wj.action.clone());
                m.insert("resource".into(), wj.resource.clone());
                m.insert("context".into(), wj.context.clone());
                if let Some(n) = &sname { m.insert("preparsedSchemaName".into(), json!(n)); }
                if !(validate && r.chance(50)) { m.insert("validateRequest".into(), json!(validate)); }
                m.insert("preparsedPolicySetId".into(), json!(pname));
                m.insert("entities".into(), wj.entities.clone());
                let call = Value::Object(m);
                let desc = format!("auth {pname} {sname:?} validate={validate} after [{}]", descs.join("; "));
                let got = match guard(|| serde_json::from_value::<ffi::StatefulAuthorizationCall>(call.clone()).map(ffi::stateful_is_authorized)) {
                    Ok(Ok(a)) => canon_ffi_typed(&a),
                    Ok(Err(e)) => { out.propfail("harness: not a StatefulAuthorizationCall", &desc, &e.to_string()); return; }
                    Err(p) => { out.propfail("panic in ffi::stateful_is_authorized", &desc, &p); return; }
                };
                // the stateless answer for the documents most recently registered successfully under those names
                let sdoc: Option<Option<SchemaIn>> = match &sname { None => Some(None), Some(n) => shadow_s.get(n).cloned().map(Some) };
                let (want, want_api) = match (shadow_p.get(&pname), &sdoc) {
                    (Some(pd), Some(sd)) => {
                        let stateless = auth_call_json(r, &wj, sd, validate, &pd.json);
                        let Some(a) = ffi_auth(&stateless, out, &desc, false) else { return };
                        let b = match guard(|| ref_auth(&wj, sd, validate, &pd.reference)) { Ok(Ok(s)) => s, Ok(Err(_)) => "failure".into(), Err(p) => { out.propfail("panic in the API route", &desc, &p); return; } };
                        (a, b)
                    }
                    _ => ("failure".to_string(), "failure".to_string()),
                };
                out.count("hist_stateful_calls");
                if got != want { out.propfail("stateful_is_authorized differs from is_authorized on the latest registered documents", &desc, &format!("stateful {got} ; stateless {want} ; call {call}")); }
                if got != want_api { out.propfail("stateful_is_authorized differs from the Rust API on the latest registered documents", &desc, &format!("stateful {got} ; api {want_api} ; call {call}")); }
                req_ops.push(format!("(auth {} {})", sx::qs(&pname), sname.as_ref().map(|n| sx::qs(n)).unwrap_or_else(|| "none".into())));
                replies.push(if got == "failure" { out.count("hist_stateful_failure"); "failure".to_string() } else { out.count("hist_stateful_success"); used_tags(&got) });
                descs.push(format!("auth {pname} {sname:?}"));
                if interesting.0 || interesting.1 { interesting.2 = true; }
            }
        }
    }
    let req = format!("(ffi (ops {}))", req_ops.join(" "));
    let imp = format!("(replies {})", replies.join(" "));
    if interesting.0 { out.count("hist_with_reregistration"); }
    if interesting.1 { out.count("hist_with_failed_preparse_over_entry"); }
    if interesting.2 { out.nontrivial(&req); }
    out.sample(format!("{} ==> {imp}", descs.join("; ")));
    out.line(req, imp, descs.join("; "));
}

// ---------------------------------------------------------------------------------------------
// streams

/// Run `n` independent cases on WORKERS threads. Case i gets its own Rng (forked up front from the seed) and goes to
/// worker i % WORKERS; the workers' outputs are merged in worker order, so a run is a function of the seed.
/// (The FFI's authorizer and caches are thread-local; cases of these streams share no state.)
type CaseFn = std::sync::Arc<dyn Fn(u64, &mut Rng, &mut ExprGen, &mut Out) + Send + Sync>;

fn parallel(args: &Args, salt: u64, out: &mut Out, case: CaseFn) {
    const WORKERS: u64 = 8;
    let mut rng = Rng::new(args.seed ^ salt);
    let forks: Vec<Rng> = (0..args.n).map(|_| rng.fork()).collect();
    let mut handles = Vec::new();
    for wk in 0..WORKERS {
        let mine: Vec<(u64, Rng)> = forks.iter().cloned().enumerate().map(|(i, f)| (i as u64, f)).filter(|(i, _)| i % WORKERS == wk).collect();
        let case = case.clone();
        handles.push(std::thread::Builder::new().stack_size(128 << 20).spawn(move || {
            let mut out = Out::default();
            let mut g = ExprGen::new(6);
            for (i, mut cr) in mine { case(i, &mut cr, &mut g, &mut out); }
            out
        }).expect("spawn worker"));
    }
    for h in handles {
        match h.join() {
            Ok(o) => {
                out.propfail.extend(o.propfail);
                for (k, v) in o.stats { out.add(&k, v); }
                out.nontrivial.extend(o.nontrivial);
                for s in o.samples { out.sample(s); }
                out.cases += o.cases;
            }
            Err(_) => { eprintln!("worker panicked"); std::process::exit(3); }
        }
    }
}

pub fn run(args: &Args, out: &mut Out) {
    parallel(args, 0xC19, out, std::sync::Arc::new(|i: u64, cr: &mut Rng, g: &mut ExprGen, out: &mut Out| {
        let t = |out: &mut Out, k: &str, t0: std::time::Instant| out.add(k, t0.elapsed().as_millis() as u64);
        let t0 = std::time::Instant::now();
        auth_case(cr, g, out, i);
        t(out, "time_ms_auth", t0);
        out.cases += 1;
        if i % 4 == 0 {
            let t0 = std::time::Instant::now(); validate_case(cr, g, out, i); t(out, "time_ms_validate", t0);
            let t0 = std::time::Instant::now(); check_parse_case(cr, g, out, i); t(out, "time_ms_check_parse", t0);
            let t0 = std::time::Instant::now(); format_case(cr, g, out); t(out, "time_ms_format", t0);
            let t0 = std::time::Instant::now(); convert_case(cr, g, out, i); t(out, "time_ms_convert", t0);
            out.cases += 4;
        }
    }));
}

pub fn run_histories(args: &Args, out: &mut Out) {
    let mut rng = Rng::new(args.seed ^ 0xC19C);
    let mut g = ExprGen::new(6);
    // the caches are thread-local and this stream runs on one thread: every history gets its own name prefix
    for i in 0..args.n {
        let mut cr = rng.fork();
        history_case(&mut cr, &mut g, out, &format!("s{}h{}-", args.seed, i));
        out.cases += 1;
    }
}

// ---------------------------------------------------------------------------------------------
// (d) the CLI binary built from /repo

fn cli_path() -> std::path::PathBuf {
    if let Ok(p) = std::env::var("CEDAR_CLI") { return p.into(); }
    // <target>/debug/harness -> <target>/cli/debug/cedar
    let exe = std::env::current_exe().expect("current_exe");
    exe.parent().and_then(|p| p.parent()).map(|t| t.join("cli").join("debug").join("cedar")).expect("target dir")
}

struct CliRun { code: Option<i32>, stdout: String, stderr: String }

fn run_cli_cmd(cli: &std::path::Path, args: &[String]) -> Result<CliRun, String> {
    let o = std::process::Command::new(cli).args(args).env("NO_COLOR", "1").stdin(std::process::Stdio::null()).output().map_err(|e| format!("spawn {}: {e}", cli.display()))?;
    Ok(CliRun { code: o.status.code(), stdout: String::from_utf8_lossy(&o.stdout).into_owned(), stderr: String::from_utf8_lossy(&o.stderr).into_owned() })
}

fn write(dir: &std::path::Path, name: &str, content: &str) -> String {
    let p = dir.join(name);
    std::fs::write(&p, content).expect("write input file");
    p.to_string_lossy().into_owned()
}

/// what the CLI's text reader does with one file of policies and templates: ids `policy<k>` by position,
/// replaced by the `@id("…")` annotation where present — rebuilt here one policy at a time through the API
struct CliPolicies { text: String, reference: Result<cp::PolicySet, String>, links_json: Value }

fn cli_policies(r: &mut Rng, specs: &[PolSpec], corrupt: u32) -> CliPolicies {
    let mut text = String::new();
    let mut reference: Result<cp::PolicySet, String> = Ok(cp::PolicySet::new());
    let mut links = Vec::new();
    let mut pending_links = Vec::new();
    let mut templates = Vec::new();
    let mut statics = Vec::new();
    for (k, s) in specs.iter().enumerate() {
        let mut id = format!("policy{k}");
        let mut body = s.text.clone();
        if r.chance(15) { id = format!("named{k}"); body = format!("@id(\"{id}\")\n{body}"); }
        if corrupt == 1 && k == 0 { body = body.replacen("(", "((", 1); }
        text.push_str(&body);
        text.push_str(*r.pick(&["\n", "\n\n", " "]));
        match &s.link {
            None => statics.push((id, body)),
            Some((lp, lr)) => {
                let tid = if corrupt == 2 { format!("{id}-missing") } else { id.clone() };
                let mut args = Map::new();
                let mut vals = HashMap::new();
                if let Some(u) = lp { args.insert("?principal".into(), json!(u.to_string())); vals.insert(cp::SlotId::principal(), cp::EntityUid::from(u.clone())); }
                if let Some(u) = lr { args.insert("?resource".into(), json!(u.to_string())); vals.insert(cp::SlotId::resource(), cp::EntityUid::from(u.clone())); }
                links.push(json!({"template_id": tid, "link_id": format!("L{k}"), "args": args}));
                pending_links.push((tid, format!("L{k}"), vals));
                templates.push((id, body));
            }
        }
    }
    let fail = |reference: &mut Result<cp::PolicySet, String>, e: String| { if reference.is_ok() { *reference = Err(e); } };
    for (id, body) in templates {
        match cp::Template::parse(Some(pid(&id)), &body) {
            Ok(t) => { if let Ok(ps) = reference.as_mut() { if let Err(e) = ps.add_template(t) { fail(&mut reference, e.to_string()); } } }
            Err(e) => fail(&mut reference, e.to_string()),
        }
    }
    for (id, body) in statics {
        match cp::Policy::parse(Some(pid(&id)), &body) {
            Ok(p) => { if let Ok(ps) = reference.as_mut() { if let Err(e) = ps.add(p) { fail(&mut reference, e.to_string()); } } }
            Err(e) => fail(&mut reference, e.to_string()),
        }
    }
    for (tid, lid, vals) in pending_links {
        if let Ok(ps) = reference.as_mut() { if let Err(e) = ps.link(pid(&tid), pid(&lid), vals) { fail(&mut reference, e.to_string()); } }
    }
    CliPolicies { text, reference, links_json: Value::Array(links) }
}

fn est_multiset(ps: &cp::PolicySet) -> Vec<String> {
    let mut v: Vec<String> = ps.policies().map(|p| p.to_json().map(|j| j.to_string()).unwrap_or_else(|e| format!("ERR {e}")))
        .chain(ps.templates().map(|p| format!("T {}", p.to_json().map(|j| j.to_string()).unwrap_or_else(|e| format!("ERR {e}"))))).collect();
    v.sort();
    v
}

fn cli_authorize(r: &mut Rng, g: &mut ExprGen, out: &mut Out, cli: &std::path::Path, dir: &std::path::Path, idx: u64) {
    let with_schema = r.chance(50);
    let mut w = if with_schema { gen_world_s(r) } else { gen_world_json(r) };
    let Ok(mut wj) = world_json(r, &w) else { out.count("world_not_serializable"); return };
    let spec = { let full = r.chance(40); gen_schema_spec(r, idx as usize % 10, full) };
    let cedar_schema = r.chance(50);
    let schema = if with_schema { Some(spec.doc(cedar_schema)) } else { None };
    let mutation = if with_schema && r.chance(25) { mutate_world(r, &mut w, &mut wj) } else { "conformant" };
    let specs = gen_specs(r, g, &w, 5);
    let corrupt = if r.chance(10) { 1 + r.below(2) as u32 } else { 0 };
    let cp_ = cli_policies(r, &specs, corrupt);
    let json_format = corrupt == 0 && cp_.reference.is_ok() && r.chance(35);
    let validate = r.chance(60);
    let mut args: Vec<String> = vec!["authorize".into()];
    // policies
    if json_format {
        // the set without its links, as policy-set JSON (links go through the links file)
        let mut base = cp::PolicySet::new();
        let full = cp_.reference.as_ref().unwrap();
        for t in full.templates() { base.add_template(t.clone()).unwrap(); }
        for p in full.policies().filter(|p| p.template_id().is_none()) { base.add(p.clone()).unwrap(); }
        let j = match base.to_json() { Ok(j) => j, Err(e) => { out.count(&format!("cli_pset_to_json_err_{}", e.to_string().chars().take(30).collect::<String>())); return; } };
        args.extend(["--policies".into(), write(dir, "policies.json", &j.to_string()), "--policy-format".into(), "json".into()]);
    } else {
        args.extend(["--policies".into(), write(dir, "policies.cedar", &cp_.text)]);
    }
    let has_links = cp_.links_json.as_array().map(|a| !a.is_empty()).unwrap_or(false);
    if has_links || r.chance(20) { args.extend(["-k".into(), write(dir, "links.json", &if has_links || r.chance(50) { cp_.links_json.to_string() } else { String::new() })]); }
    args.extend(["--entities".into(), write(dir, "entities.json", &wj.entities.to_string())]);
    if let Some(s) = &schema {
        match s {
            SchemaIn::Cedar(t) => { args.extend(["--schema".into(), write(dir, "schema.cedarschema", t)]); if r.chance(50) { args.extend(["--schema-format".into(), "cedar".into()]); } }
            SchemaIn::Json(j) => args.extend(["--schema".into(), write(dir, "schema.json", &j.to_string()), "--schema-format".into(), "json".into()]),
        }
    }
    let (ps, as_, rs) = (w.principal.to_string(), w.action.to_string(), w.resource.to_string());
    if r.chance(50) {
        args.extend(["--request-json".into(), write(dir, "request.json", &json!({"principal": ps, "action": as_, "resource": rs, "context": wj.context}).to_string())]);
    } else {
        args.extend(["-l".into(), ps.clone(), "-a".into(), as_.clone(), "-r".into(), rs.clone(), "--context".into(), write(dir, "context.json", &wj.context.to_string())]);
    }
    if !(validate && r.chance(50)) { args.extend(["--request-validation".into(), validate.to_string()]); }
    args.push("-v".into());
    let desc = format!("cedar {} :: {mutation} corrupt={corrupt} :: {}", args.join(" "), cp_.text.replace('\n', " "));
    // the API on the same inputs
    let want = guard(|| -> Result<cp::Response, String> {
        let pset = cp_.reference.as_ref().map_err(|e| e.clone())?;
        let sch = match &schema { Some(s) => Some(s.api()?), None => None };
        let p = cp::EntityUid::from(w.principal.clone());
        let a = cp::EntityUid::from(w.action.clone());
        let rr = cp::EntityUid::from(w.resource.clone());
        let ctx = cp::Context::from_json_value(wj.context.clone(), sch.as_ref().map(|s| (s, &a))).map_err(|e| e.to_string())?;
        let req = cp::Request::new(p, a, rr, ctx, if validate { sch.as_ref() } else { None }).map_err(|e| e.to_string())?;
        let ents = cp::Entities::from_json_value(wj.entities.clone(), sch.as_ref()).map_err(|e| e.to_string())?;
        Ok(cp::Authorizer::new().is_authorized(&req, pset, &ents))
    });
    let want = match want { Ok(x) => x, Err(p) => { out.propfail("panic in the API route (cli authorize)", &desc, &p); return; } };
    let run = match run_cli_cmd(cli, &args) { Ok(x) => x, Err(e) => { out.propfail("harness: cannot run the cedar binary", &desc, &e); return; } };
    let printed: Vec<&str> = run.stdout.lines().filter(|l| *l == "ALLOW" || *l == "DENY").collect();
    let (want_code, want_printed, want_reasons): (i32, Vec<&str>, Option<Vec<String>>) = match &want {
        Ok(resp) => {
            let mut rs: Vec<String> = resp.diagnostics().reason().map(|i| i.to_string()).collect();
            rs.sort();
            if resp.decision() == cp::Decision::Allow { (0, vec!["ALLOW"], Some(rs)) } else { (2, vec!["DENY"], Some(rs)) }
        }
        Err(_) => (1, vec![], None),
    };
    out.count("cli_authorize");
    out.count(&format!("cli_authorize_exit_{}", run.code.map(|c| c.to_string()).unwrap_or("signal".into())));
    out.count(if json_format { "cli_authorize_policies_json" } else { "cli_authorize_policies_cedar" });
    if has_links { out.count("cli_authorize_with_links"); }
    if run.code != Some(want_code) || printed != want_printed {
        out.propfail("cedar authorize: exit status / printed decision differ from the API response", &desc,
            &format!("exit {:?} printed {:?} ; api exit {want_code} printed {:?} ({}) ; stdout {:?} ; stderr {:?}", run.code, printed, want_printed,
                want.as_ref().err().cloned().unwrap_or_default(), run.stdout.chars().take(600).collect::<String>(), run.stderr.chars().take(300).collect::<String>()));
    } else if let Some(wr) = want_reasons {
        // -v: the determining policies
        let mut got: Vec<String> = Vec::new();
        let mut on = false;
        for l in run.stdout.lines() {
            if l.starts_with("note: this decision was due to") { on = true; continue; }
            if on { if let Some(id) = l.strip_prefix("  ") { got.push(id.to_string()); } else { on = false; } }
        }
        got.sort();
        if got != wr { out.propfail("cedar authorize -v: determining policies differ from the API response", &desc, &format!("cli {got:?} ; api {wr:?} ; stdout {:?}", run.stdout)); }
    }
    out.nontrivial(&desc);
    out.sample(format!("{desc} ==> exit {:?} {:?}", run.code, printed));
}

fn cli_validate(r: &mut Rng, g: &mut ExprGen, out: &mut Out, cli: &std::path::Path, dir: &std::path::Path, idx: u64) {
    let w = gen_world_s(r);
    let spec = { let full = r.chance(50); gen_schema_spec(r, idx as usize % 10, full) };
    let schema = if r.chance(12) { SchemaIn::Cedar("entity User in [Nope];".into()) } else { spec.doc(r.chance(50)) };
    let n = 1 + r.below(3);
    let mut text = String::new();
    for i in 0..n {
        if r.chance(60) {
            let cond = *r.pick(&["principal.n > 0", "principal has s && principal.s == \"a\"", "context has b && context.b", "principal.nosuch", "principal.n == \"x\"", "true", "context.n < 3"]);
            let scope = *r.pick(&["principal, action, resource", "principal is User, action == Action::\"a\", resource", "principal == User::\"a\", action, resource in Group::\"b\""]);
            text.push_str(&format!("permit ({scope}) when {{ {cond} }};\n"));
        } else {
            let t = r.chance(30);
            text.push_str(&c01::gen_policy(r, g, &w, &format!("p{i}"), Effect::Permit, 3, t).text);
            text.push('\n');
        }
    }
    if r.chance(8) { text.push_str("permit(principal"); }
    let deny_warnings = r.chance(30);
    let mut args: Vec<String> = vec!["validate".into(), "--policies".into(), write(dir, "policies.cedar", &text)];
    match &schema {
        SchemaIn::Cedar(t) => args.extend(["--schema".into(), write(dir, "schema.cedarschema", t)]),
        SchemaIn::Json(j) => args.extend(["--schema".into(), write(dir, "schema.json", &j.to_string()), "--schema-format".into(), "json".into()]),
    }
    if deny_warnings { args.push("--deny-warnings".into()); }
    if r.chance(30) { args.extend(["--validation-mode".into(), "strict".into()]); }
    let desc = format!("cedar {} :: {}", args.join(" "), text.replace('\n', " "));
    let want: i32 = match (cp::PolicySet::from_str(&text), schema.api()) {
        (Ok(ps), Ok(s)) => {
            let res = cp::Validator::new(s).validate(&ps, cp::ValidationMode::Strict);
            if !res.validation_passed() || (deny_warnings && !res.validation_passed_without_warnings()) { 3 } else { 0 }
        }
        _ => 1,
    };
    let run = match run_cli_cmd(cli, &args) { Ok(x) => x, Err(e) => { out.propfail("harness: cannot run the cedar binary", &desc, &e); return; } };
    out.count("cli_validate"); out.count(&format!("cli_validate_exit_{}", run.code.map(|c| c.to_string()).unwrap_or("signal".into())));
    if run.code != Some(want) {
        out.propfail("cedar validate: exit status differs from Validator::validate", &desc, &format!("exit {:?} ; api {want} ; stdout {:?}", run.code, run.stdout.chars().take(500).collect::<String>()));
    }
    out.nontrivial(&desc);
}

fn cli_check_parse(r: &mut Rng, g: &mut ExprGen, out: &mut Out, cli: &std::path::Path, dir: &std::path::Path, idx: u64) {
    let mut w = gen_world_s(r);
    let Ok(mut wj) = world_json(r, &w) else { return };
    let spec = gen_schema_spec(r, idx as usize % 10, true);
    let schema = if r.chance(15) { SchemaIn::Cedar("entity User {".into()) } else { spec.doc(r.chance(50)) };
    if r.chance(30) { mutate_world(r, &mut w, &mut wj); }
    let text = policies_text(r, g, &w, 3);
    let (with_p, with_s, with_e) = (r.chance(70), r.chance(60), r.chance(60));
    let with_p = with_p || (!with_s && !with_e); // with no argument at all the CLI reads stdin
    let mut args: Vec<String> = vec!["check-parse".into()];
    if with_p { args.extend(["--policies".into(), write(dir, "policies.cedar", &text)]); }
    if with_s {
        match &schema {
            SchemaIn::Cedar(t) => args.extend(["--schema".into(), write(dir, "schema.cedarschema", t)]),
            SchemaIn::Json(j) => args.extend(["--schema".into(), write(dir, "schema.json", &j.to_string()), "--schema-format".into(), "json".into()]),
        }
    }
    if with_e { args.extend(["--entities".into(), write(dir, "entities.json", &wj.entities.to_string())]); }
    let desc = format!("cedar {} :: {}", args.join(" "), text.replace('\n', " "));
    let mut ok = true;
    if with_p && cp::PolicySet::from_str(&text).is_err() { ok = false; }
    let sch = if with_s { match schema.api() { Ok(s) => Some(s), Err(_) => { ok = false; None } } } else { None };
    if with_e && cp::Entities::from_json_value(wj.entities.clone(), sch.as_ref()).is_err() { ok = false; }
    let run = match run_cli_cmd(cli, &args) { Ok(x) => x, Err(e) => { out.propfail("harness: cannot run the cedar binary", &desc, &e); return; } };
    out.count("cli_check_parse"); out.count(&format!("cli_check_parse_exit_{}", run.code.map(|c| c.to_string()).unwrap_or("signal".into())));
    if run.code != Some(if ok { 0 } else { 1 }) {
        out.propfail("cedar check-parse: exit status differs from the API's parse verdicts", &desc, &format!("exit {:?} ; api ok={ok} ; stdout {:?}", run.code, run.stdout.chars().take(500).collect::<String>()));
    }
    out.nontrivial(&desc);
}

fn cli_translate(r: &mut Rng, g: &mut ExprGen, out: &mut Out, cli: &std::path::Path, dir: &std::path::Path, idx: u64) {
    let w = gen::gen_world(r);
    if r.chance(50) {
        // policies
        let text = policies_text(r, g, &w, 4);
        let api = cp::PolicySet::from_str(&text);
        if r.chance(50) {
            let args: Vec<String> = vec!["translate-policy".into(), "--direction".into(), "cedar-to-json".into(), "-p".into(), write(dir, "policies.cedar", &text)];
            let desc = format!("cedar {} :: {}", args.join(" "), text.replace('\n', " "));
            let run = match run_cli_cmd(cli, &args) { Ok(x) => x, Err(e) => { out.propfail("harness: cannot run the cedar binary", &desc, &e); return; } };
            out.count("cli_translate_policy_to_json");
            let want = api.as_ref().map_err(|e| e.to_string()).and_then(|ps| ps.clone().to_json().map_err(|e| e.to_string()));
            match (&want, run.code) {
                (Ok(wj), Some(0)) => {
                    let back = serde_json::from_str::<Value>(&run.stdout).map_err(|e| e.to_string()).and_then(|j| cp::PolicySet::from_json_value(j).map_err(|e| e.to_string()));
                    let same = match (&back, cp::PolicySet::from_json_value(wj.clone())) { (Ok(a), Ok(b)) => est_multiset(a) == est_multiset(&b), _ => false };
                    if !same { out.propfail("cedar translate-policy cedar-to-json: converted document differs from the API's after re-parsing", &desc, &format!("stdout {:?} ; api {wj}", run.stdout)); }
                }
                (Err(_), Some(1)) => out.count("cli_translate_policy_both_fail"),
                _ => out.propfail("cedar translate-policy: exit status differs from the API", &desc, &format!("exit {:?} ; api {:?}", run.code, want.as_ref().map(|_| "ok"))),
            }
            out.nontrivial(&desc);
        } else if let Ok(ps) = &api {
            let Ok(j) = ps.clone().to_json() else { return };
            let args: Vec<String> = vec!["translate-policy".into(), "--direction".into(), "json-to-cedar".into(), "-p".into(), write(dir, "policies.json", &j.to_string())];
            let desc = format!("cedar {} :: {j}", args.join(" "));
            let run = match run_cli_cmd(cli, &args) { Ok(x) => x, Err(e) => { out.propfail("harness: cannot run the cedar binary", &desc, &e); return; } };
            out.count("cli_translate_policy_to_cedar");
            let want = cp::PolicySet::from_json_value(j.clone()).map_err(|e| e.to_string()).and_then(|p| p.to_cedar().ok_or("links".to_string()));
            match (&want, run.code) {
                (Ok(wt), Some(0)) => {
                    let same = match (cp::PolicySet::from_str(&run.stdout), cp::PolicySet::from_str(wt)) { (Ok(a), Ok(b)) => est_multiset(&a) == est_multiset(&b), _ => false };
                    if !same { out.propfail("cedar translate-policy json-to-cedar: converted document differs from the API's after re-parsing", &desc, &format!("stdout {:?} ; api {wt:?}", run.stdout)); }
                }
                (Err(_), Some(1)) => out.count("cli_translate_policy_both_fail"),
                _ => out.propfail("cedar translate-policy: exit status differs from the API", &desc, &format!("exit {:?} ; api {:?}", run.code, want.as_ref().map(|_| "ok"))),
            }
            out.nontrivial(&desc);
        }
    } else {
        let spec = { let full = r.chance(50); gen_schema_spec(r, idx as usize % 10, full) };
        let cedar_in = r.chance(50);
        let schema = if r.chance(15) { if cedar_in { SchemaIn::Cedar("entity User {".into()) } else { SchemaIn::Json(json!({"": {"entityTypes": 3}})) } } else { spec.doc(cedar_in) };
        let (file, dirn) = match &schema { SchemaIn::Cedar(t) => (write(dir, "schema.cedarschema", t), "cedar-to-json"), SchemaIn::Json(j) => (write(dir, "schema.json", &j.to_string()), "json-to-cedar") };
        let args: Vec<String> = vec!["translate-schema".into(), "--direction".into(), dirn.into(), "-s".into(), file];
        let desc = format!("cedar {}", args.join(" "));
        let run = match run_cli_cmd(cli, &args) { Ok(x) => x, Err(e) => { out.propfail("harness: cannot run the cedar binary", &desc, &e); return; } };
        out.count(&format!("cli_translate_schema_{dirn}"));
        let key = |f: cp::SchemaFragment| f.to_json_value().map(|v| v.to_string()).map_err(|e| e.to_string());
        let want = schema.api_fragment().and_then(|f| if cedar_in { key(f) } else { f.to_cedarschema().map_err(|e| e.to_string()).and_then(|t| cp::SchemaFragment::from_cedarschema_str(&t).map_err(|e| e.to_string()).and_then(|(f, _)| key(f))) });
        match (&want, run.code) {
            (Ok(wk), Some(0)) => {
                let got = if cedar_in { cp::SchemaFragment::from_json_str(&run.stdout).map_err(|e| e.to_string()).and_then(key) } else { cp::SchemaFragment::from_cedarschema_str(&run.stdout).map_err(|e| e.to_string()).and_then(|(f, _)| key(f)) };
                if got.as_ref() != Ok(wk) { out.propfail("cedar translate-schema: converted document differs from the API's after re-parsing", &desc, &format!("stdout {:?} -> {got:?} ; api {wk}", run.stdout)); }
            }
            (Err(_), Some(1)) => out.count("cli_translate_schema_both_fail"),
            _ => out.propfail("cedar translate-schema: exit status differs from the API", &desc, &format!("exit {:?} ; api {:?} ; stderr {:?}", run.code, want.as_ref().map(|_| "ok"), run.stderr.chars().take(300).collect::<String>())),
        }
        out.nontrivial(&desc);
    }
}

fn cli_format(r: &mut Rng, g: &mut ExprGen, out: &mut Out, cli: &std::path::Path, dir: &std::path::Path) {
    let w = gen::gen_world(r);
    let mut text = policies_text(r, g, &w, 3);
    let (lw, iw) = (*r.pick(&[80usize, 40, 120]), *r.pick(&[2isize, 4]));
    let cfg = cedar_policy_formatter::Config { line_width: lw, indent_width: iw };
    let pretty = cedar_policy_formatter::policies_str_to_pretty(&text, &cfg).map_err(|e| e.to_string());
    let check = r.chance(40);
    if check && r.chance(50) { if let Ok(p) = &pretty { text = p.clone(); } }
    let pretty = cedar_policy_formatter::policies_str_to_pretty(&text, &cfg).map_err(|e| e.to_string());
    let mut args: Vec<String> = vec!["format".into(), "-p".into(), write(dir, "policies.cedar", &text), "-l".into(), lw.to_string(), "-i".into(), iw.to_string()];
    if check { args.push("--check".into()); }
    let desc = format!("cedar {} :: {text:?}", args.join(" "));
    let run = match run_cli_cmd(cli, &args) { Ok(x) => x, Err(e) => { out.propfail("harness: cannot run the cedar binary", &desc, &e); return; } };
    out.count("cli_format");
    let want_code = match &pretty { Ok(p) => if check && *p != text { 1 } else { 0 }, Err(_) => 1 };
    if run.code != Some(want_code) || pretty.as_ref().map(|p| *p != run.stdout).unwrap_or(false) {
        out.propfail("cedar format: exit status / output differ from policies_str_to_pretty", &desc, &format!("exit {:?} ; api exit {want_code} ; stdout {:?} ; api {pretty:?}", run.code, run.stdout));
    }
    out.nontrivial(&desc);
}

pub fn run_cli(args: &Args, out: &mut Out) {
    let cli = cli_path();
    if !cli.exists() {
        eprintln!("cedar CLI binary not found at {} (run ./setup.sh or set CEDAR_CLI)", cli.display());
        std::process::exit(4);
    }
    // process start-up dominates: run on worker threads
    let base = std::path::Path::new(&args.out).join("cli");
    parallel(args, 0xC19D, out, std::sync::Arc::new(move |i: u64, cr: &mut Rng, g: &mut ExprGen, out: &mut Out| {
        let dir = base.join(format!("{}", i % 64)); // inputs of the most recent runs stay on disk
        let _ = std::fs::remove_dir_all(&dir);
        std::fs::create_dir_all(&dir).expect("mkdir");
        match cr.below(20) {
            0..=9 => cli_authorize(cr, g, out, &cli, &dir, i),
            10..=13 => cli_validate(cr, g, out, &cli, &dir, i),
            14..=15 => cli_check_parse(cr, g, out, &cli, &dir, i),
            16..=18 => cli_translate(cr, g, out, &cli, &dir, i),
            _ => cli_format(cr, g, out, &cli, &dir),
        }
        out.cases += 1;
    }));
}
