//! C12: the formatter. Generated policy-set texts (expression generator of gen.rs printed via Display,
//! policy generator of c01.rs, a hand-written corpus of surface syntax, parse-validated surface mutations
//! such as trailing commas / parentheses / blank lines), with a comment injected at **each token boundary
//! in turn**, over the grid line_width x indent_width.  Implementation-only checks (out.propfail):
//!   * formatting succeeds (no Err, no panic),
//!   * the output parses to structurally identical policies (ids, effect, annotations incl. their order,
//!     scope, eq_shape of conditions; templates included),
//!   * every comment of the input appears in the output in the same relative order,
//!   * comment-free text: fmt(fmt(x)) == fmt(x),
//!   * re-formatting any output (same and another config) preserves policies and comments.
//! Each lost comment is classified by "token kind it was attached to (by the formatter's own lexer) +
//! enclosing construct" so that known findings can be keyed narrowly.
//! Model lines: `(fmt-tokens "text")` — the token stream with attached comments computed by the formatter's
//! lexer vs the Lean mirror of it (Cedar/Fmt.lean), on inputs and on formatter outputs.
use crate::c01;
use crate::gen::{self, ExprGen, Ty};
use crate::out::Out;
use crate::rng::Rng;
use crate::sx;
use crate::Args;
use cedar_policy_core::ast::{Effect, Template};
use cedar_policy_core::parser::{self, cst};
use cedar_policy_formatter::lexer::get_token_stream;
use cedar_policy_formatter::{policies_str_to_pretty, Config};
use std::collections::BTreeSet;
use std::panic::{catch_unwind, AssertUnwindSafe};

pub const WIDTHS: &[usize] = &[1, 20, 40, 80, 120];
pub const INDENTS: &[isize] = &[0, 2, 4, 8];

// ---------------------------------------------------------------------------------------------
// observation helpers
// ---------------------------------------------------------------------------------------------

#[derive(Clone, Debug)]
pub struct Tok {
    pub kind: String,
    pub text: String,
    pub start: usize,
    pub end: usize,
    pub leading: Vec<String>,
    pub trailing: String,
}

/// the formatter's own lexer: tokens with attached comments + end-of-file comments
pub fn lex(text: &str) -> Option<(Vec<Tok>, Vec<String>)> {
    let r = catch_unwind(AssertUnwindSafe(|| {
        let (toks, eof) = get_token_stream(text)?;
        let eof: Vec<String> = eof.map(|s| s.to_string()).collect();
        let toks = toks
            .into_iter()
            .map(|t| {
                let dbg = format!("{:?}", t.token);
                let kind = dbg.split('(').next().unwrap_or("").to_string();
                Tok {
                    kind,
                    text: t.token.to_string(),
                    start: t.span.start,
                    end: t.span.end,
                    leading: t.comment.leading_comment().iter().map(|s| s.to_string()).collect(),
                    trailing: t.comment.trailing_comment().to_string(),
                }
            })
            .collect();
        Some((toks, eof))
    }));
    r.ok().flatten()
}

/// canonical reply of the `fmt-tokens` op
pub fn tokens_sx(text: &str) -> String {
    match lex(text) {
        None => "(lex-error)".to_string(),
        Some((toks, eof)) => {
            let mut o = String::from("(toks");
            for t in &toks {
                o.push_str(&format!(" (t {} {} (", t.kind, sx::qs(&t.text)));
                o.push_str(&t.leading.iter().map(|c| sx::qs(c)).collect::<Vec<_>>().join(" "));
                o.push_str(&format!(") {})", sx::qs(&t.trailing)));
            }
            o.push_str(" (eof");
            for c in &eof {
                o.push(' ');
                o.push_str(&sx::qs(c));
            }
            o.push_str("))");
            o
        }
    }
}

/// independent comment scanner: respects string literals (with escapes); a comment runs to end of line
pub fn scan_comments(text: &str) -> Vec<String> {
    let b: Vec<char> = text.chars().collect();
    let mut i = 0;
    let mut res = Vec::new();
    while i < b.len() {
        if b[i] == '"' {
            i += 1;
            while i < b.len() && b[i] != '"' {
                if b[i] == '\\' { i += 1; }
                i += 1;
            }
            i += 1;
        } else if b[i] == '/' && i + 1 < b.len() && b[i + 1] == '/' {
            let s = i;
            while i < b.len() && b[i] != '\n' && b[i] != '\r' { i += 1; }
            res.push(b[s..i].iter().collect::<String>().trim().to_string());
        } else {
            i += 1;
        }
    }
    res
}

/// is `need` a subsequence of `have`? returns the elements of `need` that could not be matched in order
pub fn missing_in_order(need: &[String], have: &[String]) -> Vec<String> {
    let mut j = 0;
    let mut miss = Vec::new();
    for n in need {
        let mut k = j;
        while k < have.len() && &have[k] != n { k += 1; }
        if k < have.len() { j = k + 1; } else { miss.push(n.clone()); }
    }
    miss
}

pub struct Shape {
    pub templates: Vec<Template>,
    /// annotation keys per policy in source order (from the CST)
    pub anno_order: Vec<Vec<String>>,
}

/// parse with the real parser; policies in source order (ids policy0, policy1, …)
pub fn shape(text: &str) -> Result<Shape, String> {
    let r = catch_unwind(AssertUnwindSafe(|| -> Result<Shape, String> {
        let ps = parser::parse_policyset(text).map_err(|e| format!("{e:?}"))?;
        let mut templates: Vec<Template> = ps.all_templates().cloned().collect();
        let idx = |t: &Template| -> u64 { let s: &str = t.id().as_ref(); s.trim_start_matches("policy").parse::<u64>().unwrap_or(u64::MAX) };
        templates.sort_by_key(idx);
        let c = parser::text_to_cst::parse_policies(text).map_err(|e| format!("{e:?}"))?;
        let mut anno_order = Vec::new();
        if let Some(pols) = c.as_inner() {
            for p in &pols.0 {
                let mut keys = Vec::new();
                if let Some(cst::Policy::Policy(pi)) = p.as_inner() {
                    for a in &pi.annotations {
                        if let Some(a) = a.as_inner() {
                            keys.push(a.key.as_inner().map(|k| k.to_string()).unwrap_or_default());
                        }
                    }
                }
                anno_order.push(keys);
            }
        }
        Ok(Shape { templates, anno_order })
    }));
    match r { Ok(x) => x, Err(_) => Err("panic in parser".into()) }
}

/// None = structurally identical
pub fn shape_diff(a: &Shape, b: &Shape) -> Option<String> {
    if a.templates.len() != b.templates.len() {
        return Some(format!("number of policies {} vs {}", a.templates.len(), b.templates.len()));
    }
    if a.anno_order != b.anno_order {
        return Some(format!("annotation keys/order {:?} vs {:?}", a.anno_order, b.anno_order));
    }
    for (x, y) in a.templates.iter().zip(b.templates.iter()) {
        let id: &str = x.id().as_ref();
        if x.id() != y.id() { return Some(format!("policy id {} vs {}", id, y.id())); }
        if x.effect() != y.effect() { return Some(format!("{id}: effect")); }
        let ax: Vec<(String, String)> = x.annotations().map(|(k, v)| (k.to_string(), v.val.to_string())).collect();
        let ay: Vec<(String, String)> = y.annotations().map(|(k, v)| (k.to_string(), v.val.to_string())).collect();
        if ax != ay { return Some(format!("{id}: annotations {ax:?} vs {ay:?}")); }
        if x.principal_constraint() != y.principal_constraint() { return Some(format!("{id}: principal constraint")); }
        if x.action_constraint() != y.action_constraint() { return Some(format!("{id}: action constraint")); }
        if x.resource_constraint() != y.resource_constraint() { return Some(format!("{id}: resource constraint")); }
        match (x.non_scope_constraints(), y.non_scope_constraints()) {
            (None, None) => {}
            (Some(p), Some(q)) => if !p.eq_shape(q) { return Some(format!("{id}: condition {p} vs {q}")); },
            _ => return Some(format!("{id}: condition present vs absent")),
        }
    }
    None
}

pub fn fmt(text: &str, lw: usize, iw: isize) -> Result<String, String> {
    let cfg = Config { line_width: lw, indent_width: iw };
    match catch_unwind(AssertUnwindSafe(|| policies_str_to_pretty(text, &cfg))) {
        Ok(Ok(s)) => Ok(s),
        Ok(Err(e)) => Err(format!("error: {e:?}")),
        Err(_) => Err("panic".to_string()),
    }
}

// ---------------------------------------------------------------------------------------------
// classification of a token position: enclosing construct
// ---------------------------------------------------------------------------------------------

/// for each token: the construct opened by the innermost enclosing bracket ("top" outside any bracket);
/// for an opening/closing bracket token: the construct it opens/closes.
pub fn constructs(toks: &[Tok]) -> Vec<&'static str> {
    let mut stack: Vec<&'static str> = Vec::new();
    let mut res = Vec::with_capacity(toks.len());
    for (i, t) in toks.iter().enumerate() {
        let prev = if i > 0 { Some(&toks[i - 1]) } else { None };
        let prev_kind = prev.map(|p| p.kind.as_str()).unwrap_or("");
        // does the previous token end an expression (so that `(`/`[` is a call / index)?
        let after_value = matches!(prev_kind, "Identifier" | "RParen" | "RBracket" | "RBrace" | "Str" | "Principal" | "Action" | "Resource" | "Context" | "Number" | "True" | "False" | "PrincipalSlot" | "ResourceSlot")
            // keywords are valid attribute / function names after `.`
            || (i >= 2 && toks[i - 2].kind == "Dot");
        match t.kind.as_str() {
            "LParen" => {
                let c = if stack.is_empty() {
                    if i >= 2 && toks[i - 2].kind == "At" { "annotation" } else { "scope" }
                } else if after_value { "call-args" } else { "paren" };
                stack.push(c);
                res.push(c);
            }
            "LBracket" => {
                let c = if after_value { "index" } else { "list" };
                stack.push(c);
                res.push(c);
            }
            "LBrace" => {
                let c = if stack.is_empty() { "cond-body" } else { "record" };
                stack.push(c);
                res.push(c);
            }
            "RParen" | "RBracket" | "RBrace" => {
                res.push(stack.pop().unwrap_or("top"));
            }
            _ => res.push(stack.last().copied().unwrap_or("top")),
        }
    }
    res
}

/// classification key of the comment `c` in `text`: which token it is attached to, and where
pub fn classify(text: &str, c: &str) -> String {
    let Some((toks, eof)) = lex(text) else { return "attached=unlexable".into() };
    let cons = constructs(&toks);
    for (i, t) in toks.iter().enumerate() {
        let pos = if t.trailing.split('\r').any(|p| p.trim() == c) { Some("trailing") } else if t.leading.iter().any(|l| l == c) { Some("leading") } else { None };
        if let Some(pos) = pos {
            let mut kind = t.kind.clone();
            if kind == "Comma" {
                let next = toks.get(i + 1).map(|n| n.kind.as_str()).unwrap_or("");
                if matches!(next, "RParen" | "RBracket" | "RBrace") { kind = "Comma(trailing-comma)".into(); }
            }
            // a closing bracket directly after a trailing comma
            let mut after = "";
            if matches!(t.kind.as_str(), "RParen" | "RBracket" | "RBrace") && i > 0 && toks[i - 1].kind == "Comma" { after = " after-trailing-comma"; }
            return format!("attached={kind}.{pos}{after} in={}", cons[i]);
        }
    }
    if eof.iter().any(|l| l == c) { return "attached=EOF".into(); }
    "attached=none".into()
}

// ---------------------------------------------------------------------------------------------
// generators
// ---------------------------------------------------------------------------------------------

/// hand-written corpus: surface syntax that Display of generated ASTs never produces
pub const CORPUS: &[&str] = &[
    "permit(principal,action,resource);",
    "forbid(principal,action,resource,);",
    "permit(principal == User::\"a\", action in [Action::\"a\", Action::\"b\",], resource in NS::Doc::\"d\",) when { true };",
    "permit(principal is User in Group::\"g\", action == Action::\"a\", resource is NS::Doc) unless { false };",
    "permit(principal == ?principal, action, resource in ?resource) when { principal in Group::\"g\" };",
    "permit(principal is User in ?principal, action, resource is NS::Doc in ?resource);",
    "@id(\"p1\") @note(\"has // no comment\") @bare permit(principal,action,resource) when { { a : 1 , } == {\"a\":1,\"b c\":[1,2,],} };",
    "permit(principal,action,resource) when { [1,] == [1,2,3,] && [ ] == [] && {} == { } };",
    "permit(principal,action,resource) when { ip(\"1.2.3.4\",).isInRange(ip(\"1.0.0.0/8\"),) && decimal(\"1.0\").lessThan(decimal(\"2.0\",),) };",
    "permit(principal,action,resource) when { !!true && !(!false) && - - 1 == 1 && -1 < - 2 && ---3 == -3 && !!!!false };",
    "permit(principal,action,resource) when { (1 + 2) * 3 - 4 * (5 - -6) == 7 && ((((8)))) == 8 };",
    "permit(principal,action,resource) when { if principal has n then principal.n > 0 else if context has \"has space\" then context[\"has space\"] == \"x\" else false };",
    "permit(principal,action,resource) when { principal.f.f.f.n == 1 && principal[\"f\"][\"n\"] == 1 && context.r.r has a.b.c && context has a.b };",
    "permit(principal,action,resource) when { principal is User && principal is NS::Doc in Group::\"g\" && resource is User in [Group::\"g\",] };",
    "permit(principal,action,resource) when { \"abc\" like \"a*\\*c\" && context.s like \"*\" && \"\\\"q//x\\\"\" == \"// not a comment\" };",
    "permit(principal,action,resource) when { true || false || true && false && true || 1 < 2 || 1 <= 2 || 1 > 2 || 1 >= 2 || 1 != 2 };",
    "permit(principal,action,resource) when { principal in [User::\"a\", Group::\"b\"] && [1,2].contains(1) && [1].containsAll([1,]) && [1].containsAny([2]) && [].isEmpty() };",
    "permit(principal,action,resource) when { principal.hasTag(\"k1\") && principal.getTag(\"k1\") == 1 };",
    "permit(principal,action,resource) when { {\"if\": 1, \"then\": 2, principal: 3, action: 4, resource: 5, context: 6, permit: 7, when: 8, unless: 9, forbid: 10,}.principal == {a:1}[\"a\"] };",
    "permit(principal,action,resource) when { {a: {b: {c: [ {d: 1,}, ], }, }, }.a.b.c == [] };",
    "permit(principal,action,resource) when { true } unless { false } when { 1 == 1 } unless { 2 == 1 };",
    "permit(principal,action,resource) when { true } ;",
    "permit(principal,action,resource) when { datetime(\"2024-01-01\").offset(duration(\"1d\")).toDate() < datetime(\"2025-01-01\") && duration(\"1h\").toMinutes() == 60 };",
    "permit(principal,action,resource) when { 0007 == 7 && 9223372036854775807 > 0 && -9223372036854775808 < 0 };",
    "permit(principal,action,resource) when { A::B::C::\"x\" == A::B::C::\"x\" && NS::Doc::\"\\u{1F600}\" != NS::Doc::\"e\\\"q\" };",
    "@a(\"1\")\n@b(\"2\")\n@c\n@d(\"\")\npermit(principal,action,resource);",
    "permit(principal,action,resource);forbid(principal,action,resource)when{1==1};@id(\"x\")permit(principal,action,resource)unless{false};",
    "permit(principal,action,resource);// c\nforbid(principal,action,resource);",
    "permit(principal,action,resource) when { context.aaaaaaaaaaaaaaaaaaaaaaaaaaaaaaaaaaaaaaaaaaaaaaaaaaaaaaaaaaaaaaaaaaaaaaaaaaaaaaaaaaaaaaaaaaaaaaaaaaaaaaaaaaaaaaaaaaaaaa.bbbbbbbbbbbbbbbbbbbbbbbbbbbbbbbbbbbbbbbbbbbbbbbbbbbbbbbbbbbbbbbbbbbbbbbbbbbbbbbbbbbbbbbbbb == \"cccccccccccccccccccccccccccccccccccccccccccccccccccccccccccccccccccccccccccccccccccccccccccccccccccccccccccccccccccccccccccccc\" };",
    "permit(principal,action,resource) when { \"multi\nline\n\n\nstring\" == \"x\" };",
    // chains of three and more operands of every left-associative operator (a comment may sit on ANY operator of the chain)
    "permit(principal,action,resource) when { 1 + 2 - 3 + context.n - 4 + 5 == 0 && 1 * 2 * 3 * 4 == 24 && true && false && 1 < 2 || false || true || 2 <= 1 };",
    "permit(principal,action,resource) when { context.a.b.c.d.e == A::B::C::D::\"x\" && principal.f.f.f.f has n && - - - 1 == 1 };",
    // blank lines inside a string literal and inside an entity id, after text that looks like the start of a string / comment
    "permit(principal,action,resource) when { User::\"a\n\nb\" == principal && \"x // y\n\n// z\" != \"\n\n\" };",
];

fn gen_annotations(r: &mut Rng) -> String {
    let mut s = String::new();
    let keys = ["id", "note", "a", "b_2", "if", "permit", "when", "in", "advice"];
    let vals = ["", "x", "policy 1", "with // slashes", "q\\\"uote", "\\u{1F600}", "line1\\nline2"];
    let n = r.below(4);
    let mut used = BTreeSet::new();
    for _ in 0..n {
        let k = *r.pick(&keys);
        if !used.insert(k) { continue; }
        if r.chance(25) { s.push_str(&format!("@{k}")); } else { s.push_str(&format!("@{k}(\"{}\")", r.pick(&vals))); }
        s.push_str(if r.chance(50) { "\n" } else { " " });
    }
    s
}

/// one generated policy text (static or template), via c01's policy generator and gen.rs expressions
fn gen_policy_text(r: &mut Rng, g: &mut ExprGen, w: &gen::World, deep: bool) -> String {
    let effect = if r.chance(50) { Effect::Permit } else { Effect::Forbid };
    let template = r.chance(25);
    let mut text = gen_annotations(r);
    if deep {
        // long lines: a deep random expression of a random type wrapped into a boolean
        let ty = *r.pick(gen::ALL_TYS);
        let d = 3 + r.below(3) as u32;
        let e = g.gen(r, ty, d);
        let b = g.gen(r, Ty::Bool, 2);
        let (scope, _, _) = c01::gen_scope(r, w, template);
        text.push_str(&format!("{} {} when {{ {} == {} || {} }};", if effect == Effect::Permit { "permit" } else { "forbid" }, scope, e, e, b));
    } else {
        let p = c01::gen_policy(r, g, w, "x", effect, 3, template);
        text.push_str(&p.text);
    }
    text
}

/// a program: 1..4 policies joined by blank lines / single newlines / nothing
fn gen_program(r: &mut Rng, g: &mut ExprGen, w: &gen::World) -> String {
    let n = 1 + r.below(4);
    let mut s = String::new();
    for i in 0..n {
        if i > 0 { s.push_str(*r.pick(&["\n", "\n\n", " ", "\n\n\n", "", ""])); } // "" = minified: the next policy abuts the `;`
        if r.chance(20) {
            s.push_str(*r.pick(CORPUS));
        } else {
            let deep = r.chance(30);
            s.push_str(&gen_policy_text(r, g, w, deep));
        }
    }
    s
}

/// parse-validated surface mutations: trailing commas before closers, redundant parentheses around
/// primaries are produced by text edits at token boundaries and kept only if the AST is unchanged.
fn mutate_surface(r: &mut Rng, text: &str, base: &Shape, out: &mut Out) -> String {
    let mut cur = text.to_string();
    let tries = 1 + r.below(4);
    for _ in 0..tries {
        let Some((toks, _)) = lex(&cur) else { return cur };
        if toks.is_empty() { return cur; }
        let i = r.below(toks.len());
        let t = &toks[i];
        let cand = match r.below(3) {
            0 => {
                // trailing comma before a closer
                let closers: Vec<usize> = toks.iter().enumerate().filter(|(j, t)| matches!(t.kind.as_str(), "RParen" | "RBracket" | "RBrace") && *j > 0 && !matches!(toks[j - 1].kind.as_str(), "Comma" | "LParen" | "LBracket" | "LBrace")).map(|(j, _)| j).collect();
                if closers.is_empty() { continue; }
                let j = *r.pick(&closers);
                format!("{},{}", &cur[..toks[j].start], &cur[toks[j].start..])
            }
            1 => {
                // parenthesise one literal / identifier token
                if !matches!(t.kind.as_str(), "Number" | "Str" | "True" | "False" | "Principal" | "Context") { continue; }
                format!("{}({}){}", &cur[..t.start], &cur[t.start..t.end], &cur[t.end..])
            }
            _ => {
                // newline / blank lines / tabs / CRLF at a token boundary
                let ws = *r.pick(&["\n", "\n\n", "\n\n\n", "\t", "   ", "\r\n", "\n  \n"]);
                format!("{}{}{}", &cur[..t.start], ws, &cur[t.start..])
            }
        };
        match shape(&cand) {
            Ok(s) if shape_diff(base, &s).is_none() => { out.count("surface_mutation_kept"); cur = cand; }
            _ => out.count("surface_mutation_rejected"),
        }
    }
    cur
}

// ---------------------------------------------------------------------------------------------
// the checks
// ---------------------------------------------------------------------------------------------

fn cfg_str(lw: usize, iw: isize) -> String { format!("line_width={lw} indent_width={iw}") }

fn report_lost(out: &mut Out, stage: &str, text: &str, lost: &[String], lw: usize, iw: isize, detail: &str) {
    let mut seen = BTreeSet::new();
    for c in lost {
        let key = classify(text, c);
        if seen.insert(key.clone()) {
            out.count(&format!("lost[{key}]"));
            out.propfail(
                &format!("comment-lost{stage} {key}"),
                &format!("{} comment={c} input={}", cfg_str(lw, iw), sx::qs(text)),
                detail,
            );
        }
    }
}

/// all C12 predicates on one input text and one config. `base`: shape of the comment-free program.
pub fn check_one(out: &mut Out, text: &str, base: &Shape, lw: usize, iw: isize, reformat: bool) -> Option<String> {
    out.count("format_calls");
    let comments_in = scan_comments(text);
    let o = match fmt(text, lw, iw) {
        Ok(o) => o,
        Err(e) => {
            // classify by the comment position if there is exactly one comment
            let key = if comments_in.len() == 1 { classify(text, &comments_in[0]) } else { format!("comments={}", comments_in.len()) };
            out.propfail(&format!("format-failed {key}"), &format!("{} input={}", cfg_str(lw, iw), sx::qs(text)), &e.chars().take(600).collect::<String>());
            return None;
        }
    };
    match shape(&o) {
        Err(e) => { out.propfail("output-unparseable", &format!("{} input={}", cfg_str(lw, iw), sx::qs(text)), &format!("output={} err={}", sx::qs(&o), e.chars().take(300).collect::<String>())); return None; }
        Ok(s) => if let Some(d) = shape_diff(base, &s) {
            out.propfail("policies-changed", &format!("{} input={}", cfg_str(lw, iw), sx::qs(text)), &format!("{d} output={}", sx::qs(&o)));
        },
    }
    if lw == 80 && iw == 2 && std::env::var("C12_DEBUG").is_ok() { eprintln!("---- input\n{text}\n---- output (80,2)\n{o}"); }
    let comments_out = scan_comments(&o);
    let lost = missing_in_order(&comments_in, &comments_out);
    if !lost.is_empty() {
        // lost or reordered?
        let (gone, moved): (Vec<String>, Vec<String>) = lost.iter().cloned().partition(|c| !comments_out.contains(c));
        report_lost(out, "", text, &gone, lw, iw, &format!("output={}", sx::qs(&o)));
        if !moved.is_empty() {
            let key = classify(text, &moved[0]);
            out.propfail(&format!("comment-reordered {key}"), &format!("{} input={}", cfg_str(lw, iw), sx::qs(text)), &format!("in={comments_in:?} out={comments_out:?}"));
        }
    }
    if comments_out.len() > comments_in.len() + 0 && lost.is_empty() { out.count("comment_duplicated_or_added"); }
    // token sequence of output vs input (formatter's own lexer): equal up to removed trailing commas
    if let (Some((ti, _)), Some((to, _))) = (lex(text), lex(&o)) {
        let strip = |ts: &[Tok]| -> Vec<String> {
            let mut v = Vec::new();
            for (i, t) in ts.iter().enumerate() {
                if t.kind == "Comma" && ts.get(i + 1).map(|n| matches!(n.kind.as_str(), "RParen" | "RBracket" | "RBrace")).unwrap_or(false) { continue; }
                v.push(if t.kind == "Number" { t.text.trim_start_matches('0').to_string() } else { t.text.clone() });
            }
            v
        };
        if strip(&ti) != strip(&to) {
            out.count("token_sequence_changed");
            out.sample(format!("token sequence changed: {} -> {}", sx::qs(text), sx::qs(&o)));
        } else { out.count("token_sequence_same"); }
    }
    if comments_in.is_empty() {
        // idempotence on comment-free text
        match fmt(&o, lw, iw) {
            Ok(o2) => if o2 != o { out.propfail("not-idempotent", &format!("{} input={}", cfg_str(lw, iw), sx::qs(text)), &format!("first={} second={}", sx::qs(&o), sx::qs(&o2))); } else { out.count("idempotent_ok"); },
            Err(e) => out.propfail("reformat-failed", &format!("{} input={}", cfg_str(lw, iw), sx::qs(text)), &format!("output={} err={}", sx::qs(&o), e.chars().take(300).collect::<String>())),
        }
    } else if reformat {
        // re-formatting any output preserves policies and comments (same config and a different one)
        for (lw2, iw2) in [(lw, iw), (WIDTHS[(lw + 1) % WIDTHS.len()], INDENTS[(iw as usize + 1) % INDENTS.len()])] {
            out.count("reformat_calls");
            match fmt(&o, lw2, iw2) {
                Ok(o2) => {
                    match shape(&o2) {
                        Ok(s) => if let Some(d) = shape_diff(base, &s) { out.propfail("reformat-policies-changed", &format!("{} then {} input={}", cfg_str(lw, iw), cfg_str(lw2, iw2), sx::qs(text)), &d); },
                        Err(e) => out.propfail("reformat-output-unparseable", &format!("{} then {} input={}", cfg_str(lw, iw), cfg_str(lw2, iw2), sx::qs(text)), &e.chars().take(300).collect::<String>()),
                    }
                    let c2 = scan_comments(&o2);
                    let lost2 = missing_in_order(&comments_out, &c2);
                    if !lost2.is_empty() {
                        report_lost(out, "-on-reformat", &o, &lost2, lw2, iw2, &format!("original-input={} second-output={}", sx::qs(text), sx::qs(&o2)));
                    }
                }
                Err(e) => out.propfail("reformat-failed", &format!("{} then {} input={}", cfg_str(lw, iw), cfg_str(lw2, iw2), sx::qs(text)), &format!("output={} err={}", sx::qs(&o), e.chars().take(300).collect::<String>())),
            }
        }
    }
    Some(o)
}

fn model_line(out: &mut Out, text: &str, what: &str) {
    out.line(format!("(fmt-tokens {})", sx::qs(text)), tokens_sx(text), format!("{what} {}", sx::qs(text)));
}

/// the injected-comment variants of a program: one comment at boundary b (0 ..= #tokens), in 3 styles
fn inject(text: &str, toks: &[Tok], b: usize, style: usize, tag: &str) -> String {
    let pos = if b < toks.len() { toks[b].start } else { text.len() };
    // cut is placed right after the previous token for trailing style (so that no newline intervenes)
    let prev_end = if b == 0 { 0 } else { toks[b - 1].end };
    match style {
        // trailing comment of token b-1 (same line)
        0 => format!("{} // {tag}\n{}", &text[..prev_end], &text[prev_end..]),
        // leading comment (own line) of token b
        1 => format!("{}\n// {tag}\n{}", &text[..pos], &text[pos..]),
        // two comment lines with a blank line between, no space after `//`, trailing whitespace
        _ => format!("{}\n//{tag}a  \n\n  //{tag}b\t\n{}", &text[..pos], &text[pos..]),
    }
}

pub fn run_program(out: &mut Out, r: &mut Rng, text: &str, thorough: bool, exhaustive_grid: bool) {
    let base = match shape(text) {
        Ok(s) => s,
        Err(e) => { out.count("generated_unparseable"); if std::env::var("C12_DEBUG").is_ok() { eprintln!("UNPARSEABLE: {text}\n{}", e.chars().take(400).collect::<String>()); } return; }
    };
    out.cases += 1;
    out.count("programs");
    let Some((toks, _)) = lex(text) else { out.propfail("lexer-failed-on-parseable", text, ""); return; };
    out.add("tokens", toks.len() as u64);
    if toks.len() >= 25 { out.nontrivial(text); }
    out.sample(text.to_string());
    model_line(out, text, "base");
    // (a) comment-free: full grid, idempotence
    let mut last = None;
    for &lw in WIDTHS { for &iw in INDENTS { last = check_one(out, text, &base, lw, iw, false); } }
    if let Some(o) = &last { model_line(out, o, "output"); }
    // (b) one comment at each boundary in turn, 3 styles; configs rotate over the grid (all 20 when exhaustive)
    let grid: Vec<(usize, isize)> = WIDTHS.iter().flat_map(|&lw| INDENTS.iter().map(move |&iw| (lw, iw))).collect();
    let mut k = r.below(grid.len());
    for b in 0..=toks.len() {
        for style in 0..3 {
            // comment texts rotate: plain, with an unbalanced quote, with quotes / backslash / comment openers
            let tag = match b % 3 { 0 => format!("c{b}"), 1 => format!("c{b} 6\" wide"), _ => format!("c{b} \"q\" \\ 'x' // /*") };
            let t = inject(text, &toks, b, style, &tag);
            out.count("boundary_variants");
            // the injected text must still parse to the same policies (comments are not tokens)
            // (sanity of the harness; check_one compares every output with `base` anyway)
            if thorough || b % 4 == 0 {
                match shape(&t) {
                    Ok(s) => if let Some(d) = shape_diff(&base, &s) { out.propfail("harness: injected comment changed the parse", &t, &d); continue; },
                    Err(e) => { out.propfail("harness: injected comment broke the parse", &t, &e.chars().take(200).collect::<String>()); continue; }
                }
            }
            if style == 0 || b % 7 == 0 { model_line(out, &t, "injected"); }
            if exhaustive_grid {
                if !thorough && style == 2 { continue; }
                for &(lw, iw) in &grid { check_one(out, &t, &base, lw, iw, thorough && lw == 40); }
            } else {
                let ncfg = if thorough { 4 } else { 1 };
                for j in 0..ncfg {
                    let (lw, iw) = grid[(k + j * 7) % grid.len()];
                    let o = check_one(out, &t, &base, lw, iw, j == 0 && (thorough || style == 0));
                    if j == 0 && style == 1 && b % 5 == 0 { if let Some(o) = o { model_line(out, &o, "output-of-injected"); } }
                }
                k += 1;
            }
        }
    }
    // (c) comments at all boundaries at once (trailing + leading), and at a random subset
    for variant in 0..2 {
        let mut t = String::new();
        let mut prev = 0;
        for (i, tk) in toks.iter().enumerate() {
            t.push_str(&text[prev..tk.start]);
            if variant == 0 || r.chance(30) { t.push_str(&format!("\n// L{i}\n")); }
            t.push_str(&text[tk.start..tk.end]);
            if variant == 0 || r.chance(30) { t.push_str(&format!(" // T{i}\n")); }
            prev = tk.end;
        }
        t.push_str(&text[prev..]);
        t.push_str("\n// E1\n\n// E2");
        match shape(&t) {
            Ok(s) if shape_diff(&base, &s).is_none() => {}
            _ => { out.propfail("harness: injected comments changed the parse", &t, ""); continue; }
        }
        model_line(out, &t, "all-boundaries");
        out.count("all_boundary_variants");
        for j in 0..(if thorough { 6 } else { 2 }) {
            let (lw, iw) = grid[(k + j * 3) % grid.len()];
            check_one(out, &t, &base, lw, iw, true);
        }
        k += 1;
    }
}

/// lexer / comment-attachment correspondence on texts that need not parse: odd whitespace, `\r`, lexer errors
pub const LEX_STRESS: &[&str] = &[
    "", " ", "\n", "// only", "// a\n// b", "//", "a//b", "a // x\r// y\nb", "a\r\n// c\r\nb", "a // t1 \r // t2 \n b", "a\n\n\n// far\n\nb",
    "a /* not a comment */ b", "a / b", "a / / b", "a /// triple\nb", "?principal ?resource ?principalx ?resourc", "? principal", "1a", "a1 _x __ x_1 007 0",
    "ifx if iff thenelse then else in inn has like is true false truee permit forbid when unless principal action resource context",
    "a::b : :: ::: :::: = == === != ! !! < <= <== > >= || | && & + - * % , ; . @ ( ) { } [ ]", "a = b", "a | b", "a & b", "a # b", "a $ b", "a ~ b", "a ^ b", "a ' b", "a ` b", "a \\ b",
    "\"str\" \"with \\\" quote\" \"// not comment\" // comment \"str\"", "\"unterminated", "\"bs at end\\", "\"bs newline \\\n\"", "\"multi\nline\" x", "\"a\\\\\" b",
    "a\u{a0}b // nbsp\u{a0}\n c", "a\u{2028}// after LS\nb", "a\u{3000}b\u{85}c\u{b}d\u{c}e", "a\t// tab comment\t \n\tb", "a //\u{a0}trail\u{2003}\nb",
    "\u{feff}a", "a\u{200b}b", "é", "a é", "// é\na", "a // \u{1F600} emoji\n// second\n\n// third\nb // last", "a // c1\n", "a // c1\n\n", "a\n// eof1\n   //eof2   \n\n", "  // lead1\n//lead2\n a",
    "permit(principal,action,resource)when{1==1};", "a//\nb", "a//\rb", "a//x\r\r\n\n//y\nb",
];

fn lexer_stress(out: &mut Out, r: &mut Rng, n: usize) {
    for t in LEX_STRESS {
        model_line(out, t, "lex-stress");
        out.count("lex_stress_lines");
    }
    let alphabet: Vec<&str> = vec![
        "a", "if", "principal", "?principal", "1", "\"s\"", " ", " ", "\n", "\n", "\r", "\t", "//", "// c", "/", ",", ";", ":", "::", "(", ")", "{", "}", "[", "]",
        "==", "!", "<", ">", "||", "&&", "+", "-", "*", "%", ".", "@", "\u{a0}", "\u{2028}", "!=", "<=", "x_1", "007", "\"a // b\"", "\r\n",
    ];
    let bad: Vec<&str> = vec!["\"", "\\", "=", "|", "&", "é", "#", "?", "\"x\\\n\""];
    for _ in 0..n {
        let len = 1 + r.below(14);
        let mut t = String::new();
        for _ in 0..len { if r.chance(4) { t.push_str(bad[r.below(bad.len())]); } else { t.push_str(alphabet[r.below(alphabet.len())]); } }
        if lex(&t).is_none() { out.count("lex_stress_errors"); }
        model_line(out, &t, "lex-soup");
        out.count("lex_stress_lines");
    }
}

pub fn run(args: &Args, out: &mut Out) {
    let mut rng = Rng::new(args.seed);
    let mut g = ExprGen::new(3);
    if args.replay.is_none() {
        let mut r = rng.fork();
        lexer_stress(out, &mut r, if args.thorough { 4000 } else { 1500 });
    }
    // replay of one stored text
    if let Some(p) = &args.replay {
        let text = std::fs::read_to_string(p).expect("replay file");
        let mut r = rng.fork();
        run_program(out, &mut r, &text, true, true);
        return;
    }
    // 1. the hand-written corpus: exhaustive boundaries x full grid
    for (i, text) in CORPUS.iter().enumerate() {
        // thorough runs are sharded (seed = VERIF_SEED*1000 + shard): the corpus is identical in every shard, run it in shard 0 only
        if args.thorough && args.seed % 1000 != 0 { break; }
        let mut r = rng.fork();
        // the quick tier runs the full grid on two corpus entries (rotating with the seed); the others rotate configs per boundary
        let full = args.thorough || (i as u64 + args.seed) % 14 == 0;
        run_program(out, &mut r, text, args.thorough, full);
        out.count("corpus_programs");
    }
    // 2. generated programs
    let mut i = 0;
    while i < args.n {
        let mut cr = rng.fork();
        let w = gen::gen_world(&mut cr);
        for _ in 0..4 {
            let text = gen_program(&mut cr, &mut g, &w);
            let text = match shape(&text) {
                Ok(base) => mutate_surface(&mut cr, &text, &base, out),
                Err(_) => text,
            };
            run_program(out, &mut cr, &text, args.thorough, false);
            i += 1;
        }
    }
    for (k, v) in g.op_hist.iter() {
        out.add(&format!("op_{k}"), *v);
    }
}
