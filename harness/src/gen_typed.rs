//! SCHEMA-DIRECTED POLICY GENERATOR (shared infrastructure: C03, C14–C18).
//!
//! Given a `SchemaWorld` (gen_schema.rs) this module writes *policy texts* whose scope and conditions are
//! type-directed from the schema, so that most of them pass the real strict validator and exercise every
//! typing rule.  All randomness from `Rng`.
//!
//! API
//!  * `GenOpts { depth, near_miss_pct, ill_typed_pct, templates }` (+ `GenOpts::default()`).
//!  * `gen_policy(r, &SchemaWorld, &GenOpts) -> GenPolicy`: one policy (or template) with
//!      - `text`      the Cedar text (`permit|forbid (scope) when {..} [unless {..}];`),
//!      - `intent`    `Documented` (only declared, correctly typed accesses; optional attributes / tags guarded
//!                    the documented way — such a policy MUST be accepted by strict validation),
//!                    `NearMiss` (one access guarded the wrong way: `has` under `||`, in the other `if` branch, on a
//!                    different expression or attribute, after `!`, after the access, or next to an always-true operand of `||`),
//!                    `StrictOnly` (well-typed for the permissive checker but using something strict mode forbids:
//!                    non-literal constructor argument, mixed entity types in `if`/set/`==`, empty set literal),
//!                    `IllTyped` (an operand of the wrong type, undeclared attribute, unguarded tag, …),
//!      - `idioms`    tags of the idioms used (`guard-and`, `guard-if`, `guard-has-path`, `guard-tag`, `in-action-group`, `is`, …),
//!      - `target`    the (principal type, action index, resource type) environment the body was typed for,
//!      - `is_template` / `slots` which of `?principal`, `?resource` occur.
//!  * `gen_policy_text(r, &SchemaWorld, &GenOpts) -> String`.
//!  * `gen_valid_policies(r, &SchemaWorld, n) -> Vec<String>`: static policies accepted by Rust's strict validator.
//!  * `strict_accepts(&SchemaWorld, text) -> bool`, `validate_text(&ValidatorSchema, text, mode) -> Option<ValidationResult>`.
//!  * `gen_request_for(r, spec, action idx, P, R)`, `gen_link_values(r, spec, &GenPolicy)`: data matching a policy's target env.
//!  * `dval_text(&DVal)`, `cedar_str`, `uid_text`: Cedar concrete syntax of data.
//!
//! Expressions: attribute chains on `principal` / `resource` / `context` (through records and entity references,
//! `.a` or `["a"]`), tags (`getTag`), arithmetic, comparisons (long, datetime, duration), `==`/`!=` between equal types,
//! `in` (entity, set literal, set-typed attribute, action groups), `is` / `is .. in`, `like`, `contains*`/`isEmpty`,
//! extension calls with literal constructor arguments, `has` / `hasTag`, `&&` `||` `!` `if`.
//! Guard idioms (documented): `e has a && …e.a…`, `if e has a then …e.a… else b`, nested ifs, `e has a.b && …`,
//! `e.hasTag(k) && …e.getTag(k)…`.
use crate::gen;
use crate::gen_schema::{self as gs, AttrSpec, DRequest, DVal, STy, SchemaSpec, SchemaWorld, Uid};
use crate::rng::Rng;
use cedar_policy_core::ast::{PolicyID, PolicySet};
use cedar_policy_core::parser;
use cedar_policy_core::validator::{ValidationMode, ValidationResult, Validator, ValidatorSchema};
use std::collections::BTreeSet;

#[derive(Clone, Debug)]
pub struct GenOpts {
    /// nesting depth of boolean connectives / typed subexpressions
    pub depth: u32,
    /// probability (percent) that one guarded atom is wrapped the wrong way
    pub near_miss_pct: u32,
    /// probability (percent, per policy) that an ill-typed / strict-only node is planted
    pub ill_typed_pct: u32,
    /// allow `?principal` / `?resource` in the scope
    pub templates: bool,
}

impl Default for GenOpts {
    fn default() -> Self {
        GenOpts { depth: 3, near_miss_pct: 12, ill_typed_pct: 10, templates: true }
    }
}

#[derive(Clone, Copy, Debug, PartialEq, Eq, PartialOrd, Ord)]
pub enum Intent {
    Documented,
    NearMiss,
    StrictOnly,
    IllTyped,
}

impl Intent {
    pub fn name(&self) -> &'static str {
        match self {
            Intent::Documented => "documented",
            Intent::NearMiss => "near-miss",
            Intent::StrictOnly => "strict-only",
            Intent::IllTyped => "ill-typed",
        }
    }
}

#[derive(Clone, Debug)]
pub struct GenPolicy {
    pub text: String,
    pub intent: Intent,
    pub idioms: BTreeSet<&'static str>,
    /// (principal type, index into `spec.actions`, resource type)
    pub target: (String, usize, String),
    pub is_template: bool,
    /// (has ?principal, has ?resource)
    pub slots: (bool, bool),
}

// ------------------------------------------------------------------------------------------------
// concrete syntax helpers
// ------------------------------------------------------------------------------------------------

pub fn cedar_str(s: &str) -> String {
    let mut o = String::from("\"");
    for c in s.chars() {
        match c {
            '"' => o.push_str("\\\""),
            '\\' => o.push_str("\\\\"),
            '\0' => o.push_str("\\0"),
            c if (' '..='~').contains(&c) => o.push(c),
            c => o.push_str(&format!("\\u{{{:x}}}", c as u32)),
        }
    }
    o.push('"');
    o
}

pub fn uid_text(u: &Uid) -> String {
    format!("{}::{}", u.0, cedar_str(&u.1))
}

const RESERVED: &[&str] = &["if", "then", "else", "true", "false", "in", "like", "has", "is", "__cedar"];

fn is_ident(a: &str) -> bool {
    let mut cs = a.chars();
    match cs.next() {
        Some(c) if c.is_ascii_alphabetic() || c == '_' => {}
        _ => return false,
    }
    cs.all(|c| c.is_ascii_alphanumeric() || c == '_') && !RESERVED.contains(&a)
}

fn dot(e: &str, a: &str) -> String {
    if is_ident(a) { format!("{e}.{a}") } else { format!("{e}[{}]", cedar_str(a)) }
}

fn has(e: &str, a: &str) -> String {
    if is_ident(a) { format!("{e} has {a}") } else { format!("{e} has {}", cedar_str(a)) }
}

pub fn dval_text(v: &DVal) -> String {
    match v {
        DVal::Bool(b) => b.to_string(),
        DVal::Long(i) => if *i < 0 { format!("({i})") } else { i.to_string() },
        DVal::Str(s) => cedar_str(s),
        DVal::Ent(t, i) => uid_text(&(t.clone(), i.clone())),
        DVal::Set(xs) => format!("[{}]", xs.iter().map(dval_text).collect::<Vec<_>>().join(", ")),
        DVal::Rec(kvs) => format!("{{{}}}", kvs.iter().map(|(k, v)| format!("{}: {}", cedar_str(k), dval_text(v))).collect::<Vec<_>>().join(", ")),
        DVal::Ext(f, a) => format!("{f}({})", cedar_str(a)),
    }
}

/// common-type references unfolded everywhere
pub fn norm(t: &STy) -> STy {
    match t {
        STy::Common(_, d) => norm(d),
        STy::Set(e) => STy::Set(Box::new(norm(e))),
        STy::Record(attrs) => STy::Record(attrs.iter().map(|a| AttrSpec { name: a.name.clone(), ty: norm(&a.ty), required: a.required }).collect()),
        t => t.clone(),
    }
}

fn all_required(t: &STy) -> bool {
    match t {
        STy::Record(attrs) => attrs.iter().all(|a| a.required && all_required(&a.ty)),
        STy::Set(e) => all_required(e),
        _ => true,
    }
}

// ------------------------------------------------------------------------------------------------
// typing context
// ------------------------------------------------------------------------------------------------

#[derive(Clone, Debug, PartialEq)]
enum Guard {
    /// `on has attr`
    Attr { on: String, attr: String },
    /// `on.hasTag(key)`
    Tag { on: String, key: String },
}

impl Guard {
    fn text(&self) -> String {
        match self {
            Guard::Attr { on, attr } => has(on, attr),
            Guard::Tag { on, key } => format!("{on}.hasTag({key})"),
        }
    }
}

#[derive(Clone, Debug)]
struct Path {
    text: String,
    ty: STy,
    guards: Vec<Guard>,
}

struct Cx<'a> {
    spec: &'a SchemaSpec,
    /// principal / resource type when the scope (or an enclosing `is` test) pins it
    p_ty: Option<String>,
    r_ty: Option<String>,
    /// index of the action when pinned
    act: Option<usize>,
    paths: Vec<Path>,
    idioms: BTreeSet<&'static str>,
    near_miss_pct: u32,
    /// budget of ill-typed / strict-only nodes still to plant
    plant_ill: u32,
    planted: Option<Intent>,
    near_missed: bool,
}

const TAG_KEYS: &[&str] = &["k1", "k2", "some tag"];

impl<'a> Cx<'a> {
    fn compute_paths(&mut self) {
        let mut out: Vec<Path> = Vec::new();
        let mut frontier: Vec<Path> = Vec::new();
        if let Some(p) = &self.p_ty {
            frontier.push(Path { text: "principal".into(), ty: STy::Entity(p.clone()), guards: vec![] });
        }
        if let Some(r) = &self.r_ty {
            frontier.push(Path { text: "resource".into(), ty: STy::Entity(r.clone()), guards: vec![] });
        }
        if let Some(a) = self.act {
            if let Some(ap) = &self.spec.actions[a].applies {
                frontier.push(Path { text: "context".into(), ty: norm(&STy::Record(ap.context.clone())), guards: vec![] });
            }
        }
        for _depth in 0..3 {
            let mut next = Vec::new();
            for p in &frontier {
                let steps: Vec<(String, STy, Option<Guard>)> = match &p.ty {
                    STy::Entity(t) => {
                        let mut v = Vec::new();
                        if let Some(et) = self.spec.etype(t) {
                            for a in &et.attrs {
                                let g = if a.required { None } else { Some(Guard::Attr { on: p.text.clone(), attr: a.name.clone() }) };
                                v.push((dot(&p.text, &a.name), norm(&a.ty), g));
                            }
                            if let Some(tt) = &et.tags {
                                for k in TAG_KEYS.iter().take(2) {
                                    let key = cedar_str(k);
                                    v.push((format!("{}.getTag({key})", p.text), norm(tt), Some(Guard::Tag { on: p.text.clone(), key })));
                                }
                            }
                        }
                        v
                    }
                    STy::Record(attrs) => attrs
                        .iter()
                        .map(|a| {
                            let g = if a.required { None } else { Some(Guard::Attr { on: p.text.clone(), attr: a.name.clone() }) };
                            (dot(&p.text, &a.name), norm(&a.ty), g)
                        })
                        .collect(),
                    _ => vec![],
                };
                for (text, ty, g) in steps {
                    let mut guards = p.guards.clone();
                    if let Some(g) = g {
                        guards.push(g);
                    }
                    next.push(Path { text, ty, guards });
                }
            }
            out.extend(frontier.drain(..));
            if out.len() + next.len() > 90 {
                next.truncate(90usize.saturating_sub(out.len()));
            }
            frontier = next;
        }
        out.extend(frontier);
        self.paths = out;
    }

    fn paths_of(&self, ty: &STy) -> Vec<&Path> {
        self.paths.iter().filter(|p| &p.ty == ty).collect()
    }

    fn use_path(&mut self, r: &mut Rng, ty: &STy, g: &mut Vec<Guard>) -> Option<String> {
        let ps = self.paths_of(ty);
        if ps.is_empty() {
            return None;
        }
        let p = (*r.pick(&ps)).clone();
        for x in &p.guards {
            if !g.contains(x) {
                g.push(x.clone());
            }
        }
        if p.guards.iter().any(|x| matches!(x, Guard::Tag { .. })) {
            self.idioms.insert("guard-tag");
        }
        if p.text.contains('[') {
            self.idioms.insert("bracket-access");
        }
        Some(p.text)
    }

    fn etypes(&self) -> Vec<String> {
        self.spec.etypes.iter().map(|e| e.name.clone()).collect()
    }

    fn small_long(&self, r: &mut Rng) -> String {
        if r.chance(85) { r.range(0, 12).to_string() } else { dval_text(&DVal::Long(gen::gen_long(r))) }
    }

    fn lit(&mut self, r: &mut Rng, ty: &STy) -> String {
        match ty {
            STy::Long => self.small_long(r),
            STy::Set(e) => {
                let n = 1 + r.below(2);
                format!("[{}]", (0..n).map(|_| self.lit(r, e)).collect::<Vec<_>>().join(", "))
            }
            STy::Record(attrs) => format!(
                "{{{}}}",
                attrs.iter().map(|a| format!("{}: {}", cedar_str(&a.name), self.lit(r, &a.ty))).collect::<Vec<_>>().join(", ")
            ),
            t => dval_text(&gs::gen_dval(r, self.spec, t)),
        }
    }

    /// an expression of type `ty`; guards needed by optional accesses are pushed to `g`
    fn gen(&mut self, r: &mut Rng, ty: &STy, d: u32, g: &mut Vec<Guard>) -> String {
        if self.plant_ill > 0 && r.chance(20) {
            self.plant_ill -= 1;
            return self.plant(r, ty, d, g);
        }
        let from_path = r.chance(55);
        if from_path {
            if let Some(t) = self.use_path(r, ty, g) {
                return t;
            }
        }
        match ty {
            STy::Bool => {
                if d > 0 && r.chance(60) { format!("({})", self.bool_closed(r, d - 1)) } else { r.chance(50).to_string() }
            }
            STy::Long => {
                if d == 0 || r.chance(35) {
                    return self.small_long(r);
                }
                match r.below(7) {
                    0 => format!("({} + {})", self.gen(r, ty, d - 1, g), self.gen(r, ty, d - 1, g)),
                    1 => format!("({} - {})", self.gen(r, ty, d - 1, g), self.gen(r, ty, d - 1, g)),
                    2 => format!("({} * {})", self.gen(r, ty, d - 1, g), self.small_long(r)),
                    3 => format!("(-{})", self.gen(r, ty, d - 1, g)),
                    4 => {
                        self.idioms.insert("if-nonbool");
                        format!("(if {} then {} else {})", self.bool_closed(r, d - 1), self.gen(r, ty, d - 1, g), self.gen(r, ty, d - 1, g))
                    }
                    5 => {
                        self.idioms.insert("ext-call");
                        let f = *r.pick(&["toMilliseconds", "toSeconds", "toMinutes", "toHours", "toDays"]);
                        format!("{}.{f}()", self.gen(r, &STy::Ext("duration"), d - 1, g))
                    }
                    _ => self.small_long(r),
                }
            }
            STy::Str => self.lit(r, ty),
            STy::Entity(t) => {
                if self.p_ty.as_deref() == Some(t) && r.chance(30) {
                    return "principal".into();
                }
                if self.r_ty.as_deref() == Some(t) && r.chance(30) {
                    return "resource".into();
                }
                self.lit(r, ty)
            }
            STy::Set(e) => {
                if all_required(e) && d > 0 {
                    let n = 1 + r.below(3);
                    self.idioms.insert("set-literal");
                    format!("[{}]", (0..n).map(|_| self.gen(r, e, d - 1, g)).collect::<Vec<_>>().join(", "))
                } else if let Some(t) = self.use_path(r, ty, g) {
                    t
                } else {
                    self.lit(r, ty)
                }
            }
            STy::Record(attrs) => {
                if all_required(ty) && d > 0 {
                    self.idioms.insert("record-literal");
                    let attrs = attrs.clone();
                    format!("{{{}}}", attrs.iter().map(|a| format!("{}: {}", cedar_str(&a.name), self.gen(r, &a.ty, d - 1, g))).collect::<Vec<_>>().join(", "))
                } else if let Some(t) = self.use_path(r, ty, g) {
                    t
                } else {
                    self.lit(r, ty)
                }
            }
            STy::Ext(n) => {
                self.idioms.insert("ext-call");
                if d > 0 && *n == "datetime" && r.chance(40) {
                    if r.chance(50) {
                        format!("{}.offset({})", self.gen(r, ty, d - 1, g), self.gen(r, &STy::Ext("duration"), d - 1, g))
                    } else {
                        format!("{}.toDate()", self.gen(r, ty, d - 1, g))
                    }
                } else if d > 0 && *n == "duration" && r.chance(40) {
                    if r.chance(50) {
                        format!("{}.durationSince({})", self.gen(r, &STy::Ext("datetime"), d - 1, g), self.gen(r, &STy::Ext("datetime"), d - 1, g))
                    } else {
                        format!("{}.toTime()", self.gen(r, &STy::Ext("datetime"), d - 1, g))
                    }
                } else {
                    self.lit(r, ty)
                }
            }
            STy::Common(_, t) => {
                let t = norm(t);
                self.gen(r, &t, d, g)
            }
        }
    }

    /// a deliberately wrong node where an expression of type `ty` is wanted
    fn plant(&mut self, r: &mut Rng, ty: &STy, d: u32, g: &mut Vec<Guard>) -> String {
        let ets = self.etypes();
        let k = r.below(9);
        let (text, intent) = match k {
            // strict-only: non-literal constructor argument
            0 => {
                let s = self.gen(r, &STy::Str, 0, g);
                let arg = if s.starts_with('"') { format!("(if {} then \"10.0.0.1\" else \"::1\")", self.bool_closed(r, 0)) } else { s };
                (format!("ip({arg}).isLoopback()"), Intent::StrictOnly)
            }
            // strict-only: `if` between two entity types
            1 if ets.len() >= 2 => {
                let a = self.lit(r, &STy::Entity(ets[0].clone()));
                let b = self.lit(r, &STy::Entity(ets[1].clone()));
                (format!("((if {} then {a} else {b}) == {a})", self.bool_closed(r, 0)), Intent::StrictOnly)
            }
            // strict-only: set literal of mixed entity types
            2 if ets.len() >= 2 => {
                let a = self.lit(r, &STy::Entity(ets[0].clone()));
                let b = self.lit(r, &STy::Entity(ets[1].clone()));
                (format!("([{a}, {b}].contains({a}))"), Intent::StrictOnly)
            }
            // strict-only: empty set literal
            3 => ("([].isEmpty())".to_string(), Intent::StrictOnly),
            // strict-only: `==` between incompatible (but not provably disjoint) types
            4 => (format!("({} == {})", self.small_long(r), cedar_str("x")), Intent::StrictOnly),
            // ill-typed: operand of another type
            5 => {
                let other = match ty {
                    STy::Long => STy::Str,
                    _ => STy::Long,
                };
                (self.gen(r, &other, 0, g), Intent::IllTyped)
            }
            // ill-typed: undeclared attribute
            6 => {
                let base = if self.p_ty.is_some() { "principal" } else if self.r_ty.is_some() { "resource" } else { "principal" };
                (format!("({base}.zz_undeclared == 1)"), Intent::IllTyped)
            }
            // ill-typed: tag read without a guard
            7 => {
                let base = if self.r_ty.is_some() { "resource" } else { "principal" };
                (format!("({base}.getTag(\"k1\") == 1)"), Intent::IllTyped)
            }
            // ill-typed: wrong arity / bad literal of an extension constructor
            _ => {
                if r.chance(50) {
                    ("decimal(\"1.0\", \"2.0\").lessThan(decimal(\"1.0\"))".to_string(), Intent::IllTyped)
                } else {
                    (format!("(ip({}).isIpv4())", cedar_str(*r.pick(gen::IPS_BAD))), Intent::IllTyped)
                }
            }
        };
        let _ = d;
        self.planted = Some(match (self.planted, intent) {
            (Some(Intent::IllTyped), _) | (_, Intent::IllTyped) => Intent::IllTyped,
            _ => Intent::StrictOnly,
        });
        // planted nodes are boolean-valued unless they replace a typed operand (case 5); wrap so that the
        // surrounding expression stays syntactically sensible
        match (k, ty) {
            (5, _) => text,
            (_, STy::Bool) => text,
            (_, STy::Long) => format!("(if {text} then 1 else 2)"),
            _ => {
                let fallback = self.lit(r, ty);
                format!("(if {text} then {fallback} else {fallback})")
            }
        }
    }

    /// a boolean atom; guards are pushed to `g`
    fn bool_atom(&mut self, r: &mut Rng, d: u32, g: &mut Vec<Guard>) -> String {
        let dd = d.saturating_sub(1);
        for _ in 0..8 {
            let k = r.below(16);
            match k {
                0 => {
                    if let Some(t) = self.use_path(r, &STy::Bool, g) {
                        return t;
                    }
                }
                1 | 2 => {
                    let op = *r.pick(&["<", "<=", ">", ">=", "==", "!="]);
                    self.idioms.insert("long-cmp");
                    return format!("{} {op} {}", self.gen(r, &STy::Long, dd, g), self.gen(r, &STy::Long, dd, g));
                }
                3 => {
                    let s = self.gen(r, &STy::Str, dd, g);
                    return match r.below(3) {
                        0 => {
                            self.idioms.insert("like");
                            format!("{s} like {}", *r.pick(&["\"a*\"", "\"*\"", "\"*b*\"", "\"hello\\*\"", "\"a*b*c\"", "\"\""]))
                        }
                        1 => format!("{s} == {}", self.gen(r, &STy::Str, dd, g)),
                        _ => format!("{s} != {}", self.gen(r, &STy::Str, dd, g)),
                    };
                }
                4 | 5 | 6 => {
                    // entity relations
                    let ets = self.etypes();
                    let t = if self.p_ty.is_some() && r.chance(35) {
                        self.p_ty.clone().unwrap()
                    } else if self.r_ty.is_some() && r.chance(35) {
                        self.r_ty.clone().unwrap()
                    } else {
                        r.pick(&ets).clone()
                    };
                    let e = self.gen(r, &STy::Entity(t.clone()), dd, g);
                    // a type that `t` may be a member of (or any type)
                    let anc = self.spec.allowed_ancestor_types(&t);
                    let u = if !anc.is_empty() && r.chance(70) { r.pick(&anc).clone() } else if r.chance(50) { t.clone() } else { r.pick(&ets).clone() };
                    return match r.below(7) {
                        0 => {
                            self.idioms.insert("entity-eq");
                            format!("{e} == {}", self.gen(r, &STy::Entity(t.clone()), dd, g))
                        }
                        1 => {
                            self.idioms.insert("in-entity");
                            format!("{e} in {}", self.gen(r, &STy::Entity(u), dd, g))
                        }
                        2 => {
                            self.idioms.insert("in-set-literal");
                            let a = self.lit(r, &STy::Entity(u.clone()));
                            let b = self.gen(r, &STy::Entity(u), dd, g);
                            format!("{e} in [{a}, {b}]")
                        }
                        3 => {
                            self.idioms.insert("is");
                            format!("{e} is {}", r.pick(&ets))
                        }
                        4 => {
                            self.idioms.insert("is-in");
                            format!("{e} is {t} in {}", self.gen(r, &STy::Entity(u), dd, g))
                        }
                        5 => {
                            // set-typed attribute on the right
                            let cands: Vec<Path> = self.paths.iter().filter(|p| matches!(&p.ty, STy::Set(x) if matches!(**x, STy::Entity(_)))).cloned().collect();
                            if cands.is_empty() {
                                self.idioms.insert("in-entity");
                                format!("{e} in {}", self.lit(r, &STy::Entity(u)))
                            } else {
                                let p = r.pick(&cands).clone();
                                for x in &p.guards {
                                    if !g.contains(x) {
                                        g.push(x.clone());
                                    }
                                }
                                self.idioms.insert("in-set-attr");
                                format!("{e} in {}", p.text)
                            }
                        }
                        _ => {
                            self.idioms.insert("entity-neq");
                            format!("{e} != {}", self.gen(r, &STy::Entity(t.clone()), dd, g))
                        }
                    };
                }
                7 => {
                    // set operations on a set-typed path (or literal)
                    let sets: Vec<STy> = self.paths.iter().filter(|p| matches!(p.ty, STy::Set(_))).map(|p| p.ty.clone()).collect();
                    let sty = if !sets.is_empty() && r.chance(80) { r.pick(&sets).clone() } else { STy::Set(Box::new(STy::Long)) };
                    let STy::Set(el) = sty.clone() else { unreachable!() };
                    let s = self.gen(r, &sty, dd, g);
                    self.idioms.insert("set-op");
                    // a record literal types all its attributes as required: an element type with optional
                    // attributes can only be matched by an attribute path of that very type
                    let can_gen_el = all_required(&el) || !self.paths_of(&el).is_empty();
                    return match if can_gen_el { r.below(4) } else { 1 + r.below(3) } {
                        0 => format!("{s}.contains({})", self.gen(r, &el, dd, g)),
                        1 => format!("{s}.containsAll({})", self.gen(r, &sty, dd, g)),
                        2 => format!("{s}.containsAny({})", self.gen(r, &sty, dd, g)),
                        _ => format!("{s}.isEmpty()"),
                    };
                }
                8 => {
                    self.idioms.insert("ext-call");
                    return match r.below(5) {
                        0 => {
                            let f = *r.pick(&["lessThan", "lessThanOrEqual", "greaterThan", "greaterThanOrEqual"]);
                            format!("{}.{f}({})", self.gen(r, &STy::Ext("decimal"), dd, g), self.gen(r, &STy::Ext("decimal"), dd, g))
                        }
                        1 => {
                            let f = *r.pick(&["isIpv4", "isIpv6", "isLoopback", "isMulticast"]);
                            format!("{}.{f}()", self.gen(r, &STy::Ext("ipaddr"), dd, g))
                        }
                        2 => format!("{}.isInRange({})", self.gen(r, &STy::Ext("ipaddr"), dd, g), self.gen(r, &STy::Ext("ipaddr"), dd, g)),
                        3 => {
                            let op = *r.pick(&["<", "<=", ">", ">=", "=="]);
                            self.idioms.insert("datetime-cmp");
                            format!("{} {op} {}", self.gen(r, &STy::Ext("datetime"), dd, g), self.gen(r, &STy::Ext("datetime"), dd, g))
                        }
                        _ => {
                            let op = *r.pick(&["<", "<=", ">", ">="]);
                            self.idioms.insert("duration-cmp");
                            format!("{} {op} {}", self.gen(r, &STy::Ext("duration"), dd, g), self.gen(r, &STy::Ext("duration"), dd, g))
                        }
                    };
                }
                9 => {
                    // bare `has` on some entity / record path: declared or undeclared attribute
                    let cands: Vec<Path> = self.paths.iter().filter(|p| matches!(p.ty, STy::Entity(_) | STy::Record(_))).cloned().collect();
                    if cands.is_empty() {
                        continue;
                    }
                    let p = r.pick(&cands).clone();
                    for x in &p.guards {
                        if !g.contains(x) {
                            g.push(x.clone());
                        }
                    }
                    let declared: Vec<String> = match &p.ty {
                        STy::Entity(t) => self.spec.etype(t).map(|e| e.attrs.iter().map(|a| a.name.clone()).collect()).unwrap_or_default(),
                        STy::Record(a) => a.iter().map(|a| a.name.clone()).collect(),
                        _ => vec![],
                    };
                    let a = if !declared.is_empty() && r.chance(75) { r.pick(&declared).clone() } else { "zz_undeclared".to_string() };
                    self.idioms.insert("bare-has");
                    return format!("({})", has(&p.text, &a));
                }
                10 => {
                    let cands: Vec<Path> = self.paths.iter().filter(|p| matches!(p.ty, STy::Entity(_))).cloned().collect();
                    if cands.is_empty() {
                        continue;
                    }
                    let p = r.pick(&cands).clone();
                    for x in &p.guards {
                        if !g.contains(x) {
                            g.push(x.clone());
                        }
                    }
                    self.idioms.insert("bare-hasTag");
                    let key = if r.chance(70) { cedar_str(*r.pick(TAG_KEYS)) } else { self.gen(r, &STy::Str, 0, g) };
                    return format!("{}.hasTag({key})", p.text);
                }
                11 => {
                    // action tests
                    let acts = &self.spec.actions;
                    let a = r.pick(acts);
                    let au = uid_text(&a.uid());
                    return match r.below(3) {
                        0 => {
                            self.idioms.insert("action-eq");
                            format!("action == {au}")
                        }
                        1 => {
                            self.idioms.insert("in-action-group");
                            format!("action in {au}")
                        }
                        _ => {
                            self.idioms.insert("in-action-group");
                            let same: Vec<&gs::ActionSpec> = acts.iter().filter(|b| b.ty() == a.ty()).collect();
                            let b = uid_text(&r.pick(&same).uid());
                            format!("action in [{au}, {b}]")
                        }
                    };
                }
                12 | 13 => {
                    // `==` at the type of some path
                    if self.paths.is_empty() {
                        continue;
                    }
                    let p = r.pick(&self.paths).clone();
                    if matches!(p.ty, STy::Entity(_)) && p.guards.is_empty() && p.text.len() < 10 {
                        // principal == principal: boring
                    }
                    for x in &p.guards {
                        if !g.contains(x) {
                            g.push(x.clone());
                        }
                    }
                    self.idioms.insert("generic-eq");
                    let rhs = self.gen(r, &p.ty.clone(), dd, g);
                    return format!("{} == {rhs}", p.text);
                }
                14 => {
                    if d > 0 {
                        self.idioms.insert("if-nonbool");
                        let ty = r.pick(&[STy::Long, STy::Str]).clone();
                        let c = self.bool_closed(r, dd);
                        return format!("(if {c} then {} else {}) == {}", self.gen(r, &ty, dd, g), self.gen(r, &ty, dd, g), self.gen(r, &ty, dd, g));
                    }
                }
                _ => return r.chance(70).to_string(),
            }
        }
        "true".into()
    }

    /// wrap an atom in its guards
    fn wrap(&mut self, r: &mut Rng, g: &[Guard], atom: String) -> String {
        if g.is_empty() {
            return atom;
        }
        let gs: Vec<String> = g.iter().map(|x| x.text()).collect();
        if !self.near_missed && r.chance(self.near_miss_pct) {
            self.near_missed = true;
            self.idioms.insert("near-miss");
            let conj = gs.join(" && ");
            // an operand that the typechecker types True in the policy's target environment
            let always = {
                let ptype = self.p_ty.clone().unwrap_or_else(|| "User".into());
                let rtype = self.r_ty.clone().unwrap_or_else(|| ptype.clone());
                match r.below(3) { 0 => "true".to_string(), 1 => format!("principal is {ptype}"), _ => format!("resource is {rtype}") }
            };
            return match r.below(13) {
                // `has` to the left / right of an always-true operand of `||`: the disjunction says nothing about the attribute
                9 => format!("((({conj}) || {always}) && ({atom}))"),
                10 => format!("(({always} || ({conj})) && ({atom}))"),
                11 => format!("(if (({conj}) || {always}) then ({atom}) else false)"),
                12 => format!("(((({conj}) || {always}) && true) && ({atom}))"),
                0 => format!("(({conj}) || ({atom}))"),
                1 => format!("(if {conj} then true else ({atom}))"),
                2 => format!("(!({conj}) && ({atom}))"),
                3 => format!("(({atom}) && {conj})"),
                4 => {
                    // guard on a different attribute
                    let mut g2 = g.to_vec();
                    let last = g2.len() - 1;
                    g2[last] = match &g2[last] {
                        Guard::Attr { on, .. } => Guard::Attr { on: on.clone(), attr: "zz_other".into() },
                        Guard::Tag { on, .. } => Guard::Tag { on: on.clone(), key: "\"zz_other\"".into() },
                    };
                    format!("({} && ({atom}))", g2.iter().map(|x| x.text()).collect::<Vec<_>>().join(" && "))
                }
                5 => {
                    // guard on a different expression
                    let mut g2 = g.to_vec();
                    let last = g2.len() - 1;
                    let swap = |on: &str| if on.starts_with("principal") { on.replacen("principal", "resource", 1) } else if on.starts_with("resource") { on.replacen("resource", "principal", 1) } else { on.replacen("context", "principal", 1) };
                    g2[last] = match &g2[last] {
                        Guard::Attr { on, attr } => Guard::Attr { on: swap(on), attr: attr.clone() },
                        Guard::Tag { on, key } => Guard::Tag { on: swap(on), key: key.clone() },
                    };
                    format!("({} && ({atom}))", g2.iter().map(|x| x.text()).collect::<Vec<_>>().join(" && "))
                }
                6 | 7 => {
                    // guard on an entity LITERAL of the variable's own type (same attribute path, different receiver kind)
                    let mut g2 = g.to_vec();
                    let last = g2.len() - 1;
                    let ptype = self.p_ty.clone().unwrap_or_else(|| "User".into());
                    let rtype = self.r_ty.clone().unwrap_or_else(|| ptype.clone());
                    let lit = |on: &str| -> String {
                        let (var, ty) = if on.starts_with("principal") { ("principal", ptype.as_str()) } else if on.starts_with("resource") { ("resource", rtype.as_str()) } else { ("context", ptype.as_str()) };
                        on.replacen(var, &format!("{ty}::\"{}\"", ["a", "b", "c", "d"][ty.len() % 4]), 1)
                    };
                    g2[last] = match &g2[last] {
                        Guard::Attr { on, attr } => Guard::Attr { on: lit(on), attr: attr.clone() },
                        Guard::Tag { on, key } => Guard::Tag { on: lit(on), key: key.clone() },
                    };
                    format!("({} && ({atom}))", g2.iter().map(|x| x.text()).collect::<Vec<_>>().join(" && "))
                }
                _ => {
                    // the last guard is missing altogether
                    let mut parts: Vec<String> = gs[..gs.len() - 1].to_vec();
                    parts.push(format!("({atom})"));
                    format!("({})", parts.join(" && "))
                }
            };
        }
        // `e has a.b.c` when the guards are an attribute chain on one root with identifier names
        let chain = g.len() >= 2
            && g.windows(2).all(|w| match (&w[0], &w[1]) {
                (Guard::Attr { on: o1, attr: a1 }, Guard::Attr { on: o2, attr: a2 }) => is_ident(a1) && is_ident(a2) && *o2 == format!("{o1}.{a1}"),
                _ => false,
            });
        match r.below(if chain { 5 } else { 4 }) {
            0 | 1 => {
                self.idioms.insert("guard-and");
                format!("({} && ({atom}))", gs.join(" && "))
            }
            2 => {
                self.idioms.insert("guard-if");
                format!("(if {} then ({atom}) else {})", gs.join(" && "), r.chance(50))
            }
            3 => {
                self.idioms.insert("guard-if-nested");
                let mut t = format!("({atom})");
                for x in gs.iter().rev() {
                    t = format!("(if {x} then {t} else false)");
                }
                t
            }
            _ => {
                self.idioms.insert("guard-has-path");
                let (Guard::Attr { on, .. }, attrs) = (&g[0], g.iter().map(|x| match x { Guard::Attr { attr, .. } => attr.clone(), _ => unreachable!() }).collect::<Vec<_>>()) else { unreachable!() };
                format!("({on} has {} && ({atom}))", attrs.join("."))
            }
        }
    }

    /// a self-contained boolean expression (all guards resolved inside)
    fn bool_closed(&mut self, r: &mut Rng, d: u32) -> String {
        if d > 0 && r.chance(50) {
            return match r.below(5) {
                0 | 1 => format!("({} && {})", self.bool_closed(r, d - 1), self.bool_closed(r, d - 1)),
                2 => format!("({} || {})", self.bool_closed(r, d - 1), self.bool_closed(r, d - 1)),
                3 => format!("!({})", self.bool_closed(r, d - 1)),
                _ => format!("(if {} then {} else {})", self.bool_closed(r, d - 1), self.bool_closed(r, d - 1), self.bool_closed(r, d - 1)),
            };
        }
        let mut g = Vec::new();
        let atom = self.bool_atom(r, d, &mut g);
        self.wrap(r, &g, atom)
    }
}

// ------------------------------------------------------------------------------------------------
// policies
// ------------------------------------------------------------------------------------------------

fn pick_target(r: &mut Rng, spec: &SchemaSpec) -> (String, usize, String) {
    let cands: Vec<usize> = spec.actions.iter().enumerate().filter(|(_, a)| a.applies.is_some()).map(|(i, _)| i).collect();
    let ai = *r.pick(&cands);
    let ap = spec.actions[ai].applies.as_ref().unwrap();
    (r.pick(&ap.principals).clone(), ai, r.pick(&ap.resources).clone())
}

/// scope constraint on `principal` / `resource`; returns (text, pinned to `ty`?, uses slot?)
fn scope_var(r: &mut Rng, spec: &SchemaSpec, var: &str, ty: &str, pin: bool, templates: bool) -> (String, bool, bool) {
    let anc = spec.allowed_ancestor_types(ty);
    let some_uid = |r: &mut Rng, t: &str| uid_text(&gs::gen_uid_of(r, spec, t));
    let in_ty = if !anc.is_empty() && r.chance(75) { r.pick(&anc).clone() } else { ty.to_string() };
    if pin {
        match r.below(if templates { 5 } else { 4 }) {
            0 | 1 => (format!("{var} is {ty}"), true, false),
            2 => (format!("{var} == {}", some_uid(r, ty)), true, false),
            3 => (format!("{var} is {ty} in {}", some_uid(r, &in_ty)), true, false),
            _ => (format!("{var} is {ty} in ?{var}"), true, true),
        }
    } else {
        match r.below(if templates { 5 } else { 3 }) {
            0 | 1 => (var.to_string(), false, false),
            2 => (format!("{var} in {}", some_uid(r, &in_ty)), false, false),
            3 => (format!("{var} == ?{var}"), false, true),
            _ => (format!("{var} in ?{var}"), false, true),
        }
    }
}

pub fn gen_policy(r: &mut Rng, w: &SchemaWorld, opts: &GenOpts) -> GenPolicy {
    let spec = &w.spec;
    let target = pick_target(r, spec);
    let (pt, ai, rt) = target.clone();
    let (pin_p, pin_a, pin_r) = (r.chance(70), r.chance(75), r.chance(70));
    let (tp, tr) = (opts.templates && r.chance(30), opts.templates && r.chance(30));
    let (ptxt, _, ps) = scope_var(r, spec, "principal", &pt, pin_p, tp);
    let (rtxt, _, rs) = scope_var(r, spec, "resource", &rt, pin_r, tr);
    let au = uid_text(&spec.actions[ai].uid());
    let mut idioms: BTreeSet<&'static str> = BTreeSet::new();
    // only `==` pins the action: `action in [A]` also holds for the members of `A`
    let same_ty: Vec<&gs::ActionSpec> = spec.actions.iter().filter(|a| a.ty() == spec.actions[ai].ty()).collect();
    let atxt = if pin_a {
        format!("action == {au}")
    } else {
        match r.below(4) {
            0 => "action".to_string(),
            1 => {
                // a group the action belongs to, or the action itself
                let anc = spec.action_ancestors(ai);
                idioms.insert("scope-action-in-group");
                if !anc.is_empty() && r.chance(80) { format!("action in {}", uid_text(&spec.actions[*r.pick(&anc)].uid())) } else { format!("action in {au}") }
            }
            2 => {
                idioms.insert("scope-action-in-list");
                format!("action in [{au}]")
            }
            _ => {
                // (a set literal of actions of different namespaces is rejected in strict mode: incompatible types)
                idioms.insert("scope-action-in-list");
                format!("action in [{au}, {}]", uid_text(&r.pick(&same_ty).uid()))
            }
        }
    };
    let mut cx = Cx {
        spec,
        p_ty: if pin_p { Some(pt.clone()) } else { None },
        r_ty: if pin_r { Some(rt.clone()) } else { None },
        act: if pin_a { Some(ai) } else { None },
        paths: vec![],
        idioms,
        near_miss_pct: opts.near_miss_pct,
        plant_ill: if r.chance(opts.ill_typed_pct) { 1 } else { 0 },
        planted: None,
        near_missed: false,
    };
    // unpinned variables may be pinned inside the body by an explicit test
    let mut prefix: Vec<String> = Vec::new();
    if cx.p_ty.is_none() && r.chance(50) {
        prefix.push(format!("principal is {pt}"));
        cx.p_ty = Some(pt.clone());
        cx.idioms.insert("body-is-pin");
    }
    if cx.r_ty.is_none() && r.chance(50) {
        prefix.push(format!("resource is {rt}"));
        cx.r_ty = Some(rt.clone());
        cx.idioms.insert("body-is-pin");
    }
    if cx.act.is_none() && r.chance(50) {
        prefix.push(format!("action == {au}"));
        cx.act = Some(ai);
        cx.idioms.insert("body-action-pin");
    }
    cx.compute_paths();
    let body = cx.bool_closed(r, opts.depth);
    let mut when = prefix.clone();
    when.push(body);
    let mut text = format!("{}({ptxt}, {atxt}, {rtxt}) when {{ {} }}", if r.chance(80) { "permit" } else { "forbid" }, when.join(" && "));
    if r.chance(20) {
        let mut u = prefix.clone();
        u.push(cx.bool_closed(r, opts.depth.saturating_sub(1)));
        text.push_str(&format!(" unless {{ {} }}", u.join(" && ")));
        cx.idioms.insert("unless");
    }
    text.push(';');
    let intent = match (cx.planted, cx.near_missed) {
        (Some(i), _) => i,
        (None, true) => Intent::NearMiss,
        (None, false) => Intent::Documented,
    };
    GenPolicy { text, intent, idioms: cx.idioms, target, is_template: ps || rs, slots: (ps, rs) }
}

pub fn gen_policy_text(r: &mut Rng, w: &SchemaWorld, opts: &GenOpts) -> String {
    gen_policy(r, w, opts).text
}

/// `None` if the text does not parse
pub fn validate_text(schema: &ValidatorSchema, text: &str, mode: ValidationMode) -> Option<ValidationResult> {
    let t = parser::parse_policy_or_template(Some(PolicyID::from_string("p0")), text).ok()?;
    let mut ps = PolicySet::new();
    ps.add_template(t).ok()?;
    Some(Validator::new(schema.clone()).validate(&ps, mode))
}

pub fn strict_accepts(w: &SchemaWorld, text: &str) -> bool {
    validate_text(&w.schema, text, ValidationMode::Strict).map_or(false, |r| r.validation_passed())
}

/// `n` static policies accepted by the real strict validator (gives up after `20 n` attempts)
pub fn gen_valid_policies(r: &mut Rng, w: &SchemaWorld, n: usize) -> Vec<String> {
    let opts = GenOpts { templates: false, near_miss_pct: 0, ill_typed_pct: 0, ..GenOpts::default() };
    let mut out = Vec::new();
    let mut attempts = 0;
    while out.len() < n && attempts < 20 * n.max(1) {
        attempts += 1;
        let t = gen_policy_text(r, w, &opts);
        if strict_accepts(w, &t) {
            out.push(t);
        }
    }
    out
}

/// a conformant request for the environment (principal type, action, resource type)
pub fn gen_request_for(r: &mut Rng, spec: &SchemaSpec, ai: usize, pt: &str, rt: &str) -> DRequest {
    let a = &spec.actions[ai];
    let ctx = a.applies.as_ref().map(|ap| gs::gen_attr_values(r, spec, &ap.context)).unwrap_or_default();
    DRequest { principal: gs::gen_uid_of(r, spec, pt), action: a.uid(), resource: gs::gen_uid_of(r, spec, rt), context: ctx }
}

/// slot values for a template: uids of types for which the link is plausible (the variable's own type or one of
/// its permitted ancestor types)
pub fn gen_link_values(r: &mut Rng, spec: &SchemaSpec, p: &GenPolicy) -> (Option<Uid>, Option<Uid>) {
    let pick = |r: &mut Rng, ty: &str| {
        let anc = spec.allowed_ancestor_types(ty);
        let t = if !anc.is_empty() && r.chance(60) { r.pick(&anc).clone() } else { ty.to_string() };
        gs::gen_uid_of(r, spec, &t)
    };
    (if p.slots.0 { Some(pick(r, &p.target.0)) } else { None }, if p.slots.1 { Some(pick(r, &p.target.2)) } else { None })
}
