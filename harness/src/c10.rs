//! C10: entity / context / value JSON round trip; schema-directed parsing agrees with the escapes.
//! Routes: `CedarValueJson::from_value`/`from_expr` + serde, `ValueParser::val_into_restricted_expr` (with and
//! without expected type) + `RestrictedEvaluator`, `Context::{to_json_value,from_json_value}`,
//! `ContextJsonParser` with a hand-written `ContextSchema`, `Entity::{to_json_value,write_to_json}`,
//! `Entities::{to_json_value,write_to_json}`, `EntityJsonParser` (no schema / hand-written validator schema).
use crate::gen::{self, mk_uid, name};
use crate::out::Out;
use crate::rng::Rng;
use crate::sx::{self, qs};
use crate::Args;
use cedar_policy_core::ast::{
    Context, Entity, EntityUID, PartialValue, RestrictedExpr, Value, ValueKind,
};
use cedar_policy_core::entities::json::err::JsonDeserializationError as JDE;
use cedar_policy_core::entities::json::err::{JsonDeserializationErrorContext, JsonSerializationError};
use cedar_policy_core::entities::json::{
    AttributeType, CedarValueJson, ContextJsonDeserializationError, ContextJsonParser, ContextSchema, EntityJsonParser,
    SchemaType, ValueParser,
};
use cedar_policy_core::entities::err::EntitiesError;
use cedar_policy_core::entities::{Entities, NoEntitiesSchema, TCComputation};
use cedar_policy_core::evaluator::RestrictedEvaluator;
use cedar_policy_core::extensions::Extensions;
use cedar_policy_core::validator::{CoreSchema, ValidatorSchema};
use serde_json::{json, Value as J};
use smol_str::SmolStr;
use std::collections::{BTreeMap, HashSet};
use std::panic::{catch_unwind, AssertUnwindSafe};

// ---------------------------------------------------------------- sexp printing of JSON documents and types

/// document order, nothing sorted: what the model receives
fn jsx(v: &J) -> String {
    match v {
        J::Null => "null".into(),
        J::Bool(b) => format!("(jb {b})"),
        J::Number(n) => {
            if let Some(i) = n.as_i64() {
                format!("(ji {i})")
            } else if let Some(u) = n.as_u64() {
                format!("(ji {u})")
            } else {
                format!("(jn {})", qs(&n.to_string()))
            }
        }
        J::String(s) => format!("(js {})", qs(s)),
        J::Array(xs) => {
            let mut o = String::from("(ja");
            for x in xs {
                o.push(' ');
                o.push_str(&jsx(x));
            }
            o.push(')');
            o
        }
        J::Object(m) => {
            let mut o = String::from("(jo");
            for (k, x) in m {
                o.push_str(&format!(" ({} {})", qs(k), jsx(x)));
            }
            o.push(')');
            o
        }
    }
}

/// canonical printing (see lean/CedarVerif/Driver/Ops/Json.lean): members and elements sorted by printed text,
/// except the `args` array of an `__extn` payload
fn jsx_canon(v: &J) -> String {
    match v {
        J::Array(xs) => {
            let mut ps: Vec<String> = xs.iter().map(jsx_canon).collect();
            ps.sort();
            format!("(ja{})", ps.iter().map(|p| format!(" {p}")).collect::<String>())
        }
        J::Object(m) => {
            let mut ps: Vec<String> = m
                .iter()
                .map(|(k, x)| format!("({} {})", qs(k), if k == "__extn" { jsx_extn_payload(x) } else { jsx_canon(x) }))
                .collect();
            ps.sort();
            format!("(jo{})", ps.iter().map(|p| format!(" {p}")).collect::<String>())
        }
        other => jsx(other),
    }
}

fn jsx_extn_payload(v: &J) -> String {
    match v {
        J::Object(m) => {
            let mut ps: Vec<String> = m
                .iter()
                .map(|(k, x)| {
                    let body = match (k.as_str(), x) {
                        ("args", J::Array(xs)) => format!("(ja{})", xs.iter().map(|p| format!(" {}", jsx_canon(p))).collect::<String>()),
                        _ => jsx_canon(x),
                    };
                    format!("({} {})", qs(k), body)
                })
                .collect();
            ps.sort();
            format!("(jo{})", ps.iter().map(|p| format!(" {p}")).collect::<String>())
        }
        other => jsx_canon(other),
    }
}

fn ty_sx(t: &SchemaType) -> String {
    match t {
        SchemaType::Bool => "bool".into(),
        SchemaType::Long => "long".into(),
        SchemaType::String => "string".into(),
        SchemaType::EmptySet => "emptyset".into(),
        SchemaType::Set { element_ty } => format!("(set {})", ty_sx(element_ty)),
        SchemaType::Entity { ty } => format!("(entity {})", qs(&ty.to_string())),
        SchemaType::Extension { name } => format!("(ext {})", qs(&name.to_string())),
        SchemaType::Record { attrs, open_attrs } => {
            let mut o = format!("(record {}", if *open_attrs { "open" } else { "closed" });
            for (k, a) in attrs {
                o.push_str(&format!(" ({} {} {})", qs(k), if a.is_required() { "req" } else { "opt" }, ty_sx(a.schema_type())));
            }
            o.push(')');
            o
        }
    }
}

// ---------------------------------------------------------------- error classes

fn jde_class(e: &JDE) -> &'static str {
    match e {
        JDE::Serde(_) => "serde",
        JDE::ParseEscape(_) => "escape",
        JDE::RestrictedExpressionError(_) => "rexpr",
        JDE::ExpectedLiteralEntityRef(_) => "entityref",
        JDE::ExpectedExtnValue(_) => "extnvalue",
        JDE::ActionParentIsNotAction(_) => "actionparent",
        JDE::MissingImpliedConstructor(_) => "missingctor",
        JDE::IncorrectNumOfArguments(_) => "arity",
        JDE::FailedExtensionFunctionLookup(_) => "extlookup",
        JDE::DuplicateKey(_) => "dupkey",
        JDE::EntityAttributeEvaluation(_) => "eval",
        JDE::EntitySchemaConformance(_) => "conformance",
        JDE::UnexpectedRecordAttr(_) => "unexpectedattr",
        JDE::MissingRequiredRecordAttr(_) => "missingattr",
        JDE::TypeMismatch(_) => "typemismatch",
        JDE::ExprTag(_) => "exprtag",
        JDE::Null(_) => "null",
        _ => "other",
    }
}

fn jse_class(e: &JsonSerializationError) -> &'static str {
    match e {
        JsonSerializationError::Serde(_) => "serde",
        JsonSerializationError::ReservedKey(_) => "reserved",
        JsonSerializationError::UnexpectedRestrictedExprKind(_) => "exprkind",
        JsonSerializationError::Residual(_) => "residual",
        _ => "call0",
    }
}

fn entities_err_class(e: &EntitiesError) -> String {
    match e {
        EntitiesError::Serialization(e) => jse_class(e).to_string(),
        EntitiesError::Deserialization(e) => jde_class(e).to_string(),
        EntitiesError::Duplicate(_) => "duplicate".into(),
        EntitiesError::TransitiveClosureError(_) => "tc".into(),
        EntitiesError::InvalidEntity(_) => "conformance".into(),
        #[allow(unreachable_patterns)]
        _ => "other".into(),
    }
}

// ---------------------------------------------------------------- implementation routes (value level)

fn exts() -> &'static Extensions<'static> {
    Extensions::all_available()
}

fn eval_r(e: &RestrictedExpr) -> Result<Value, String> {
    match RestrictedEvaluator::new(exts()).partial_interpret(e.as_borrowed()) {
        Ok(PartialValue::Value(v)) => Ok(v),
        Ok(PartialValue::Residual(_)) => Err("unknown".into()),
        Err(_) => Err("eval".into()),
    }
}

/// `(ok value)` / `(err class)` of parsing `j` with the optional expected type, then evaluating
fn parse_value(j: &J, ty: Option<&SchemaType>) -> Result<Result<Value, String>, String> {
    catch_unwind(AssertUnwindSafe(|| {
        let vp = ValueParser::new(exts());
        match vp.val_into_restricted_expr(j.clone(), ty, &|| JsonDeserializationErrorContext::Context) {
            Ok(rexpr) => eval_r(&rexpr),
            Err(e) => Err(jde_class(&e).to_string()),
        }
    }))
    .map_err(crate::c02::panic_msg)
}

fn res_sx(r: &Result<Value, String>) -> String {
    match r {
        Ok(v) => format!("(ok {})", sx::value(v)),
        Err(c) => format!("(err {c})"),
    }
}

fn to_json(v: &Value) -> Result<J, String> {
    match CedarValueJson::from_value(v.clone()) {
        Ok(c) => serde_json::to_value(c).map_err(|_| "serde".to_string()),
        Err(e) => Err(jse_class(&e).to_string()),
    }
}

fn jres_sx(r: &Result<J, String>) -> String {
    match r {
        Ok(j) => format!("(ok {})", jsx_canon(j)),
        Err(c) => format!("(err {c})"),
    }
}

/// the same value with every extension value re-built from its `canonical_repr`
fn canon_value(v: &Value) -> Value {
    match &v.value {
        ValueKind::Lit(_) => v.clone(),
        ValueKind::Set(s) => Value::set(s.iter().map(canon_value), None),
        ValueKind::Record(r) => Value::record(r.iter().map(|(k, x)| (k.clone(), canon_value(x))), None),
        ValueKind::ExtensionValue(ev) => match ev.value().canonical_repr() {
            Some((f, args)) => eval_r(&RestrictedExpr::call_extension_fn(f, args)).unwrap_or_else(|_| v.clone()),
            None => v.clone(),
        },
    }
}

fn has_ext_noncanonical(v: &Value) -> bool {
    to_json(v).ok().map(|j| jsx_canon(&j)) != to_json(&canon_value(v)).ok().map(|j| jsx_canon(&j))
}

// ---------------------------------------------------------------- generators

const KEYS: &[&str] = &[
    "a", "b", "n", "s", "__entity", "__extn", "__expr", "type", "id", "fn", "arg", "args", "has space", "\u{1F600}k", "", "é",
    "uid", "attrs", "parents", "tags", "__cedar",
];
const SAFE_KEYS: &[&str] = &["a", "b", "n", "s", "type", "id", "fn", "arg", "args", "has space", "\u{1F600}k", "", "é", "uid", "attrs"];
const ESC_STRINGS: &[&str] = &[
    "", "a", "\"", "\\", "\n", "\t", "\u{0}", "\u{7f}", "\u{1F600}", "a\u{10FFFF}b", "é", "\\u0041", "</script>", "__entity", "line\r\nbreak", "\u{2028}",
    "1.0", "1970-01-01", "127.0.0.1", "5ms", "User", "decimal",
];

fn gen_str(r: &mut Rng) -> String {
    if r.chance(60) { (*r.pick(ESC_STRINGS)).to_string() } else { gen::gen_string(r) }
}

fn ext_call(f: &str, s: &str) -> RestrictedExpr {
    RestrictedExpr::call_extension_fn(name(f), vec![RestrictedExpr::val(s)])
}

fn gen_ext(r: &mut Rng) -> RestrictedExpr {
    match r.below(7) {
        0 => ext_call("decimal", *r.pick(gen::DECIMALS_OK)),
        1 => ext_call("ip", *r.pick(gen::IPS_OK)),
        2 => ext_call("datetime", *r.pick(gen::DATETIMES_OK)),
        3 => ext_call("duration", *r.pick(gen::DURATIONS_OK)),
        4 => {
            let n = gen::gen_long(r);
            ext_call("duration", &format!("{n}ms"))
        }
        5 => {
            // datetime by offset: any i64 epoch
            let n = gen::gen_long(r);
            RestrictedExpr::call_extension_fn(name("offset"), vec![ext_call("datetime", "1970-01-01"), ext_call("duration", &format!("{n}ms"))])
        }
        _ => {
            let n = gen::gen_long(r);
            let (a, b) = (n / 10000, (n % 10000).abs());
            let s = if n < 0 && a == 0 { format!("-0.{b:04}") } else { format!("{a}.{b:04}") };
            ext_call("decimal", &s)
        }
    }
}

/// untyped values of all shapes (heterogeneous sets, nested records, keys that look like escapes)
fn gen_any(r: &mut Rng, depth: u32, keys: &[&str]) -> RestrictedExpr {
    let k = if depth == 0 { r.below(6) } else { r.below(10) };
    match k {
        0 => RestrictedExpr::val(r.chance(50)),
        1 => RestrictedExpr::val(gen::gen_long(r)),
        2 => RestrictedExpr::val(gen_str(r)),
        3 => RestrictedExpr::val(gen::gen_uid(r)),
        4 | 5 => gen_ext(r),
        6 | 7 => {
            let n = r.below(4);
            RestrictedExpr::set((0..n).map(|_| gen_any(r, depth - 1, keys)).collect::<Vec<_>>())
        }
        _ => {
            let n = r.below(4);
            let mut m: BTreeMap<SmolStr, RestrictedExpr> = BTreeMap::new();
            for _ in 0..n {
                m.insert((*r.pick(keys)).into(), gen_any(r, depth - 1, keys));
            }
            RestrictedExpr::record(m).expect("no dup keys")
        }
    }
}

fn ext_ty(n: &str) -> SchemaType {
    SchemaType::Extension { name: name(n) }
}

fn gen_ty(r: &mut Rng, depth: u32) -> SchemaType {
    let k = if depth == 0 { r.below(8) } else { r.below(12) };
    match k {
        0 => SchemaType::Bool,
        1 => SchemaType::Long,
        2 => SchemaType::String,
        3 => SchemaType::Entity { ty: name(*r.pick(gen::TYPES)).into() },
        4 => ext_ty("decimal"),
        5 => ext_ty("ipaddr"),
        6 => ext_ty("datetime"),
        7 => ext_ty("duration"),
        8 | 9 => SchemaType::Set { element_ty: Box::new(gen_ty(r, depth - 1)) },
        _ => {
            let n = r.below(4);
            let mut attrs = BTreeMap::new();
            for _ in 0..n {
                let t = gen_ty(r, depth - 1);
                let k: SmolStr = (*r.pick(SAFE_KEYS)).into();
                attrs.insert(k, if r.chance(60) { AttributeType::required(t) } else { AttributeType::optional(t) });
            }
            SchemaType::Record { attrs, open_attrs: false }
        }
    }
}

/// a restricted expression that is an instance of `t`
fn gen_of_ty(r: &mut Rng, t: &SchemaType) -> RestrictedExpr {
    match t {
        SchemaType::Bool => RestrictedExpr::val(r.chance(50)),
        SchemaType::Long => RestrictedExpr::val(gen::gen_long(r)),
        SchemaType::String => RestrictedExpr::val(gen_str(r)),
        SchemaType::Entity { ty } => RestrictedExpr::val(mk_uid(&ty.to_string(), *r.pick(gen::EIDS))),
        SchemaType::Extension { name } => match name.to_string().as_str() {
            "decimal" => if r.chance(50) { ext_call("decimal", *r.pick(gen::DECIMALS_OK)) } else { loop { let e = gen_ext(r); if matches!(ext_fn_of(&e).as_str(), "decimal") { break e; } } },
            "ipaddr" => ext_call("ip", *r.pick(gen::IPS_OK)),
            "datetime" => if r.chance(50) { ext_call("datetime", *r.pick(gen::DATETIMES_OK)) } else {
                let n = gen::gen_long(r);
                RestrictedExpr::call_extension_fn(crate::gen::name("offset"), vec![ext_call("datetime", "1970-01-01"), ext_call("duration", &format!("{n}ms"))])
            },
            _ => if r.chance(50) { ext_call("duration", *r.pick(gen::DURATIONS_OK)) } else { ext_call("duration", &format!("{}ms", gen::gen_long(r))) },
        },
        SchemaType::EmptySet => RestrictedExpr::set(Vec::<RestrictedExpr>::new()),
        SchemaType::Set { element_ty } => {
            let n = r.below(4);
            RestrictedExpr::set((0..n).map(|_| gen_of_ty(r, element_ty)).collect::<Vec<_>>())
        }
        SchemaType::Record { attrs, .. } => {
            let mut m: BTreeMap<SmolStr, RestrictedExpr> = BTreeMap::new();
            for (k, a) in attrs {
                if a.is_required() || r.chance(50) {
                    m.insert(k.clone(), gen_of_ty(r, a.schema_type()));
                }
            }
            RestrictedExpr::record(m).expect("no dup keys")
        }
    }
}

fn ext_fn_of(e: &RestrictedExpr) -> String {
    match e.as_ref().expr_kind() {
        cedar_policy_core::ast::ExprKind::ExtensionFunctionApp { fn_name, .. } => fn_name.to_string(),
        _ => String::new(),
    }
}

/// the JSON of `v : t` where every entity reference / extension value is written, at random, in its explicit
/// escape form or in one of the implicit forms the schema allows (`explicit = true`: only escapes)
fn render(r: &mut Rng, t: Option<&SchemaType>, v: &Value, explicit: bool, implicit_used: &mut u32) -> J {
    match &v.value {
        ValueKind::Lit(cedar_policy_core::ast::Literal::EntityUID(u)) => {
            let ti = json!({"type": u.entity_type().to_string(), "id": AsRef::<str>::as_ref(u.eid())});
            if !explicit && matches!(t, Some(SchemaType::Entity { .. })) && r.chance(60) {
                *implicit_used += 1;
                ti
            } else {
                json!({ "__entity": ti })
            }
        }
        ValueKind::Lit(_) => to_json(v).expect("literal"),
        ValueKind::Set(s) => {
            let et = match t { Some(SchemaType::Set { element_ty }) => Some(element_ty.as_ref()), _ => None };
            J::Array(s.iter().map(|x| render(r, et, x, explicit, implicit_used)).collect())
        }
        ValueKind::Record(rec) => {
            let mut m = serde_json::Map::new();
            let mut items: Vec<_> = rec.iter().collect();
            if r.chance(50) { items.reverse(); }
            for (k, x) in items {
                let at = match t { Some(SchemaType::Record { attrs, .. }) => attrs.get(k).map(|a| a.schema_type()), _ => None };
                m.insert(k.to_string(), render(r, at, x, explicit, implicit_used));
            }
            J::Object(m)
        }
        ValueKind::ExtensionValue(_) => {
            let j = to_json(v).expect("extension value");
            if explicit || !matches!(t, Some(SchemaType::Extension { .. })) { j } else { implicit_ext(r, &j, implicit_used) }
        }
    }
}

/// rewrite an explicit `{"__extn":{"fn":f,"arg":a}}` / `{"__extn":{"fn":f,"args":[…]}}` document into implicit forms
fn implicit_ext(r: &mut Rng, j: &J, implicit_used: &mut u32) -> J {
    let Some(p) = j.get("__extn") else { return j.clone() };
    let f = p.get("fn").and_then(|x| x.as_str()).unwrap_or("").to_string();
    let is_ctor = matches!(f.as_str(), "decimal" | "ip" | "datetime" | "duration");
    let mut payload = serde_json::Map::new();
    payload.insert("fn".into(), J::String(f));
    if let Some(a) = p.get("arg") {
        // constructor argument is a string; bare string allowed where the expected type is the extension type
        if is_ctor && r.chance(45) {
            *implicit_used += 1;
            return a.clone();
        }
        payload.insert("arg".into(), a.clone());
    } else if let Some(J::Array(args)) = p.get("args") {
        payload.insert("args".into(), J::Array(args.iter().map(|a| if r.chance(70) { implicit_ext(r, a, implicit_used) } else { a.clone() }).collect()));
    }
    if r.chance(60) {
        *implicit_used += 1;
        J::Object(payload)
    } else {
        json!({ "__extn": J::Object(payload) })
    }
}

/// single-point mutations of a JSON document
fn mutate(r: &mut Rng, j: &J) -> J {
    // collect paths
    fn paths(j: &J, cur: &mut Vec<String>, out: &mut Vec<Vec<String>>) {
        out.push(cur.clone());
        match j {
            J::Array(xs) => for (i, x) in xs.iter().enumerate() { cur.push(i.to_string()); paths(x, cur, out); cur.pop(); },
            J::Object(m) => for (k, x) in m { cur.push(k.clone()); paths(x, cur, out); cur.pop(); },
            _ => {}
        }
    }
    fn at<'a>(j: &'a mut J, p: &[String]) -> &'a mut J {
        let mut c = j;
        for k in p {
            c = match c {
                J::Array(xs) => &mut xs[k.parse::<usize>().unwrap()],
                J::Object(m) => m.get_mut(k).unwrap(),
                _ => unreachable!(),
            };
        }
        c
    }
    let mut all = Vec::new();
    paths(j, &mut Vec::new(), &mut all);
    let p = r.pick(&all).clone();
    let mut out = j.clone();
    let node = at(&mut out, &p);
    let replacement: J = match r.below(23) {
        0 => J::Null,
        1 => json!(1.5),
        2 => json!(9223372036854775808u64),
        3 => json!(-9223372036854775808i64),
        4 => json!({"__entity": {"type": "User", "id": "a"}}),
        5 => json!({"__entity": {"type": "User ", "id": "a"}}),
        6 => json!({"__entity": {"type": r.pick(&["if", "A::", "::A", "A:::B", "__cedar::X", "A::__cedar", "a b", "", "é", "A::B::C", "_x9"]), "id": "a"}}),
        7 => json!({"__entity": {"type": "User", "id": "a", "extra": 1}}),
        8 => json!({"__entity": {"type": "User"}}),
        9 => json!({"__entity": {"type": "User", "id": 5}}),
        10 => json!({"__expr": "1 + 1"}),
        11 => json!({"__extn": {"fn": r.pick(&["decimal", "ip", "nosuch", "de cimal", "offset", "isIpv4", "lessThan"]), "arg": r.pick(&["1.0", "10.0.0.1", "bad", "1970-01-01", "1ms"])}}),
        12 => json!({"__extn": {"fn": "decimal", "arg": "1.0", "args": ["2.0"]}}),
        13 => json!({"__extn": {"fn": "offset", "args": [{"__extn": {"fn": "datetime", "arg": "2024-02-29"}}, {"__extn": {"fn": "duration", "arg": "1d"}}]}}),
        14 => json!({"__extn": {"fn": "decimal"}}),
        15 => json!({"type": "User", "id": "a"}),
        16 => json!({"fn": "decimal", "arg": "1.5"}),
        17 => json!([]),
        18 => json!("1.0"),
        19 => json!({"__extn": {"fn": "decimal", "arg": 1.5}}),
        20 => json!({"__entity": {"type": "User", "id": "a"}, "x": 1}),
        21 => json!({"__extn": {"fn": "unknown", "arg": "x"}}),
        _ => match node.clone() {
            J::Object(mut m) => {
                // drop or add a member
                if r.chance(50) && !m.is_empty() {
                    let k = m.keys().nth(r.below(m.len())).unwrap().clone();
                    m.shift_remove(&k);
                } else {
                    m.insert((*r.pick(KEYS)).to_string(), json!(7));
                }
                J::Object(m)
            }
            J::Array(mut xs) => { xs.push(json!("x")); J::Array(xs) }
            J::String(s) => J::String(format!("{s} ")),
            J::Number(_) => json!("1"),
            J::Bool(b) => json!(if b { 1 } else { 0 }),
            J::Null => json!({}),
        },
    };
    *node = replacement;
    out
}

/// mutations aimed at the schema-directed forms (positions where an entity / extension value is expected)
fn typed_probe(r: &mut Rng) -> J {
    match r.below(30) {
        0 => json!(["User", "a"]),
        1 => json!([["User", "a"]]),
        2 => json!([{"type": "User", "id": "a"}]),
        3 => json!(["x"]),
        4 => json!({"__expr": "x", "type": "User", "id": "a"}),
        5 => json!({"type": "User", "id": "a", "junk": 1.5}),
        6 => json!({"__entity": ["User", "a"]}),
        7 => json!({"__entity": {"type": "User", "id": "a"}, "type": "Group", "id": "b"}),
        8 => json!({"type": "User"}),
        9 => json!("User::\"a\""),
        10 => json!({"fn": "decimal", "arg": "1.5"}),
        11 => json!({"fn": "ip", "arg": "10.0.0.1/8", "extra": true}),
        12 => json!({"fn": "decimal", "args": ["1.5"]}),
        13 => json!({"fn": "decimal", "args": ["1.5", "2.5"]}),
        14 => json!({"fn": "offset", "args": ["2024-02-29", "1d"]}),
        15 => json!({"fn": "offset", "args": [{"fn": "datetime", "arg": "2024-02-29"}, {"__extn": {"fn": "duration", "arg": "1d"}}]}),
        16 => json!({"fn": "offset", "arg": "2024-02-29"}),
        17 => json!({"fn": "nosuch", "arg": "1"}),
        18 => json!({"fn": "A::b", "arg": "1"}),
        19 => json!({"fn": "de cimal", "arg": "1"}),
        20 => json!(["decimal", "1.5"]),
        21 => json!([{"fn": "decimal", "arg": "1.5"}]),
        22 => json!(["decimal", ["1.5"]]),
        23 => json!(5),
        24 => json!(true),
        25 => J::Null,
        26 => json!({"fn": 5, "arg": "1.5"}),
        27 => json!({"fn": "toDate", "arg": "2024-02-29T10:00:00Z"}),
        28 => json!({"__extn": {"fn": "duration", "arg": {"__extn": {"fn": "decimal", "arg": "1.0"}}}}),
        _ => json!({"fn": "decimal", "arg": 1.5, "args": ["2.5"]}),
    }
}

// ---------------------------------------------------------------- value-level cases

fn value_case(r: &mut Rng, out: &mut Out) {
    out.cases += 1;
    let keys = if r.chance(75) { SAFE_KEYS } else { KEYS };
    let depth = 1 + r.below(3) as u32;
    let e = gen_any(r, depth, keys);
    let Ok(v) = eval_r(&e) else { out.count("gen_eval_failed"); return };
    let vc = canon_value(&v);
    if vc != v {
        out.propfail("canonical re-rendering changed the value", &sx::value(&v), &sx::value(&vc));
    }
    // (a) serialisation, model vs implementation on the canonically rendered value
    let jc = to_json(&vc);
    out.line(format!("(json to {})", sx::value(&vc)), jres_sx(&jc), format!("to {}", e));
    out.count(if jc.is_ok() { "to_ok" } else { "to_refused" });
    // RestrictedExpr route: from_expr(value as expr) gives the same document
    let via_expr = CedarValueJson::from_expr(RestrictedExpr::from(vc.clone()).as_borrowed())
        .map_err(|e| jse_class(&e).to_string())
        .and_then(|c| serde_json::to_value(c).map_err(|_| "serde".to_string()));
    if jres_sx(&via_expr) != jres_sx(&jc) {
        out.propfail("from_expr and from_value disagree", &sx::value(&vc), &format!("{} vs {}", jres_sx(&via_expr), jres_sx(&jc)));
    }
    // (b) the value as the implementation holds it (original spellings)
    let j = to_json(&v);
    let reserved = has_reserved(&v);
    match (&j, reserved) {
        (Err(c), true) if c == "reserved" => out.count("reserved_refused"),
        (Ok(_), false) => {}
        (res, _) => out.propfail("serialisation refusal does not coincide with reserved keys", &sx::value(&v), &format!("{res:?} reserved={reserved}")),
    }
    if has_ext_noncanonical(&v) { out.count("noncanonical_ext_spelling"); }
    if let Ok(j) = &j {
        match parse_value(j, None) {
            Ok(back) => {
                out.line(format!("(json of {})", jsx(j)), res_sx(&back), format!("of(to) {}", e));
                match &back {
                    Ok(b) if *b == v => out.count("roundtrip_ok"),
                    other => out.propfail("from_json(to_json(v)) != v", &sx::value(&v), &format!("json {} gives {}", j, res_sx(other))),
                }
                out.nontrivial(&sx::value(&v));
                out.sample(format!("{} <-> {}", sx::value(&v), j));
            }
            Err(p) => out.propfail("panic in val_into_restricted_expr", &j.to_string(), &p),
        }
        // text level: serde text round trip of the document
        let text = serde_json::to_string(j).unwrap();
        match serde_json::from_str::<J>(&text) {
            Ok(j2) if j2 == *j => {}
            _ => out.propfail("serde text round trip changed the document", &text, ""),
        }
        // (c) mutated documents, without a schema
        for _ in 0..3 {
            let jm = mutate(r, j);
            match parse_value(&jm, None) {
                Ok(res) => {
                    out.count(&format!("of_mut_{}", match &res { Ok(_) => "ok", Err(c) => c.as_str() }));
                    out.line(format!("(json of {})", jsx(&jm)), res_sx(&res), format!("of(mutated) {}", jm));
                }
                Err(p) => out.propfail("panic in val_into_restricted_expr", &jm.to_string(), &p),
            }
        }
    }
}

fn has_reserved(v: &Value) -> bool {
    match &v.value {
        ValueKind::Lit(_) | ValueKind::ExtensionValue(_) => false,
        ValueKind::Set(s) => s.iter().any(has_reserved),
        ValueKind::Record(r) => r.iter().any(|(k, x)| matches!(k.as_str(), "__entity" | "__extn" | "__expr") || has_reserved(x)),
    }
}

fn typed_case(r: &mut Rng, out: &mut Out) {
    out.cases += 1;
    let depth = 1 + r.below(3) as u32;
    let t = gen_ty(r, depth);
    let e = gen_of_ty(r, &t);
    let Ok(v) = eval_r(&e) else { out.count("gen_eval_failed"); return };
    let tsx = ty_sx(&t);
    let mut dummy = 0;
    let jx = render(r, Some(&t), &v, true, &mut dummy);
    // explicit forms: with the type, and without
    let ex_typed = parse_value(&jx, Some(&t));
    let ex_plain = parse_value(&jx, None);
    match (&ex_typed, &ex_plain) {
        (Ok(a), Ok(b)) => {
            out.line(format!("(json oftyped {} {})", tsx, jsx(&jx)), res_sx(a), format!("typed explicit {}", jx));
            if res_sx(a) != res_sx(b) || a.as_ref().ok() != Some(&v) {
                out.propfail("explicit forms: schema-directed and plain parse disagree", &format!("{tsx} {jx}"), &format!("typed {} plain {} value {}", res_sx(a), res_sx(b), sx::value(&v)));
            }
        }
        _ => out.propfail("panic in val_into_restricted_expr", &jx.to_string(), ""),
    }
    // implicit forms chosen per node
    for _ in 0..2 {
        let mut used = 0;
        let ji = render(r, Some(&t), &v, false, &mut used);
        match parse_value(&ji, Some(&t)) {
            Ok(res) => {
                out.line(format!("(json oftyped {} {})", tsx, jsx(&ji)), res_sx(&res), format!("typed implicit {}", ji));
                if res.as_ref().ok() != Some(&v) {
                    out.propfail("implicit form with schema != explicit form without schema", &format!("{tsx} {ji}"), &format!("got {} expected {}", res_sx(&res), sx::value(&v)));
                }
                if used > 0 { out.count("typed_implicit_used"); out.nontrivial(&format!("{tsx}{ji}")); }
                out.sample(format!("{tsx}: {ji} ==> {}", res_sx(&res)));
            }
            Err(p) => out.propfail("panic in val_into_restricted_expr", &ji.to_string(), &p),
        }
        // mutated / non-conforming documents under the type
        let jm = if r.chance(50) { mutate(r, &ji) } else {
            // place a probe where an entity / extension value is expected, or at the top
            typed_probe(r)
        };
        match parse_value(&jm, Some(&t)) {
            Ok(res) => {
                out.count(&format!("typed_mut_{}", match &res { Ok(_) => "ok", Err(c) => c.as_str() }));
                out.line(format!("(json oftyped {} {})", tsx, jsx(&jm)), res_sx(&res), format!("typed mutated {}", jm));
            }
            Err(p) => out.propfail("panic in val_into_restricted_expr", &jm.to_string(), &p),
        }
    }
    // probes directly under entity / extension types
    let pt = match r.below(6) { 0 => SchemaType::Entity { ty: name("User").into() }, 1 => ext_ty("decimal"), 2 => ext_ty("ipaddr"), 3 => ext_ty("datetime"), 4 => ext_ty("duration"), _ => ext_ty("nosuchtype") };
    let jp = typed_probe(r);
    match parse_value(&jp, Some(&pt)) {
        Ok(res) => {
            out.count(&format!("probe_{}", match &res { Ok(_) => "ok", Err(c) => c.as_str() }));
            out.line(format!("(json oftyped {} {})", ty_sx(&pt), jsx(&jp)), res_sx(&res), format!("probe {}", jp));
        }
        Err(p) => out.propfail("panic in val_into_restricted_expr", &jp.to_string(), &p),
    }
}

/// open record types: expected attributes are parsed by type, the others are (in the implementation) dropped
fn open_record_case(r: &mut Rng, out: &mut Out) {
    out.cases += 1;
    let mut attrs = BTreeMap::new();
    attrs.insert(SmolStr::from("a"), AttributeType::optional(SchemaType::Long));
    attrs.insert(SmolStr::from("d"), AttributeType::optional(ext_ty("decimal")));
    let open = r.chance(70);
    let t = SchemaType::Record { attrs, open_attrs: open };
    let mut m = serde_json::Map::new();
    if r.chance(60) { m.insert("a".into(), json!(gen::gen_long(r))); }
    if r.chance(60) { m.insert("d".into(), if r.chance(50) { json!("1.5") } else { json!({"__extn": {"fn": "decimal", "arg": "1.5"}}) }); }
    if r.chance(70) { m.insert((*r.pick(&["x", "y", "type"])).into(), json!(gen_str(r))); }
    let j = J::Object(m);
    if let Ok(res) = parse_value(&j, Some(&t)) {
        out.count(if open { "open_record" } else { "closed_record" });
        out.line(format!("(json oftyped {} {})", ty_sx(&t), jsx(&j)), res_sx(&res), format!("open-record {}", j));
    }
}

// ---------------------------------------------------------------- context

struct CtxSchema(SchemaType);
impl ContextSchema for CtxSchema {
    fn context_type(&self) -> SchemaType { self.0.clone() }
}

fn ctx_err_class(e: &ContextJsonDeserializationError) -> String {
    match e {
        ContextJsonDeserializationError::JsonDeserialization(e) => jde_class(e).to_string(),
        ContextJsonDeserializationError::ContextCreation(c) => match c {
            cedar_policy_core::ast::ContextCreationError::NotARecord(_) => "notrecord".into(),
            cedar_policy_core::ast::ContextCreationError::Evaluation(_) => "eval".into(),
            _ => "ctxother".into(),
        },
    }
}

fn ctx_value(c: &Context) -> Option<Value> {
    match PartialValue::from(c.clone()) {
        PartialValue::Value(v) => Some(v),
        _ => None,
    }
}

fn ctx_res_sx(r: &Result<Context, ContextJsonDeserializationError>) -> String {
    match r {
        Ok(c) => match ctx_value(c) { Some(v) => format!("(ok {})", sx::value(&v)), None => "(err unknown)".into() },
        Err(e) => format!("(err {})", ctx_err_class(e)),
    }
}

fn context_case(r: &mut Rng, out: &mut Out, w: &gen::World) {
    out.cases += 1;
    // (a) world context, plain round trip
    let ctx = &w.context;
    let cv = ctx_value(ctx).expect("concrete context");
    match ctx.to_json_value() {
        Ok(j) => {
            let back = Context::from_json_value(j.clone());
            out.line(format!("(json ctx none {})", jsx(&j)), ctx_res_sx(&back), "context of(to)".into());
            match &back {
                Ok(b) if ctx_value(b).as_ref() == Some(&cv) => out.count("context_roundtrip_ok"),
                _ => out.propfail("Context::from_json_value(to_json_value(c)) != c", &sx::value(&cv), &format!("{} gives {}", j, ctx_res_sx(&back))),
            }
            // text route
            let text = serde_json::to_string_pretty(&j).unwrap();
            match Context::from_json_str(&text) {
                Ok(b) if ctx_value(&b).as_ref() == Some(&cv) => {}
                other => out.propfail("Context::from_json_str(text) != c", &text, &ctx_res_sx(&other)),
            }
            let cvc = canon_value(&cv);
            let jc = Context::from_pairs(match &cvc.value { ValueKind::Record(rec) => rec.iter().map(|(k, x)| (k.clone(), RestrictedExpr::from(x.clone()))).collect::<Vec<_>>(), _ => vec![] }, exts())
                .ok().and_then(|c| c.to_json_value().ok());
            if let Some(jc) = jc {
                out.line(format!("(json ctxto {})", sx::value(&cvc)), format!("(ok {})", jsx_canon(&jc)), "context to".into());
            }
        }
        Err(e) => out.propfail("Context::to_json_value failed on a generated context", &sx::value(&cv), &e.to_string()),
    }
    // (b) typed context: random record type, implicit forms
    let t = loop { let t = gen_ty(r, 2); if matches!(t, SchemaType::Record { .. }) { break t; } };
    let e = gen_of_ty(r, &t);
    if let Ok(v) = eval_r(&e) {
        let mut used = 0;
        let ji = render(r, Some(&t), &v, false, &mut used);
        let schema = CtxSchema(t.clone());
        let res = ContextJsonParser::new(Some(&schema), exts()).from_json_value(ji.clone());
        out.line(format!("(json ctx {} {})", ty_sx(&t), jsx(&ji)), ctx_res_sx(&res), format!("context typed {}", ji));
        match &res {
            Ok(c) if ctx_value(c).as_ref() == Some(&v) => out.count("context_typed_ok"),
            _ => out.propfail("schema-based context parse != value", &format!("{} {}", ty_sx(&t), ji), &ctx_res_sx(&res)),
        }
        let jm = mutate(r, &ji);
        let res = ContextJsonParser::new(Some(&schema), exts()).from_json_value(jm.clone());
        out.line(format!("(json ctx {} {})", ty_sx(&t), jsx(&jm)), ctx_res_sx(&res), format!("context typed mutated {}", jm));
    }
    // (c) non-record documents and reserved keys
    let jn = match r.below(5) { 0 => json!([1]), 1 => json!("x"), 2 => json!({"__entity": {"type": "User", "id": "a"}}), 3 => json!({"__extn": {"fn": "decimal", "arg": "1.0"}}), _ => json!({"a": {"__expr": "1"}}) };
    let res = Context::from_json_value(jn.clone());
    out.line(format!("(json ctx none {})", jsx(&jn)), ctx_res_sx(&res), format!("context non-record {}", jn));
    // nested reserved key: refused at serialisation
    let bad = Context::from_pairs(vec![("a".into(), RestrictedExpr::record(vec![((*r.pick(&["__entity", "__extn", "__expr"])).into(), RestrictedExpr::val(1))]).unwrap())], exts()).unwrap();
    match bad.to_json_value() {
        Err(JsonSerializationError::ReservedKey(_)) => out.count("context_reserved_refused"),
        other => out.propfail("nested reserved key in context not refused at serialisation", "", &format!("{other:?}")),
    }
    // top-level reserved key in a context
    let k = *r.pick(&["__entity", "__extn", "__expr"]);
    let payload = match r.below(4) {
        0 => RestrictedExpr::record(vec![("type".into(), RestrictedExpr::val("User")), ("id".into(), RestrictedExpr::val("a"))]).unwrap(),
        1 => RestrictedExpr::record(vec![("fn".into(), RestrictedExpr::val("decimal")), ("arg".into(), RestrictedExpr::val("1.0"))]).unwrap(),
        2 => RestrictedExpr::val("x"),
        _ => RestrictedExpr::val(1),
    };
    let top = Context::from_pairs(vec![(k.into(), payload)], exts()).unwrap();
    let tv = ctx_value(&top).unwrap();
    // tie the model's `contextToJson` to the code on exactly this case
    match top.to_json_value() {
        Err(JsonSerializationError::ReservedKey(_)) => out.line(format!("(json ctxto {})", sx::value(&tv)), "(err reserved)".into(), "context to (top-level reserved key)".into()),
        Err(_) => out.line(format!("(json ctxto {})", sx::value(&tv)), "(err other)".into(), "context to (top-level reserved key)".into()),
        Ok(j) => out.line(format!("(json ctxto {})", sx::value(&tv)), format!("(ok {})", jsx_canon(&j)), "context to (top-level reserved key)".into()),
    }
    match top.to_json_value() {
        Err(_) => out.count("context_top_reserved_refused"),
        Ok(j) => match Context::from_json_value(j.clone()) {
            Ok(b) if ctx_value(&b).as_ref() == Some(&tv) => out.count("context_top_reserved_roundtrips"),
            other => out.propfail(
                "context with a top-level reserved key is serialised (not refused) but does not parse back to the same context",
                &sx::value(&tv),
                &format!("json {} parses to {}", j, ctx_res_sx(&other)),
            ),
        },
    }
}

// ---------------------------------------------------------------- entities

fn entity_sx(e: &Entity, parents_only: bool) -> String {
    let pv = |p: &PartialValue| match p { PartialValue::Value(v) => sx::value(v), _ => "(residual)".into() };
    let mut o = format!("(ent {} (attrs", sx::uid(e.uid()));
    for (k, v) in e.attrs() { o.push_str(&format!(" ({} {})", qs(k), pv(v))); }
    o.push_str(") (anc");
    let mut anc: Vec<String> = if parents_only { e.parents().map(sx::uid).collect() } else { e.ancestors().map(sx::uid).collect() };
    anc.sort();
    anc.dedup();
    for a in anc { o.push(' '); o.push_str(&a); }
    o.push_str(") (tags");
    for (k, v) in e.tags() { o.push_str(&format!(" ({} {})", qs(k), pv(v))); }
    o.push_str("))");
    o
}

fn canon_entity(e: &Entity) -> Entity {
    let cv = |p: &PartialValue| match p { PartialValue::Value(v) => PartialValue::Value(canon_value(v)), other => other.clone() };
    Entity::new_with_attr_partial_value(
        e.uid().clone(),
        e.attrs().map(|(k, v)| (k.clone(), cv(v))).collect::<Vec<_>>(),
        e.indirect_ancestors().cloned().collect(),
        e.parents().cloned().collect(),
        e.tags().map(|(k, v)| (k.clone(), cv(v))).collect::<Vec<_>>(),
    )
}

fn well_formed_store(es: &Entities) -> Entities {
    let ents: Vec<Entity> = es
        .iter()
        .map(|e| {
            let act = e.uid().is_action();
            Entity::new_with_attr_partial_value(
                e.uid().clone(),
                e.attrs().map(|(k, v)| (k.clone(), v.clone())).collect::<Vec<_>>(),
                HashSet::new(),
                e.parents().filter(|p| !act || p.is_action()).cloned().collect(),
                e.tags().map(|(k, v)| (k.clone(), v.clone())).collect::<Vec<_>>(),
            )
        })
        .collect();
    Entities::from_entities(ents, None::<&NoEntitiesSchema>, TCComputation::ComputeNow, exts()).expect("acyclic")
}

fn single_entity_res(r: &Result<Entity, EntitiesError>) -> String {
    match r {
        Ok(e) => format!("(ok {})", entity_sx(e, true)),
        Err(e) => format!("(err {})", entities_err_class(e)),
    }
}

fn store_case(r: &mut Rng, out: &mut Out, w: &gen::World) {
    out.cases += 1;
    // the generated world may give action entities non-action parents; such entities are ill-formed
    // (`Entity::validate`) and the JSON parser refuses them: the store-level round trip uses the well-formed part
    let wf = well_formed_store(&w.entities);
    let es = &wf;
    let parser: EntityJsonParser<'_, '_, NoEntitiesSchema> = EntityJsonParser::new(None, exts(), TCComputation::ComputeNow);
    match es.to_json_value() {
        Ok(j) => {
            match parser.from_json_value(j.clone()) {
                Ok(back) => {
                    if back.deep_eq(es) && es.deep_eq(&back) { out.count("store_roundtrip_ok"); } else {
                        out.propfail("Entities::from_json_value(to_json_value(es)) not deep_eq es", &sx::entities(es).unwrap_or_default(), &j.to_string());
                    }
                    // the same uids and the same ancestor relation, stated directly
                    if sx::entities(&back) != sx::entities(es) {
                        out.propfail("store round trip changed uids / values / ancestors", &sx::entities(es).unwrap_or_default(), &sx::entities(&back).unwrap_or_default());
                    }
                }
                Err(e) => out.propfail("Entities JSON does not parse back", &j.to_string(), &e.to_string()),
            }
            // text route (write_to_json / from_json_str)
            let mut buf = Vec::new();
            if es.write_to_json(&mut buf).is_ok() {
                let text = String::from_utf8(buf).unwrap();
                match parser.from_json_str(&text) {
                    Ok(back) if back.deep_eq(es) => out.count("store_text_roundtrip_ok"),
                    _ => out.propfail("write_to_json / from_json_str round trip failed", &text, ""),
                }
            }
            out.nontrivial(&j.to_string());
        }
        Err(e) => out.propfail("Entities::to_json_value failed on a generated store", &sx::entities(es).unwrap_or_default(), &e.to_string()),
    }
    // single entities: model lines (on the world as generated, including ill-formed action entities)
    for e in w.entities.iter() {
        let ec = canon_entity(e);
        if let Ok(jc) = ec.to_json_value() {
            out.line(format!("(json entto {})", entity_sx(&ec, false)), format!("(ok {})", jsx_canon(&jc)), "entity to".into());
        }
        match e.to_json_value() {
            Ok(j) => {
                let back = parser.single_from_json_value(j.clone());
                out.line(format!("(json ent {})", jsx(&j)), single_entity_res(&back), "entity of(to)".into());
                match &back {
                    // a single entity parsed back: its parents are the ancestors that were written
                    Ok(b) if b.uid() == e.uid()
                        && b.attrs().map(|(k, v)| (k.clone(), v.clone())).collect::<Vec<_>>() == e.attrs().map(|(k, v)| (k.clone(), v.clone())).collect::<Vec<_>>()
                        && b.tags().map(|(k, v)| (k.clone(), v.clone())).collect::<Vec<_>>() == e.tags().map(|(k, v)| (k.clone(), v.clone())).collect::<Vec<_>>()
                        && b.ancestors().collect::<HashSet<_>>() == e.ancestors().collect::<HashSet<_>>() => out.count("entity_roundtrip_ok"),
                    // an action entity with a non-action ancestor is ill-formed (`Entity::validate`); the parser refuses it
                    Err(EntitiesError::Deserialization(JDE::ActionParentIsNotAction(_))) if e.uid().is_action() && e.ancestors().any(|a| !a.is_action()) => out.count("action_parent_refused"),
                    _ => out.propfail("Entity::from_json(to_json(e)) differs from e", &entity_sx(e, false), &format!("{} gives {}", j, single_entity_res(&back))),
                }
                if r.chance(40) {
                    let jm = mutate(r, &j);
                    if matches!(jm, J::Object(_)) {
                        let back = parser.single_from_json_value(jm.clone());
                        out.count(&format!("ent_mut_{}", match &back { Ok(_) => "ok".to_string(), Err(e) => entities_err_class(e) }));
                        out.line(format!("(json ent {})", jsx(&jm)), single_entity_res(&back), format!("entity mutated {}", jm));
                    }
                }
            }
            Err(err) => out.propfail("Entity::to_json_value failed", &entity_sx(e, false), &err.to_string()),
        }
    }
    // reserved key inside an attribute: the entity and the store are refused at serialisation
    let k = *r.pick(&["__entity", "__extn", "__expr"]);
    let bad = Entity::new(
        mk_uid("User", "bad"),
        vec![("r".into(), RestrictedExpr::record(vec![(k.into(), RestrictedExpr::val("x")), ("n".into(), RestrictedExpr::val(1))]).unwrap())],
        HashSet::new(), HashSet::new(), vec![], exts(),
    ).unwrap();
    match bad.to_json_value() {
        Err(EntitiesError::Serialization(JsonSerializationError::ReservedKey(_))) => out.count("entity_reserved_refused"),
        other => out.propfail("reserved key in an entity attribute not refused at serialisation", k, &format!("{:?}", other.map(|j| j.to_string()))),
    }
    // an attribute *named* like an escape is representable (attrs are a map of their own)
    let named = Entity::new(mk_uid("User", "named"), vec![(k.into(), RestrictedExpr::val(gen::gen_uid(r)))], HashSet::new(), HashSet::new(), vec![(k.into(), RestrictedExpr::val(1))], exts()).unwrap();
    match named.to_json_value().map(|j| (j.clone(), parser.single_from_json_value(j))) {
        Ok((_, Ok(b))) if b.deep_eq(&named) => out.count("escape_named_attr_roundtrip_ok"),
        other => out.propfail("attribute named like an escape does not round trip", k, &format!("{:?}", other.map(|(j, r)| (j.to_string(), single_entity_res(&r))))),
    }
}

// ---------------------------------------------------------------- stores with a schema

const SCHEMA: &str = r#"
{ "": {
  "entityTypes": {
    "User": { "memberOfTypes": ["Group"],
      "shape": { "type": "Record", "attributes": {
        "n": { "type": "Long", "required": false },
        "s": { "type": "String", "required": false },
        "b": { "type": "Boolean", "required": false },
        "f": { "type": "Entity", "name": "User", "required": false },
        "es": { "type": "Set", "element": { "type": "Entity", "name": "Group" }, "required": false },
        "d": { "type": "Extension", "name": "decimal", "required": false },
        "ip": { "type": "Extension", "name": "ipaddr", "required": false },
        "t": { "type": "Extension", "name": "datetime", "required": false },
        "du": { "type": "Extension", "name": "duration", "required": false },
        "ds": { "type": "Set", "element": { "type": "Extension", "name": "decimal" }, "required": false },
        "r": { "type": "Record", "required": false, "attributes": {
            "type": { "type": "String" },
            "id": { "type": "Entity", "name": "NS::Doc", "required": false },
            "fn": { "type": "Extension", "name": "duration", "required": false },
            "arg": { "type": "Set", "element": { "type": "Record", "attributes": { "g": { "type": "Entity", "name": "Group" } } }, "required": false } } }
      } },
      "tags": { "type": "Extension", "name": "decimal" } },
    "Group": { "memberOfTypes": ["Group"], "tags": { "type": "Entity", "name": "Group" } }
  },
  "actions": {
    "all": {},
    "view": { "memberOf": [ { "id": "all" } ], "appliesTo": { "principalTypes": ["User"], "resourceTypes": ["NS::Doc"] } },
    "edit": { "memberOf": [ { "id": "view" } ] }
  } },
  "NS": { "entityTypes": { "Doc": { "memberOfTypes": ["Group"], "shape": { "type": "Record", "attributes": { "owner": { "type": "Entity", "name": "User" } } } } }, "actions": {} }
}"#;

fn schema_attr_types() -> Vec<(&'static str, SchemaType)> {
    let ent = |t: &str| SchemaType::Entity { ty: name(t).into() };
    let mut g = BTreeMap::new();
    g.insert(SmolStr::from("g"), AttributeType::required(ent("Group")));
    let mut rec = BTreeMap::new();
    rec.insert(SmolStr::from("type"), AttributeType::required(SchemaType::String));
    rec.insert(SmolStr::from("id"), AttributeType::optional(ent("NS::Doc")));
    rec.insert(SmolStr::from("fn"), AttributeType::optional(ext_ty("duration")));
    rec.insert(SmolStr::from("arg"), AttributeType::optional(SchemaType::Set { element_ty: Box::new(SchemaType::Record { attrs: g, open_attrs: false }) }));
    vec![
        ("n", SchemaType::Long), ("s", SchemaType::String), ("b", SchemaType::Bool), ("f", ent("User")),
        ("es", SchemaType::Set { element_ty: Box::new(ent("Group")) }), ("d", ext_ty("decimal")), ("ip", ext_ty("ipaddr")),
        ("t", ext_ty("datetime")), ("du", ext_ty("duration")), ("ds", SchemaType::Set { element_ty: Box::new(ext_ty("decimal")) }),
        ("r", SchemaType::Record { attrs: rec, open_attrs: false }),
    ]
}

fn schema_store_case(r: &mut Rng, out: &mut Out, schema: &ValidatorSchema) {
    out.cases += 1;
    let core = CoreSchema::new(schema);
    let user_attrs = schema_attr_types();
    let gids = ["g0", "g1", "g2", "g\u{1F600}"];
    let uids = ["u0", "u1", "u\"q"];
    let mut ents: Vec<Entity> = Vec::new();
    // per entity: (attr types, tag type) for the implicit rendering
    let mut tyinfo: BTreeMap<String, (Vec<(&'static str, SchemaType)>, SchemaType)> = BTreeMap::new();
    for (i, g) in gids.iter().enumerate() {
        if !r.chance(75) { continue; }
        let mut parents = HashSet::new();
        for (j, p) in gids.iter().enumerate() { if j > i && r.chance(40) { parents.insert(mk_uid("Group", p)); } }
        let mut tags = vec![];
        if r.chance(40) { tags.push((SmolStr::from(gen_str(r)), RestrictedExpr::val(mk_uid("Group", *r.pick(&gids))))); }
        let u = mk_uid("Group", g);
        tyinfo.insert(u.to_string(), (vec![], SchemaType::Entity { ty: name("Group").into() }));
        ents.push(Entity::new(u, vec![], HashSet::new(), parents, tags, exts()).unwrap());
    }
    for u in uids {
        if !r.chance(75) { continue; }
        let mut parents = HashSet::new();
        for p in gids { if r.chance(30) { parents.insert(mk_uid("Group", p)); } }
        let mut attrs = vec![];
        for (k, t) in &user_attrs { if r.chance(50) { attrs.push((SmolStr::from(*k), gen_of_ty(r, t))); } }
        let mut tags = vec![];
        for _ in 0..r.below(3) { tags.push((SmolStr::from(gen_str(r)), gen_of_ty(r, &ext_ty("decimal")))); }
        tags.sort_by(|a, b| a.0.cmp(&b.0));
        tags.dedup_by(|a, b| a.0 == b.0);
        let uid = mk_uid("User", u);
        tyinfo.insert(uid.to_string(), (user_attrs.clone(), ext_ty("decimal")));
        ents.push(Entity::new(uid, attrs, HashSet::new(), parents, tags, exts()).unwrap());
    }
    if r.chance(50) {
        let uid = mk_uid("NS::Doc", "d");
        tyinfo.insert(uid.to_string(), (vec![("owner", SchemaType::Entity { ty: name("User").into() })], SchemaType::Bool));
        ents.push(Entity::new(uid, vec![("owner".into(), RestrictedExpr::val(mk_uid("User", "u0")))], HashSet::new(), HashSet::new(), vec![], exts()).unwrap());
    }
    let Ok(es) = Entities::from_entities(ents, None::<&NoEntitiesSchema>, TCComputation::ComputeNow, exts()) else { out.count("schema_store_gen_failed"); return };
    let actions: Vec<Entity> = {
        use cedar_policy_core::entities::json::Schema;
        core.action_entities().into_iter().map(|a| (*a).clone()).collect()
    };
    let check_plus_actions = |out: &mut Out, what: &str, loaded: &Entities, doc: &J| {
        let mut ok = loaded.len() == es.len() + actions.len();
        for e in es.iter() { ok &= matches!(loaded.entity(e.uid()), cedar_policy_core::entities::Dereference::Data(l) if l.deep_eq(e)); }
        for a in &actions { ok &= matches!(loaded.entity(a.uid()), cedar_policy_core::entities::Dereference::Data(l) if l.deep_eq(a)); }
        if ok { out.count(&format!("{what}_ok")); } else {
            out.propfail(&format!("{what}: schema-based loading is not (the data + exactly the schema's action entities)"), &doc.to_string(), &sx::entities(loaded).unwrap_or_default());
        }
    };
    let sparser = EntityJsonParser::new(Some(&core), exts(), TCComputation::ComputeNow);
    let nparser: EntityJsonParser<'_, '_, NoEntitiesSchema> = EntityJsonParser::new(None, exts(), TCComputation::ComputeNow);
    let Ok(j) = es.to_json_value() else { out.propfail("Entities::to_json_value failed", "", ""); return };
    // explicit document, with schema
    match sparser.from_json_value(j.clone()) {
        Ok(loaded) => check_plus_actions(out, "schema_explicit", &loaded, &j),
        Err(e) => out.propfail("conforming store (explicit forms) rejected by schema-based loading", &j.to_string(), &e.to_string()),
    }
    // implicit rendering per node, with schema == explicit without schema
    let mut used = 0;
    let mut docs = Vec::new();
    for e in es.iter() {
        let (atys, tty) = &tyinfo[&e.uid().to_string()];
        let mut attrs = serde_json::Map::new();
        for (k, v) in e.attrs() {
            let PartialValue::Value(v) = v else { continue };
            let t = atys.iter().find(|(n, _)| *n == k.as_str()).map(|(_, t)| t);
            attrs.insert(k.to_string(), render(r, t, v, false, &mut used));
        }
        let mut tags = serde_json::Map::new();
        for (k, v) in e.tags() {
            let PartialValue::Value(v) = v else { continue };
            tags.insert(k.to_string(), render(r, Some(tty), v, false, &mut used));
        }
        let uidj = |u: &EntityUID, r: &mut Rng| {
            let ti = json!({"type": u.entity_type().to_string(), "id": AsRef::<str>::as_ref(u.eid())});
            if r.chance(50) { ti } else { json!({ "__entity": ti }) }
        };
        // parents: either all ancestors (as the serialiser does) or only the direct parents
        let ps: Vec<J> = if r.chance(50) { e.ancestors().map(|p| uidj(p, r)).collect() } else { e.parents().map(|p| uidj(p, r)).collect() };
        let mut m = serde_json::Map::new();
        m.insert("uid".into(), uidj(e.uid(), r));
        m.insert("attrs".into(), J::Object(attrs));
        m.insert("parents".into(), J::Array(ps));
        if !tags.is_empty() || r.chance(30) { m.insert("tags".into(), J::Object(tags)); }
        docs.push(J::Object(m));
    }
    // optionally the schema's own actions, as the serialiser writes them
    let with_actions = r.chance(30);
    if with_actions { for a in &actions { docs.push(a.to_json_value().unwrap()); } }
    let ji = J::Array(docs);
    match sparser.from_json_value(ji.clone()) {
        Ok(loaded) => {
            check_plus_actions(out, "schema_implicit", &loaded, &ji);
            if used > 0 { out.count("schema_store_implicit_used"); out.nontrivial(&ji.to_string()); }
            out.sample(format!("schema store {}", ji));
        }
        Err(e) => out.propfail("conforming store (implicit forms) rejected by schema-based loading", &ji.to_string(), &e.to_string()),
    }
    // the explicit document without schema is the data alone
    match nparser.from_json_value(j.clone()) {
        Ok(loaded) if loaded.deep_eq(&es) => out.count("schema_store_plain_ok"),
        _ => out.propfail("explicit document without schema differs from the data", &j.to_string(), ""),
    }
}

/// fixed values: i64 extremes, every IPv6 rendering shape, strings needing escapes; for each the canonical
/// serialisation (model vs implementation) and the parse of that canonical document
fn fixed_cases(out: &mut Out) {
    let mut es: Vec<RestrictedExpr> = vec![
        RestrictedExpr::val(i64::MIN), RestrictedExpr::val(i64::MAX), RestrictedExpr::val(0),
        RestrictedExpr::set(Vec::<RestrictedExpr>::new()), RestrictedExpr::record(Vec::<(SmolStr, RestrictedExpr)>::new()).unwrap(),
        RestrictedExpr::set(vec![RestrictedExpr::set(Vec::<RestrictedExpr>::new()), RestrictedExpr::record(Vec::<(SmolStr, RestrictedExpr)>::new()).unwrap()]),
    ];
    for s in ESC_STRINGS { es.push(RestrictedExpr::val(*s)); }
    for ip in ["::", "::1", "1::", "1:0:0:2:0:0:0:3", "1:0:0:2:0:0:3:4", "0:0:1:0:0:1:0:0", "1:2:3:4:5:6:7:0", "0:2:3:4:5:6:7:8", "1:0:3:0:5:0:7:0",
               "::ffff:ff00:1", "::ffff:0:1", "0:0:0:0:0:ffff:102:304/96", "::fffe:102:304", "::1:2", "abcd:ef01:2345:6789:abcd:ef01:2345:6789/64", "A:B::F/0",
               "0.0.0.0", "255.255.255.255/0", "1.2.3.4/32", "10.0.0.1/1"].iter().chain(gen::IPS_OK.iter()) {
        es.push(ext_call("ip", ip));
    }
    for d in gen::DECIMALS_OK { es.push(ext_call("decimal", d)); }
    for d in gen::DATETIMES_OK { es.push(ext_call("datetime", d)); }
    for d in gen::DURATIONS_OK { es.push(ext_call("duration", d)); }
    for e in es {
        out.cases += 1;
        let Ok(v) = eval_r(&e) else { continue };
        // canonical re-rendering through `canonical_repr`
        let vc = match &v.value {
            ValueKind::ExtensionValue(ev) => match ev.value().canonical_repr() {
                Some((f, args)) => match eval_r(&RestrictedExpr::call_extension_fn(f.clone(), args.clone())) {
                    Ok(vc) => vc,
                    Err(_) => {
                        // the canonical representation itself does not evaluate (IPv4-mapped IPv6 addresses print in
                        // dotted form, which `ip()` refuses); not on the JSON path (values keep their constructor call)
                        out.count("canonical_repr_not_evaluable");
                        let je = CedarValueJson::from_expr(RestrictedExpr::call_extension_fn(f, args).as_borrowed()).ok().and_then(|c| serde_json::to_value(c).ok());
                        out.line(format!("(json to {})", sx::value(&v)), format!("(ok {})", je.as_ref().map(jsx_canon).unwrap_or_default()), format!("fixed canonical-not-evaluable {}", e));
                        if let Some(je) = je {
                            if let Ok(res) = parse_value(&je, None) {
                                out.line(format!("(json of {})", jsx(&je)), res_sx(&res), format!("fixed of(canonical) {}", je));
                            }
                        }
                        v.clone()
                    }
                },
                None => v.clone(),
            },
            _ => v.clone(),
        };
        if vc != v { out.propfail("canonical re-rendering changed the value", &sx::value(&v), &sx::value(&vc)); }
        let jc = to_json(&vc);
        if has_ext_noncanonical(&v) || !matches!(v.value, ValueKind::ExtensionValue(_)) {
            out.line(format!("(json to {})", sx::value(&vc)), jres_sx(&jc), format!("fixed to {}", e));
        }
        for j in [to_json(&v), jc].into_iter().flatten() {
            match parse_value(&j, None) {
                Ok(back) => {
                    out.line(format!("(json of {})", jsx(&j)), res_sx(&back), format!("fixed of(to) {}", e));
                    if back.as_ref().ok() != Some(&v) { out.propfail("from_json(to_json(v)) != v", &sx::value(&v), &format!("json {} gives {}", j, res_sx(&back))); }
                }
                Err(p) => out.propfail("panic in val_into_restricted_expr", &j.to_string(), &p),
            }
        }
    }
}

pub fn run(args: &Args, out: &mut Out) {
    let mut rng = Rng::new(args.seed);
    fixed_cases(out);
    let schema = ValidatorSchema::from_json_str(SCHEMA, exts()).expect("hand-written schema");
    let n = args.n;
    let mut i = 0;
    while i < n {
        let mut cr = rng.fork();
        let w = gen::gen_world(&mut cr);
        store_case(&mut cr, out, &w);
        context_case(&mut cr, out, &w);
        schema_store_case(&mut cr, out, &schema);
        for _ in 0..6 { value_case(&mut cr, out); }
        for _ in 0..5 { typed_case(&mut cr, out); }
        open_record_case(&mut cr, out);
        i += 1;
    }
}
