//! cedar-verif-harness: generates cases, runs the real Cedar code (the current working tree of /repo,
//! linked as path dependencies) and writes request lines for the Lean model together with the
//! implementation's canonical replies.  usage: harness <stream> --seed S --n N --out DIR [--tier T] [--replay FILE]
mod gen;
mod out;
mod rng;
mod sx;
mod c01;
mod c02;
mod c05;
mod c06;
mod c07;
mod gen_schema;
mod sx_schema;
mod c11;
mod c04;
mod c08;
mod c12;
mod c10;
mod c13;
mod c20;
mod c19;
mod c19_pols;
mod gen_typed;
mod c03;
mod gen_schema_text;
mod c09;
mod c18;
mod gen_schema_chain;
mod c16;
mod c14;
mod c14_typed;
mod c15;
mod c17;

use out::Out;

pub static LAST_PANIC_MSG: std::sync::Mutex<String> = std::sync::Mutex::new(String::new());

pub struct Args {
    pub stream: String,
    pub seed: u64,
    pub n: u64,
    pub out: String,
    pub thorough: bool,
    pub replay: Option<String>,
}

fn main() {
    let a: Vec<String> = std::env::args().collect();
    if a.len() < 2 {
        eprintln!("usage: harness <stream> --seed S --n N --out DIR");
        std::process::exit(2);
    }
    let mut args = Args { stream: a[1].clone(), seed: 1, n: 100, out: "out".into(), thorough: false, replay: None };
    let mut i = 2;
    while i < a.len() {
        match a[i].as_str() {
            "--seed" => { args.seed = a[i + 1].parse().unwrap(); i += 2; }
            "--n" => { args.n = a[i + 1].parse().unwrap(); i += 2; }
            "--out" => { args.out = a[i + 1].clone(); i += 2; }
            "--tier" => { args.thorough = a[i + 1] == "thorough"; i += 2; }
            "--replay" => { args.replay = Some(a[i + 1].clone()); i += 2; }
            x => { eprintln!("unknown arg {x}"); std::process::exit(2); }
        }
    }
    // silence panic messages from catch_unwind'ed cases (they are reported as outcomes)
    // (the last message is remembered so that a panic of the harness itself — outside any catch_unwind — can be diagnosed)
    std::panic::set_hook(Box::new(|info| {
        if let Ok(mut g) = LAST_PANIC_MSG.lock() { *g = info.to_string(); }
    }));
    let mut out = Out::default();
    // run on a big stack: deep expressions
    let stream = args.stream.clone();
    let res = std::thread::Builder::new()
        .stack_size(256 << 20)
        .spawn(move || {
            match stream.as_str() {
                "c01" => c01::run(&args, &mut out),
                "c02" => c02::run(&args, &mut out),
                "c05" => c05::run(&args, &mut out),
                "c06" => c06::run(&args, &mut out),
                "c07" => c07::run(&args, &mut out),
                "c11" => c11::run(&args, &mut out),
                "c04" => c04::run(&args, &mut out),
                "c08" => c08::run(&args, &mut out),
                "c12" => c12::run(&args, &mut out),
                "c10" => c10::run(&args, &mut out),
                "c13" => c13::run(&args, &mut out),
                "c13-repro" => c13::repro(&args, &mut out),
                "c20" => c20::run(&args, &mut out),
                "c19" => c19::run(&args, &mut out),
                "c19h" => c19::run_histories(&args, &mut out),
                "c19cli" => c19::run_cli(&args, &mut out),
                "c19p" => c19_pols::run(&args, &mut out),
                "c03" => c03::run(&args, &mut out),
                "c09" => c09::run(&args, &mut out),
                "c18" => c18::run(&args, &mut out),
                "c18symc" => c18::run_symc(&args, &mut out),
                "c16" => c16::run(&args, &mut out),
                "c14" => c14::run(&args, &mut out),
                "c14typed" => c14_typed::run(&args, &mut out),
                "c15" => c15::run(&args, &mut out),
                "c17" => c17::run(&args, &mut out),
                s => { eprintln!("unknown stream {s}"); std::process::exit(2); }
            }
            out.write(&args.out);
        })
        .unwrap()
        .join();
    if res.is_err() {
        eprintln!("harness thread panicked: {}", LAST_PANIC_MSG.lock().map(|g| g.clone()).unwrap_or_default());
        std::process::exit(3);
    }
}
