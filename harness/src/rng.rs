//! SplitMix64: every random choice of a run derives from one state seeded by VERIF_SEED.
#[derive(Clone)]
pub struct Rng(pub u64);

impl Rng {
    pub fn new(seed: u64) -> Self {
        Rng(seed.wrapping_mul(0x9E3779B97F4A7C15) ^ 0xD1B54A32D192ED03)
    }
    pub fn next(&mut self) -> u64 {
        self.0 = self.0.wrapping_add(0x9E3779B97F4A7C15);
        let mut z = self.0;
        z = (z ^ (z >> 30)).wrapping_mul(0xBF58476D1CE4E5B9);
        z = (z ^ (z >> 27)).wrapping_mul(0x94D049BB133111EB);
        z ^ (z >> 31)
    }
    /// uniform in 0..n (n > 0)
    pub fn below(&mut self, n: usize) -> usize {
        (self.next() % (n as u64)) as usize
    }
    pub fn range(&mut self, lo: i64, hi: i64) -> i64 {
        lo + (self.next() % ((hi - lo + 1) as u64)) as i64
    }
    /// true with probability pct/100
    pub fn chance(&mut self, pct: u32) -> bool {
        (self.next() % 100) < pct as u64
    }
    pub fn pick<'a, T>(&mut self, xs: &'a [T]) -> &'a T {
        &xs[self.below(xs.len())]
    }
    /// fork a sub-generator for one case
    pub fn fork(&mut self) -> Rng {
        Rng(self.next())
    }
}
